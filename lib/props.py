"""Per-property configuration of ./check: which correspondence engines run in which tier,
which aspects of a model/implementation disagreement matter for the property's theorems, and
what is assumed."""

ALLOWED_AXIOMS = {"propext", "Classical.choice", "Quot.sound"}
FORBIDDEN = [r"\bsorry\b", r"\badmit\b", r"^\s*axiom\s", r"native_decide", r"bv_decide", r"implemented_by", r"\bunsafe\s", r"maxHeartbeats\s+0"]

RAYON = "rayon 1.12 runs nothing but the jobs of the current stage inside for_each; join runs both closures (modelled, not verified)"
CELL = "atomic_refcell 0.1.14 borrow flags are atomic and exact (modelled, not verified)"
TYPES = "rustc's type system: a value passed as R has type R; no live guard during a &mut World call"


def plan(profiles, quick=300, thorough=30000, **kw):
    d = {"engine": "plan", "args": {"profiles": profiles}, "quick": {"cases": quick},
         "thorough": {"cases": thorough, "small-scope": True},
         "search": {"cases": 20000, "small-scope": True}}
    d["args"].update(kw)
    return d


PROPS = {
    "C01": {
        "statement": "Scenario.C01_isolation: in every trace of the plan of every registration sequence, two systems open at the same time have non-conflicting declarations",
        "engines": [plan("plan,flat,funnel,batch")],
        "aspects": ["layout", "outcome", "tl"],
        "also": [],
        "assumptions": [RAYON, CELL],
    },
    "C02": {
        "statement": "Scenario.C02_dependencies",
        "engines": [plan("deps,plan,batch")],
        "aspects": ["layout", "outcome", "tl"],
        "assumptions": [RAYON],
    },
    "C03": {
        "statement": "Scenario.C03_barriers",
        "engines": [plan("barriers,plan,batch")],
        "aspects": ["layout", "outcome", "tl"],
        "assumptions": [RAYON],
    },
    "C04": {
        "statement": "Scenario.C04_exactly_once",
        "engines": [plan("funnel,plan,batch,tl")],
        "aspects": ["layout", "outcome", "tl"],
        "assumptions": [RAYON],
    },
    "C06": {
        "statement": "Shred.SysData: fetch_borrows_exactly / fetch_write_excl / fetch_read_shared / fetch_nothing_else (a fetched value holds, as a multiset, one shared guard per present resource occurrence in reads(), one exclusive per occurrence in writes(), nothing else), fetch_fail_iff / fetch_panic_sound / fetch_fail_releases, drop_releases, reads_concat / writes_concat / setup_comp / fetch_comp (tuples and derived structs concatenate / compose their members in order), setup_preserves / setup_creates / setup_then_fetch - for every SD tree (Read/Write with any handler, Option forms, (), PhantomData, tuples, derived structs, nested)",
        "engines": [{"engine": "sysdata", "args": {},
                     "quick": {"exhaust-upto": 8, "samples": 24, "pre-samples": 12},
                     "thorough": {"exhaust-upto": 12, "samples": 1200, "pre-samples": 600},
                     "search": {"exhaust-upto": 10, "samples": 200, "pre-samples": 100}}],
        "aspects": ["*"],
        "assumptions": [CELL, TYPES,
                        "parametricity: a generic tuple impl cannot treat a member differently according to its concrete type (so one tuple per arity and position pattern stands for all member types)",
                        "the correspondence covers the 230 registered types (harness/src/engines/sysdata.rs), 32 resource types and four user setup handlers; the theorems cover every SD tree and every handler environment"],
    },
    "C10": {
        "statement": "C10_skipped_stage_justified (+ simulation by the five-table builder)",
        "engines": [plan("plan,deps,barriers,funnel")],
        "aspects": ["layout", "outcome", "maxthreads"],
        "assumptions": [],
    },
    "C18": {
        "statement": "add_panics_iff / add_ok / resolve_error_iff",
        "engines": [plan("malformed,funnel,plan", max_n=0)],
        "aspects": ["outcome"],
        "assumptions": ["panic payloads are compared as text (quoted name)"],
    },
    "C20": {
        "statement": "Scenario.C20_printed_is_executed + byte-for-byte Debug text",
        "engines": [plan("malformed,plan,batch")],
        "aspects": ["debug", "layout", "outcome"],
        "assumptions": [],
    },
}

TEXT = {}

_PENDING = "check under construction in this round (model and engine designed in DESIGN.md §5; not yet registered)"
NOT_APPLICABLE = [{"property_id": p, "reason": _PENDING} for p in
                  ["C05", "C06", "C07", "C08", "C09", "C11", "C12", "C13", "C14", "C15", "C16", "C17", "C19"] if p not in PROPS]
