"""Per-property configuration of ./check: which correspondence engines run in which tier,
which aspects of a model/implementation disagreement matter for the property's theorems, and
what is assumed."""

ALLOWED_AXIOMS = {"propext", "Classical.choice", "Quot.sound"}
FORBIDDEN = [r"\bsorry\b", r"\badmit\b", r"^\s*axiom\s", r"native_decide", r"bv_decide", r"implemented_by", r"\bunsafe\s", r"maxHeartbeats\s+0"]

RAYON = "rayon 1.12 runs nothing but the jobs of the current stage inside for_each; join runs both closures (modelled, not verified)"
CELL = "atomic_refcell 0.1.14 borrow flags are atomic and exact (modelled, not verified)"
TYPES = "rustc's type system: a value passed as R has type R; no live guard during a &mut World call"


def plan(profiles, quick=300, thorough=30000, **kw):
    d = {"engine": "plan", "args": {"profiles": profiles}, "quick": {"cases": quick},
         "thorough": {"cases": thorough, "small-scope": True},
         "search": {"cases": 20000, "small-scope": True}}
    d["args"].update(kw)
    return d


PROPS = {
    "C01": {
        "statement": "Scenario.C01_isolation: in every trace of the plan of every registration sequence, two systems open at the same time have non-conflicting declarations",
        "engines": [plan("plan,flat,funnel,batch")],
        "aspects": ["layout", "outcome", "tl"],
        "also": [],
        "assumptions": [RAYON, CELL],
    },
    "C02": {
        "statement": "Scenario.C02_dependencies",
        "engines": [plan("deps,plan,batch")],
        "aspects": ["layout", "outcome", "tl"],
        "assumptions": [RAYON],
    },
    "C03": {
        "statement": "Scenario.C03_barriers",
        "engines": [plan("barriers,plan,batch")],
        "aspects": ["layout", "outcome", "tl"],
        "assumptions": [RAYON],
    },
    "C04": {
        "statement": "Scenario.C04_exactly_once",
        "engines": [plan("funnel,plan,batch,tl")],
        "aspects": ["layout", "outcome", "tl"],
        "assumptions": [RAYON],
    },
    "C10": {
        "statement": "C10_skipped_stage_justified (+ simulation by the five-table builder)",
        "engines": [plan("plan,deps,barriers,funnel")],
        "aspects": ["layout", "outcome", "maxthreads"],
        "assumptions": [],
    },
    "C18": {
        "statement": "add_panics_iff / add_ok / resolve_error_iff",
        "engines": [plan("malformed,funnel,plan", max_n=0)],
        "aspects": ["outcome"],
        "assumptions": ["panic payloads are compared as text (quoted name)"],
    },
    "C20": {
        "statement": "Scenario.C20_printed_is_executed + byte-for-byte Debug text",
        "engines": [plan("malformed,plan,batch")],
        "aspects": ["debug", "layout", "outcome"],
        "assumptions": [],
    },
}



def world(quick=400, thorough=1500):
    return {"engine": "world", "args": {},
            "quick": {"cases": quick, "max-ops": 40, "conc-rounds": 4, "conc-threads": 6, "conc-ops": 2000},
            "thorough": {"cases": thorough, "max-ops": 400, "conc-rounds": 20, "conc-threads": 12, "conc-ops": 20000},
            "search": {"cases": 3000, "max-ops": 60, "conc-rounds": 8, "conc-threads": 8, "conc-ops": 5000}}


PROPS["C08"] = {
    "statement": "C08.every_history / step_preserves_inv (each cell is free, shared by exactly its n live shared guards, or exclusive with exactly one live guard, after every legal history), C08.outcome_spec (None iff absent, borrow panic iff an incompatible guard is alive, a guard otherwise), C08.panic_frame (+ unwinding of composite fetches), C08.drop_exact",
    "engines": [world()],
    "aspects": ["outcome", "state"],
    "assumptions": [CELL + "; each cell operation (try_borrow, borrow_mut, guard drop) is one atomic step, so a many-thread history is treated as an interleaving of the modelled operations (linearizability of AtomicRefCell is assumed, not proved; the stress part of the engine only checks that no two incompatible guards ever coexist)", TYPES],
}
PROPS["C09"] = {
    "statement": "C09.refines_state / refines_out (every operation commutes with abs : World -> (ResId -> Option Token) and answers what the map answers), C09.typed_linear_invariant (type tag = key type; conservation of values), C09.mismatch_panics, C09.linear / dropped_exactly_once",
    "engines": [world()],
    "aspects": ["outcome", "state", "ghost"],
    "assumptions": [TYPES, "the unchecked downcasts (Fetch::deref, get_mut, remove) are modelled as 'type tag equals key type => the cast is right'"],
}

TEXT = {}

_PENDING = "check under construction in this round (model and engine designed in DESIGN.md §5; not yet registered)"
NOT_APPLICABLE = [{"property_id": p, "reason": _PENDING} for p in
                  ["C05", "C06", "C07", "C08", "C09", "C11", "C12", "C13", "C14", "C15", "C16", "C17", "C19"] if p not in PROPS]
