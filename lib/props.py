"""Per-property configuration of ./check: which correspondence engines run in which tier,
which aspects of a model/implementation disagreement matter for the property's theorems, and
what is assumed."""

ALLOWED_AXIOMS = {"propext", "Classical.choice", "Quot.sound"}
FORBIDDEN = [r"\bsorry\b", r"\badmit\b", r"^\s*axiom\s", r"native_decide", r"bv_decide", r"implemented_by", r"\bunsafe\s", r"maxHeartbeats\s+0"]

RAYON = "rayon 1.12 runs nothing but the jobs of the current stage inside for_each; join runs both closures (modelled, not verified)"
CELL = "atomic_refcell 0.1.14 borrow flags are atomic and exact (modelled, not verified)"
TYPES = "rustc's type system: a value passed as R has type R; no live guard during a &mut World call"


def plan(profiles, quick=300, thorough=30000, **kw):
    d = {"engine": "plan", "args": {"profiles": profiles}, "quick": {"cases": quick},
         "thorough": {"cases": thorough, "small-scope": True},
         "search": {"cases": 20000, "small-scope": True}}
    d["args"].update(kw)
    return d


PROPS = {
    "C01": {
        "statement": "Scenario.C01_isolation: in every trace of the plan of every registration sequence, two systems open at the same time have non-conflicting declarations",
        "engines": [plan("plan,flat,funnel,batch")],
        "aspects": ["layout", "outcome", "tl"],
        "also": [],
        "assumptions": [RAYON, CELL],
    },
    "C02": {
        "statement": "Scenario.C02_dependencies",
        "engines": [plan("deps,plan,batch")],
        "aspects": ["layout", "outcome", "tl"],
        "assumptions": [RAYON],
    },
    "C03": {
        "statement": "Scenario.C03_barriers",
        "engines": [plan("barriers,plan,batch")],
        "aspects": ["layout", "outcome", "tl"],
        "assumptions": [RAYON],
    },
    "C04": {
        "statement": "Scenario.C04_exactly_once",
        "engines": [plan("funnel,plan,batch,tl")],
        "aspects": ["layout", "outcome", "tl"],
        "assumptions": [RAYON],
    },
    "C10": {
        "statement": "C10_skipped_stage_justified (+ simulation by the five-table builder)",
        "engines": [plan("plan,deps,barriers,funnel")],
        "aspects": ["layout", "outcome", "maxthreads"],
        "assumptions": [],
    },
    "C18": {
        "statement": "add_panics_iff / add_ok / resolve_error_iff",
        "engines": [plan("malformed,funnel,plan", max_n=0)],
        "aspects": ["outcome"],
        "assumptions": ["panic payloads are compared as text (quoted name)"],
    },
    "C20": {
        "statement": "Scenario.C20_printed_is_executed + byte-for-byte Debug text",
        "engines": [plan("malformed,plan,batch")],
        "aspects": ["debug", "layout", "outcome"],
        "assumptions": [],
    },
    "C17": {
        "statement": "Meta.C17_inv (MetaInv after every register history) + C17_tys_first_registration + C17_get_spec / C17_get_some_iff / C17_bad_cast_panics_get + C17_next_spec / C17_next_conflict_panics / C17_bad_cast_panics_next + C17_iter_spec / C17_iter_once_each (stable, non-nightly meta.rs)",
        "engines": [{"engine": "meta", "args": {},
                     "quick": {"cases": 4000},
                     "thorough": {"cases": 50000, "small-scope": True, "long": True},
                     "search": {"cases": 60000, "small-scope": True}}],
        "aspects": ["*"],
        "assumptions": [
            CELL,
            "a vtable is identified with the concrete type it was built for; attach_vtable's pointer cast is modelled as `type tag of the stored function = type tag of the value => the cast is right` (unsafe pointer work itself is not verified; no Miri in this environment)",
            "`present` = present under dynamic id 0, the only key the iterators look up; only the stable (non-`nightly`) variant of meta.rs is modelled and exercised",
            "user code: <T as CastFrom<R>>::cast returns a pointer whose vtable is R's (forced by its signature in safe code); its address is arbitrary (universally quantified in the theorems)",
        ],
    },
}

TEXT = {}

_PENDING = "check under construction in this round (model and engine designed in DESIGN.md §5; not yet registered)"
NOT_APPLICABLE = [{"property_id": p, "reason": _PENDING} for p in
                  ["C05", "C06", "C07", "C08", "C09", "C11", "C12", "C13", "C14", "C15", "C16", "C17", "C19"] if p not in PROPS]
