"""Per-property configuration of ./check: which correspondence engines run in which tier,
which aspects of a model/implementation disagreement matter for the property's theorems, and
what is assumed."""

ALLOWED_AXIOMS = {"propext", "Classical.choice", "Quot.sound"}
FORBIDDEN = [r"\bsorry\b", r"\badmit\b", r"^\s*axiom\s", r"native_decide", r"bv_decide", r"implemented_by", r"\bunsafe\s", r"maxHeartbeats\s+0"]

RAYON = "rayon 1.12 runs nothing but the jobs of the current stage inside for_each; join runs both closures (modelled, not verified)"
CELL = "atomic_refcell 0.1.14 borrow flags are atomic and exact (modelled, not verified)"
TYPES = "rustc's type system: a value passed as R has type R; no live guard during a &mut World call"


def plan(profiles, quick=300, thorough=30000, **kw):
    d = {"engine": "plan", "args": {"profiles": profiles}, "quick": {"cases": quick},
         "thorough": {"cases": thorough, "small-scope": True},
         "search": {"cases": 20000, "small-scope": True}}
    d["args"].update(kw)
    return d


PROPS = {
    "C01": {
        "statement": "Scenario.C01_isolation: in every trace of the plan of every registration sequence, two systems open at the same time have non-conflicting declarations",
        "engines": [plan("plan,flat,funnel,batch")],
        "aspects": ["layout", "outcome", "tl"],
        "also": [],
        "assumptions": [RAYON, CELL],
    },
    "C02": {
        "statement": "Scenario.C02_dependencies",
        "engines": [plan("deps,plan,batch")],
        "aspects": ["layout", "outcome", "tl"],
        "assumptions": [RAYON],
    },
    "C03": {
        "statement": "Scenario.C03_barriers",
        "engines": [plan("barriers,plan,batch")],
        "aspects": ["layout", "outcome", "tl"],
        "assumptions": [RAYON],
    },
    "C04": {
        "statement": "Scenario.C04_exactly_once",
        "engines": [plan("funnel,plan,batch,tl")],
        "aspects": ["layout", "outcome", "tl"],
        "assumptions": [RAYON],
    },
    "C10": {
        "statement": "C10_skipped_stage_justified (+ simulation by the five-table builder)",
        "engines": [plan("plan,deps,barriers,funnel")],
        "aspects": ["layout", "outcome", "maxthreads"],
        "assumptions": [],
    },
    "C18": {
        "statement": "add_panics_iff / add_ok / resolve_error_iff",
        "engines": [plan("malformed,funnel,plan", max_n=0)],
        "aspects": ["outcome"],
        "assumptions": ["panic payloads are compared as text (quoted name)"],
    },
    "C20": {
        "statement": "Scenario.C20_printed_is_executed + byte-for-byte Debug text",
        "engines": [plan("malformed,plan,batch")],
        "aspects": ["debug", "layout", "outcome"],
        "assumptions": [],
    },
    "C15": {
        "statement": "Async.accessor_quiescent / dispatch_quiescent / running_true_while_open / running_false_only_done / no_overtake / tl_only_in_wait / wait_runs_tl / each_once / each_at_most_once over every run (all interleavings of caller steps and background-job steps) of the transition system of Model/Async.lean; acceptsLog_sound transfers them to every merged log the driver accepts",
        "engines": [{"engine": "asyncd", "args": {}, "quick": {"cases": 600}, "thorough": {"cases": 30000},
                     "search": {"cases": 6000}}],
        "aspects": ["*"],
        "assumptions": [
            "std::sync::mpsc: recv returns only after send; try_recv never invents a message (modelled as a one-slot mailbox, not verified)",
            "rayon ThreadPool::spawn runs the closure once on a pool thread; a panic inside it aborts the process (outside the model)",
            "the job's stage loop produces exactly the traces of the stages task of the model's layout (C01-C04 correspondence)",
            "one SeqCst-ordered log: F is logged before the first borrow and D after the last release, ret after the call returned",
        ],
    },
}

TEXT = {}

_PENDING = "check under construction in this round (model and engine designed in DESIGN.md §5; not yet registered)"
NOT_APPLICABLE = [{"property_id": p, "reason": _PENDING} for p in
                  ["C05", "C06", "C07", "C08", "C09", "C11", "C12", "C13", "C14", "C15", "C16", "C17", "C19"] if p not in PROPS]
