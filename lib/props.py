"""Per-property configuration of ./check: which correspondence engines run in which tier,
which aspects of a model/implementation disagreement matter for the property's theorems, and
what is assumed."""

ALLOWED_AXIOMS = {"propext", "Classical.choice", "Quot.sound"}
FORBIDDEN = [r"\bsorry\b", r"\badmit\b", r"^\s*axiom\s", r"native_decide", r"bv_decide", r"implemented_by", r"\bunsafe\s", r"maxHeartbeats\s+0"]

RAYON = "rayon 1.12 runs nothing but the jobs of the current stage inside for_each; join runs both closures (modelled, not verified)"
CELL = "atomic_refcell 0.1.14 borrow flags are atomic and exact (modelled, not verified)"
TYPES = "rustc's type system: a value passed as R has type R; no live guard during a &mut World call"


def plan(profiles, quick=800, thorough=30000, nopar=False, **kw):
    d = {"engine": "plan", "args": {"profiles": profiles}, "quick": {"cases": quick},
         "thorough": {"cases": thorough, "small-scope": True},
         "search": {"cases": 4000}, "nopar": nopar}
    d["args"].update(kw)
    return d


def plan_release(profiles, thorough=6000):
    """thorough tier only: the same layouts from a release-profile build of crate and harness
    (debug assertions off: whatever sits inside debug_assert! is not evaluated)"""
    d = plan(profiles, quick=0, thorough=thorough)
    d["profile"] = "release"
    d["tiers"] = ["thorough"]
    d["thorough"] = {"cases": thorough}
    return d


def plan_nopar(profiles, quick=200, thorough=4000):
    """the same layouts from the build without the `parallel` feature (code under cfg(feature))"""
    return plan(profiles, quick=quick, thorough=thorough, nopar=True)


def trace(profiles, quick=120, thorough=3000, nopar=False, **kw):
    d = {"engine": "trace", "args": {"profiles": profiles}, "quick": {"cases": quick},
         "thorough": {"cases": thorough}, "search": {"cases": 800}, "nopar": nopar}
    d["args"].update(kw)
    return d


LAYOUT = ["layout", "outcome", "tl"]
TRACE = LAYOUT + ["trace", "thread"]

PROPS = {
    "C01": {
        "statement": "Scenario.C01_isolation: in every trace of the plan of every registration sequence, two systems open at the same time have non-conflicting declarations",
        "engines": [plan("plan,flat,funnel,batch,manyres"), trace("flat,base,batch,funnel"), plan_nopar("plan,funnel,batch"), plan_release("plan,funnel,batch"),
                    # "a system that fetches only what it declared": the provided system-data types declare what they borrow
                    {"engine": "sysdata", "args": {}, "quick": {"exhaust-upto": 6, "samples": 12, "pre-samples": 6}, "thorough": {"exhaust-upto": 8, "samples": 100, "pre-samples": 30}}],
        "also": {"C06": ["reads()", "writes()", "borrows"]},
        "aspects": TRACE,
        "assumptions": [RAYON, CELL],
    },
    "C02": {
        "statement": "Scenario.C02_dependencies: D A precedes F B in every trace whenever B was registered with A among its dependencies; C02_transitive; C02_names_never_repointed(_run): a name that resolves to an id keeps resolving to it whatever is registered later (unnamed systems, placeholder spellings, rejected registrations)",
        "engines": [plan("deps,plan,batch,funnel"), trace("deps,base", quick=40, **{"long-holds": True}), plan_nopar("deps,plan"), plan_release("deps,plan,barriers")],
        "aspects": TRACE,
        "assumptions": [RAYON],
    },
    "C03": {
        "statement": "Scenario.C03_barriers",
        "engines": [plan("barriers,plan,batch"), trace("barriers,batch", quick=40), plan_nopar("barriers,batch"), plan_release("barriers,deps,batch")],
        "aspects": TRACE,
        "assumptions": [RAYON],
    },
    "C04": {
        "statement": "Scenario.C04_exactly_once",
        "engines": [plan("funnel,plan,batch,tl"), trace("funnel,batch,tl,base,wide", quick=60, **{"partial-modes": True}),
                    # without the `parallel` feature (`dispatch` is `dispatch_seq` + thread-local systems there)
                    trace("base,tl,batch", quick=25, thorough=600, nopar=True),
                    # histories with a caught panic between the dispatches
                    trace("flat,batch", quick=20, thorough=600, panics=True), plan_nopar("plan,batch,tl"),
                    # the asynchronous dispatcher: every ordinary system once per dispatch, every thread-local one once per wait
                    {"engine": "asyncd", "args": {}, "quick": {"cases": 300}, "thorough": {"cases": 6000}}],
        "also": {"C15": ["run-count", "tl-count"]},
        "aspects": TRACE,
        "assumptions": [RAYON],
    },
    "C06": {
        "statement": "Shred.SysData: fetch_borrows_exactly / fetch_write_excl / fetch_read_shared / fetch_nothing_else (a fetched value holds, as a multiset, one shared guard per present resource occurrence in reads(), one exclusive per occurrence in writes(), nothing else), fetch_fail_iff / fetch_panic_sound / fetch_fail_releases, drop_releases, reads_concat / writes_concat / setup_comp / fetch_comp (tuples and derived structs concatenate / compose their members in order), setup_preserves / setup_creates / setup_then_fetch - for every SD tree (Read/Write with any handler, Option forms, (), PhantomData, tuples, derived structs, nested)",
        "engines": [{"engine": "sysdata", "args": {},
                     "quick": {"exhaust-upto": 8, "samples": 24, "pre-samples": 12},
                     "thorough": {"exhaust-upto": 12, "samples": 1200, "pre-samples": 600},
                     "search": {"exhaust-upto": 10, "samples": 200, "pre-samples": 100}}],
        "aspects": ["*"],
        "assumptions": [CELL, TYPES,
                        "parametricity: a generic tuple impl cannot treat a member differently according to its concrete type (so one tuple per arity and position pattern stands for all member types)",
                        "the correspondence covers the 230 registered types (harness/src/engines/sysdata.rs), 32 resource types and four user setup handlers; the theorems cover every SD tree and every handler environment"],
    },
    "C05": {
        "statement": "Scenario.C05_schedule_independence: every trace of the parallel plan has the effect of the sequential trace, given that events of non-conflicting systems commute",
        "engines": [trace("flat,base,batch,tl,funnel", quick=100, rounds=4), trace("flat,base,batch", quick=30, nopar=True),
                    # what may run in parallel is decided by the plan: layouts against the model's, where groups have several members
                    plan("funnel,plan", quick=500),
                    # the hypothesis "depends only on the resources it declared" rests on the provided system-data types declaring what they borrow
                    {"engine": "sysdata", "args": {}, "quick": {"exhaust-upto": 6, "samples": 12, "pre-samples": 6}, "thorough": {"exhaust-upto": 8, "samples": 100, "pre-samples": 30}},
                    # the asynchronous way of dispatching in parallel: after dispatch + wait (with running() / world() polled in between)
                    # every ordinary and every thread-local system has run exactly as often as sequential dispatches would have run it
                    {"engine": "asyncd", "args": {}, "quick": {"cases": 150, "hist": 1}, "thorough": {"cases": 3000, "hist": 2}}],
        "also": {"C06": ["reads()", "writes()", "borrows"], "C15": ["tl-count", "run-count", "each-once"]},
        "aspects": TRACE + ["effects"],
        "assumptions": [RAYON, CELL, "the harness systems' update function (sys.rs::mix / Model/Effect.lean::mix) stands for 'behaviour that depends only on own state and declared resources'"],
    },
    "C07": {
        "statement": "C07_batch_reads/_writes (the batch accessor is exactly controller ∪ inner), C07_conflict_lifts, C07_nested_wf, C07_nested_isolation/_exactly_once/_order/_tl_last/_inner_order, C07_inner_dispatches_in_order (everything of inner dispatch i has dropped its data before anything of inner dispatch j > i fetches)",
        "engines": [plan("batch,plan,funnel"), trace("batch,kf1", quick=80), plan_nopar("batch"),
                    # what the controller and the inner systems declare is what the union is made of
                    {"engine": "sysdata", "args": {}, "quick": {"exhaust-upto": 6, "samples": 12, "pre-samples": 6}, "thorough": {"exhaust-upto": 8, "samples": 100, "pre-samples": 30}}],
        "also": {"C06": ["reads()", "writes()", "borrows"]},
        "aspects": TRACE,
        "assumptions": [RAYON, CELL],
    },
    "C10": {
        "statement": "C10_skipped_stage_justified (+ simulation by the five-table builder)",
        "engines": [plan("plan,deps,barriers,funnel,manyres,kf1,wide,malformed", quick=1000), plan_nopar("plan,deps,barriers,funnel"), plan_release("plan,deps,barriers,funnel")],
        "aspects": ["layout", "outcome", "maxthreads"],
        "assumptions": [],
    },
    "C11": {
        "statement": "on the pool model (an assumption about rayon): C11_rendezvous_progress / _all_inside_together / _steps_decrease / _needs_n, C11_poolCompletes_iff (the executable prediction is exact), C11_busy_workers; on the model of the pool slots of builder.rs: C11_default_pool_size / _default_pool_rendezvous (without add_pool every dispatcher - top level, batches, nested batches - runs on a pool of rayon's default size, whatever the widths of the dispatcher that created it), C11_user_pool / _user_pool_rendezvous (a supplied pool, given before or after the batches, serves the top level and its batches), C11_nested_batch_pool_witness (a batch inside a batch runs on a default pool even under a user-supplied one); on the model of async_dispatcher.rs over sequences of dispatch / wait / wait_without_tl / world / running calls: C11_async_one_job (a second dispatch is spawned only after the caller has taken the systems back), C11_async_whole_pool / _every_dispatch (no dispatch ever shares the pool with another unfinished job of the dispatcher), C11_async_sequence / _sequence_rendezvous (the prediction for every dispatch of a sequence is that of a single dispatch: a stage of n groups meets iff n <= pool size)",
        "engines": [{"engine": "rendezvous", "args": {},
                     "quick": {"reps": 5, "cases": 150, "gen-reps": 3, "envs": "2,3,4,6,8", "seq-cases": 40, "seq-reps": 1},
                     "thorough": {"reps": 40, "cases": 3000, "gen-reps": 8, "envs": "2,3,4,5,6,8,12,16", "negative-pct": 2, "seq-cases": 800, "seq-reps": 2}}],
        "aspects": ["pool", "layout", "outcome"],
        "assumptions": ["PARTIAL: the pool model (idle workers take any unstarted group; a blocked system keeps its worker) is an assumption about rayon 1.12, not derived from its source; the tie is (1) the complete enumeration of widths 2..16 x pool sizes x modes and (2) generated plans (hints, group sizes, several stages, batches, nested batches, default pool in child processes with a chosen RAYON_NUM_THREADS, user pools given early / late / to batch builders, build / build_async, three entry points, three kinds of caller) with real rendezvous runs on the stages of the implementation's own plan and (3) generated call sequences on an async dispatcher (two to four dispatch() calls back to back or separated by wait / wait_without_tl / running / world; a slow first stage so that whatever was queued on the pool has been picked up when the wide stage starts; pool size equal to the stage width or larger; default and user pools)",
                        "the async dispatcher's methods are called from a thread that is not a worker of the dispatcher's pool (a caller on the pool would itself hold a worker while dispatch() / wait() block)",
                        "a waiting system is never placed behind a batch of its own group: a worker that waits for a batch's inner stage runs other pending jobs of the outer stage on top of its stack (rayon's join), so a sibling's waiter can block above the continuation that holds this group's later systems - rayon's nested blocking, not covered by the property's hypothesis (nothing else occupies the pool)"],
    },
    "C12": {
        "statement": "Scenario.C12_thread_local_last (order part); thread placement by the trace model",
        "engines": [plan("tl,plan,kf1"), trace("tl,base,kf1", quick=60), trace("tl,base", quick=25, thorough=600, nopar=True),
                    # the async dispatcher: thread-local systems run inside `wait`, on the caller, once per wait, in
                    # registration order, only for a dispatch that ran to completion (hist = 1: every entry point in
                    # every job state incl. after a panic of an ordinary system; a panic of a thread-local system
                    # inside wait, followed by further waits)
                    {"engine": "asyncd", "args": {}, "quick": {"cases": 300, "hist": 1}, "thorough": {"cases": 10000, "hist": 2}}],
        "also": {"C15": ["tl-count", "tl-order", "tl-outside-wait", "tl-thread", "tl-before-finish"]},
        "aspects": TRACE,
        "probes": [{"dir": "probes/not_send", "expect": "fail", "grep": "cannot be sent between threads safely", "why": "Dispatcher must not be Send (it may hold thread-local systems)"},
                   {"dir": "probes/send_ok", "expect": "compile", "why": "SendDispatcher must be Send"},
                   {"dir": "probes/staged_requires_send", "expect": "fail", "grep": "error[E0277]", "single": True, "why": "a system that is not Send must not be accepted as a staged system (it would run on a pool worker)"},
                   {"dir": "probes/thread_local_not_send_ok", "expect": "compile", "why": "control: the same system is accepted as a thread-local system"}],
        "assumptions": [RAYON, "pool.install runs its closure on a pool worker when called from outside the pool"],
    },
    "C13": {
        "statement": "C13_setup_reaches / C13_dispose_reaches / C13_dispose_matches_setup (fan-out, any nesting depth), Scenario.C13_setup_dispose_once, C13_setup_preserves / _creates / _creates_only / _idempotent",
        "engines": [{"engine": "lifecycle", "args": {}, "quick": {"cases": 200}, "thorough": {"cases": 20000}, "search": {"cases": 5000}},
                    # setup of every provided / derived system-data type: the [setup] oracle of the sysdata engine
                    {"engine": "sysdata", "args": {}, "quick": {"exhaust-upto": 6, "samples": 20, "pre-samples": 10}, "thorough": {"exhaust-upto": 8, "samples": 200, "pre-samples": 50}},
                    # AsyncDispatcher::setup in every job state (idle / a system inside run / job not started / finished
                    # unobserved), repeated, with the default-provided resources removed / replaced through world_mut()
                    # in between: hook of every ordinary and thread-local system exactly once, resources created, existing
                    # ones untouched
                    {"engine": "asyncd", "args": {}, "quick": {"cases": 100, "hist": 1}, "thorough": {"cases": 3000, "hist": 2}},
                    # systems that are leaves of a ParSeq (itself a system of a dispatcher, or set up directly): every setup call reaches every leaf's own hook
                    {"engine": "parseq", "args": {}, "quick": {"cases": 150, "runs": 2, "reps": 1, "max-leaves": 12, "hold-us": 50, "max-setups": 4}, "thorough": {"cases": 3000, "runs": 3, "reps": 1, "max-leaves": 30, "hold-us": 50, "max-setups": 5}}],
        "also": {"C06": ["[setup]"], "C15": ["setup-hooks", "setup-resource", "setup-overwrite"], "C16": ["setup"]},
        "aspects": ["lifecycle", "outcome", "setup"],
        "assumptions": ["the world part of the theorems covers the controller data types the harness uses; every system-data type is C06's subject"],
    },
    "C14": {
        "statement": "for every log accepted by the driver's panic-aware acceptor (PR.run): C14_panic_reported_iff, C14_dependents_dont_run, C14_at_most_once, C14_nothing_left_open; plus the declarative PTraces semantics (C14_panicked_iff, C14_payload_source)",
        "engines": [trace("flat,base,batch,tl,flat", quick=60, panics=True), trace("tlbatch", quick=30, thorough=1000, panics=True),
                    # a system whose fetch fails half-way (a later member is refused): what the earlier members took is given back
                    {"engine": "sysdata", "args": {}, "quick": {"exhaust-upto": 5, "samples": 10, "pre-samples": 6}, "thorough": {"exhaust-upto": 8, "samples": 100, "pre-samples": 30}},
                    {"engine": "parseq", "args": {}, "quick": {"cases": 0}, "thorough": {"cases": 0}}],
                    # hand-written par / seq trees: both children of a par node panic in one dispatch (the static trees of the parseq engine only)
        "also": {"C06": ["[unwind]", "[release]"], "C16": ["par-panics"]},
        "aspects": TRACE,
        "assumptions": [RAYON, "rayon re-raises a job's panic in the caller of install after the stage's started jobs finished; unwinding drops guards; RwLock read locks do not poison"],
    },
    "C18": {
        "statement": "add_panics_iff / add_ok / resolve_error_iff",
        "engines": [plan("malformed,funnel,plan,funnel,tlbatch", quick=400, **{"max-n": 40}), plan_nopar("malformed,plan"), plan_release("malformed,plan,funnel")],
        "aspects": ["outcome", "query"],
        "assumptions": ["panic payloads are compared as text (quoted name)"],
    },
    "C19": {
        "statement": "C19_layout_invariant (relabelled / permuted / duplicated declarations give identical executed and printed tables, for every registration sequence), C19_names_irrelevant, C19_insert_invariant, C19_ids_and_tags_irrelevant, C19_rejected_add_frame (a rejected registration leaves nothing behind but a used-up id)",
        "engines": [{"engine": "invariance", "args": {"dump-layouts": "/verif/evidence/.C19.layouts"}, "quick": {"cases": 300}, "thorough": {"cases": 6000, "process-every": 25}},
                    {"engine": "invariance", "args": {"process-every": 0, "compare-layouts": "/verif/evidence/.C19.layouts"}, "quick": {"cases": 300}, "thorough": {"cases": 6000}, "nopar": True},
                    plan("plan,batch", quick=150),
                    # thorough tier: the release-profile build must lay every sequence out like the dev-profile build did
                    {"engine": "invariance", "args": {"process-every": 0, "compare-layouts": "/verif/evidence/.C19.layouts"}, "thorough": {"cases": 6000}, "profile": "release", "tiers": ["thorough"]},
                    plan_release("plan,deps,barriers,batch"),
                    # a built dispatcher keeps its plan: after dispatches on pools of every size the same systems sit at the same places
                    trace("wide,funnel,batch", quick=40, thorough=800),
                    # the declared sets the plan is computed from do not depend on how members are listed or nested
                    {"engine": "sysdata", "args": {}, "quick": {"exhaust-upto": 6, "samples": 12, "pre-samples": 6}, "thorough": {"exhaust-upto": 8, "samples": 100, "pre-samples": 30}}],
        "also": {"C06": ["reads()", "writes()"]},
        "aspects": ["layout", "outcome", "debug"],
        "assumptions": ["ahash's per-process random state is what varies between processes"],
    },
    "C20": {
        "statement": "Scenario.C20_printed_is_executed + byte-for-byte Debug text",
        "engines": [plan("malformed,plan,batch"), plan_nopar("malformed,plan,batch"), plan_release("malformed,plan,batch")],
        "aspects": ["debug", "layout", "outcome"],
        "assumptions": [],
    },
    "C15": {
        "statement": "Async.accessor_quiescent / dispatch_quiescent / running_true_while_open / running_false_only_done / no_overtake / tl_only_in_wait / wait_runs_tl / each_once / each_at_most_once / quiet_quiescent / quiet_stutters / blocked_only_while_running / job_panic_no_return / job_panic_no_tl / job_panic_no_hook / job_panic_no_quiet / job_panic_no_next_dispatch / dead_every_call_unwinds / unwound_cases / tl_panic_keeps_dispatcher / setup_reaches / hook_only_in_setup / chain_each_stage_once (plans of any number of stages) over every run (all interleavings of caller steps — every public method incl. res / mut_res, in every order —, background-job steps and the environment's look at the systems' own completion signal) of the transition system of Model/Async.lean; acceptsLog_sound transfers them to every merged log the driver accepts",
        # hist = n: every sequence of n steps (11 entry points x {idle, held, queued, settled, panicked, panicking}); 66^n histories,
        # each on one of 10 plans (two long ones: 9 and 12 stages) in one of 3 calling contexts (the dispatcher is driven by a
        # plain thread / a worker of its own pool / a worker of another pool); hist = 1: every step x plan x context.
        # 22 % of the random cases have plans of 8-20 stages; every random case has a random calling context
        "engines": [{"engine": "asyncd", "args": {}, "quick": {"cases": 600, "hist": 2}, "thorough": {"cases": 20000, "hist": 3, "hist-stride": 6},
                     "search": {"cases": 6000, "hist": 2}}],
        "aspects": ["*"],
        "assumptions": [
            "std::sync::mpsc: recv returns only after send; try_recv never invents a message (modelled as a one-slot mailbox, not verified)",
            "rayon ThreadPool::spawn runs the closure once on a pool thread; a panic inside it unwinds the closure (dropping its captures, the sender among them) and then calls the pool's panic_handler — the harness pools have one; without a handler rayon aborts the process (outside the model); for_each re-raises a group's panic only after every group that has started has ended",
            "the job's stage loop produces exactly the traces of the stages task of the model's layout (C01-C04 correspondence)",
            "the calling context is not a parameter of the model: ThreadPool::spawn only queues (on the calling worker's own deque when the caller is a worker of that pool, where another worker steals it), std::sync::mpsc recv / try_recv park or poll the calling thread without running pool jobs, ThreadPool::install runs its closure on a worker of that pool; with the caller on the dispatcher's own pool the job needs a second worker to be scheduled (a one-thread pool driven from its own worker is not generated: a blocking call after a dispatch cannot return there on the unchanged crate)",
            "one SeqCst-ordered log: F is logged before the first borrow and D after the last release, ret after the call returned",
            "a call is reported as stuck (MODEL:async-progress) only after the calling thread has been seen parked inside it at every sample over 5 s while no system is inside run, nothing is held by the harness and every pool worker is parked (Linux /proc thread states; without them no such report is made)",
        ],
    },
    "C16": {
        "statement": "PS.run_once, PS.seq_order(_nested) / PS.seqOf_order, PS.par_may_overlap, PS.reads_union / PS.writes_union (+ PS.leaf_reports_own_accessor / PS.node_reports_own_accessors: the accessor the leaf system hands out, not its accessor type's default), PS.setup_reaches / PS.every_setup_reaches (every call of any history of setup calls, through either entry point, on any world), PS.with_check_iff / PS.with_check_own_accessors / PS.parOf_spec (+ PS.built_isolated, PS.acceptor_exact): for every Par/Seq tree, every declaration of its leaves and every interleaving",
        "engines": [{"engine": "parseq", "args": {},
                     "quick": {"cases": 700, "runs": 3, "reps": 2, "max-leaves": 20, "hold-us": 150, "max-setups": 4},
                     "thorough": {"cases": 12000, "runs": 4, "reps": 2, "max-leaves": 40, "hold-us": 250, "max-setups": 5, "small-scope": True},
                     "search": {"cases": 20000, "runs": 3, "reps": 2, "max-setups": 4, "small-scope": True}}],
        "aspects": ["*"],
        "theorems_hint": ["PS.run_once", "PS.seq_order", "PS.seq_order_nested", "PS.seqOf_order", "PS.par_may_overlap", "PS.reads_union", "PS.writes_union", "PS.leaf_reports_own_accessor", "PS.node_reports_own_accessors", "PS.setup_reaches", "PS.every_setup_reaches", "PS.with_check_iff", "PS.with_check_own_accessors", "PS.parOf_spec", "PS.built_isolated", "PS.build_is_recursive", "PS.acceptor_exact"],
        "assumptions": [
            "rayon 1.12: join / ThreadPool::join / install run both closures to completion before returning, on any worker (modelled as all shuffles of the two sides, not verified)",
            CELL,
            "leaf systems are told apart by pairwise distinct tags (the harness numbers them); `Nil` contributes no observable event",
            "debug assertions are on in the build under test (the harness's dev profile sets debug-assertions = true, also for the shred dependency)",
            "leaves: System::accessor overridden with a dynamic accessor whose type has no default / has an empty default, or static Read / Write / Option<Read> data with nothing (or only System::setup) overridden; a leaf with neither an own accessor nor a default panics in System::accessor and is excluded (PS.Usable). What a leaf's setup creates (DefaultProvider of Read / Write; the harness's dynamic data insert what they declare) is user code and a parameter of the model",
        ],
    },
    "C17": {
        "statement": "Meta.C17_inv (MetaInv after every register history) + C17_tys_first_registration + C17_get_spec / C17_get_some_iff / C17_get_some_same_address (any cast, any implementor) / C17_bad_cast_panics_get / C17_check_at_every_use (nothing is checked at registration, every use checks) + C17_next_spec / C17_next_item_same_address / C17_next_conflict_panics / C17_bad_cast_panics_next + C17_iter_spec / C17_iter_spec_any_vtable / C17_iter_once_each + the provided Iterator methods defined from next: C17_nth_spec (nth(n) = the n-th registered-and-present type from the cursor) / C17_nth_conflict_panics / C17_collect_via_spec with C17_skip_spec, C17_take_spec, C17_step_by_spec / C17_last_spec / C17_count_spec / C17_size_hint_valid (stable, non-nightly meta.rs)",
        "engines": [{"engine": "meta", "args": {},
                     "quick": {"cases": 4000},
                     "thorough": {"cases": 50000, "small-scope": True, "long": True},
                     "search": {"cases": 60000, "small-scope": True}}],
        "aspects": ["*"],
        "assumptions": [
            CELL,
            "a vtable is identified with the concrete type it was built for; attach_vtable's pointer cast is modelled as `type tag of the stored function = type tag of the value => the cast is right` (unsafe pointer work itself is not verified; no Miri in this environment)",
            "`present` = present under dynamic id 0, the only key the iterators look up; only the stable (non-`nightly`) variant of meta.rs is modelled and exercised",
            "user code: <T as CastFrom<R>>::cast returns an arbitrary trait-object pointer: address and vtable are both universally quantified in the theorems (a lawful implementation returns the address it was given with R's vtable). The address check of attach_vtable compares addresses only, so 'methods of the concrete type' is proved for lawful casts (the # Safety contract of CastFrom) and 'same address' for every cast; an address-preserving cast that attaches another type's vtable (first field, another zero-sized type at the same dangling address) is accepted by the code and by the model alike",
            "the engine's implementors: zero-sized (align 1 / 64, with Drop, generic), sized 1 B - 4 KiB (align 1 packed .. 64, with Drop, generic), each kind with the lawful cast and with wrong casts (offset, other object of the same type, static, field at offset 0 / 8, object of another type, lawful-until-armed); what each cast does is declared in harness/src/engines/meta/types.rs and verified on the casts themselves at start-up; the harness is also built without debug assertions (profile nodebug), so a check demoted to debug_assert! is noticed; besides the forty types, histories over 257-320 const-generic implementors in one table (meta/many.rs)",
        ],
    },
}



def world(quick=1000, thorough=1500, nopar=False):
    return {"engine": "world", "args": {}, "nopar": nopar,
            "quick": {"cases": quick, "max-ops": 40, "conc-rounds": 4, "conc-threads": 6, "conc-ops": 2000},
            "thorough": {"cases": thorough, "max-ops": 400, "conc-rounds": 20, "conc-threads": 12, "conc-ops": 20000},
            "search": {"cases": 3000, "max-ops": 60, "conc-rounds": 8, "conc-threads": 8, "conc-ops": 5000}}


PROPS["C08"] = {
    "statement": "C08.every_history / step_preserves_inv (each cell is free, shared by exactly its n live shared guards, or exclusive with exactly one live guard, after every legal history — histories include closures that take guards and panic, and &mut calls that meet a panic of user code), C08.outcome_spec (None iff absent, borrow panic iff an incompatible guard is alive, a guard otherwise), C08.panic_frame (+ unwinding of composite fetches), C08.drop_exact, C08.scope_frame / scope_restores / unwind_eq_return (a closure that takes guards of any kind and returns, panics or is refused a fetch half-way leaves every cell and every outer guard as they were), C08.entry_guard_unwinds, C08.exec_closure_panics",
    "engines": [world(),
                # the build without the `parallel` feature (whatever differs under cfg(feature), e.g. the cell used)
                world(quick=300, thorough=600, nopar=True),
                # composite fetches (tuples up to 26 members, derived structs) that fail half-way release what they took
                {"engine": "sysdata", "args": {}, "quick": {"exhaust-upto": 6, "samples": 12, "pre-samples": 6}, "thorough": {"exhaust-upto": 8, "samples": 100, "pre-samples": 30}},
                # the borrow word itself: the transcription of atomic_refcell's four operations against the real cell, word for word
                {"engine": "cellword", "args": {}, "quick": {"cases": 400, "stress-rounds": 2}, "thorough": {"cases": 20000, "max-len": 80, "stress-rounds": 8, "stress-ops": 400000}},
                {"engine": "cellword", "args": {}, "quick": {"cases": 200}, "thorough": {"cases": 4000, "max-len": 80}, "nopar": True}],
    "also": {"C06": ["[unwind]", "[release]"]},
    "aspects": ["outcome", "state", "cellword"],
    # the compile-time half of "never an aliasing guard": what is handed out borrows from the guard / the world
    "probes": [{"dir": "probes/meta_ref_outlives_guard", "expect": "fail", "grep": "error[E0505]", "single": True, "why": "the trait object MetaTable::get returns must not outlive the guard it was derived from"},
               {"dir": "probes/meta_two_mut_refs", "expect": "fail", "grep": "error[E0499]", "single": True, "why": "MetaTable::get_mut must not hand out two live exclusive references from one guard"},
               {"dir": "probes/guard_outlives_world", "expect": "fail", "grep": "error[E0505]", "single": True, "why": "a guard must not outlive the world"},
               {"dir": "probes/entry_excludes_fetch", "expect": "fail", "grep": "error[E0502]", "single": True, "why": "no guard can be taken while an entry borrows the world exclusively"},
               {"dir": "probes/world_guards_ok", "expect": "compile", "why": "control: the same calls in a legal order compile"}],
    "assumptions": [CELL + "; each cell operation (try_borrow, try_borrow_mut, guard drop) is one atomic read-modify-write on the borrow word (Model/CellWord.lean transcribes atomic_refcell 0.1.14 l.196-319 by hand); C08.any_interleaving proves that every sequence of such steps - hence every interleaving of any number of threads - answers what the abstract borrow state answers; the transcription is compared with the real cell after every step of random sequential histories, answer and raw borrow word (engine cellword); assumed: single-location coherence of atomics (a many-thread history is a sequence of these steps), no refcount overflow; many-thread stress rounds check on the real cell that no two incompatible guards ever coexist", TYPES],
}
PROPS["C09"] = {
    "statement": "C09.refines_state / refines_out (every operation commutes with abs : World -> (ResId -> Option Token) and answers what the map answers), C09.typed_linear_invariant (type tag = key type; conservation of values), C09.mismatch_panics, C09.linear / dropped_exactly_once — all over histories that include values whose Drop panics and closures that panic; C09.insert_replaces_when_drop_panics, or_insert_occupied_drop_panics, or_insert_with_closure_panics, entry_stores_before_caller_panics, dropReturned_keeps_linear, dropWorld_panic_at_most_once (the interrupted drop of the world drops or leaks each value, never twice)",
    "engines": [world(), world(quick=300, thorough=600, nopar=True),
                # exec = setup + fetch for every provided system-data type and setup handler (also a second exec after remove_by_id)
                {"engine": "sysdata", "args": {}, "quick": {"exhaust-upto": 5, "samples": 8, "pre-samples": 4}, "thorough": {"exhaust-upto": 8, "samples": 100, "pre-samples": 30}}],
    # "presence queries and fetches agree": a fetch that answers None for a present resource
    "also": {"C08": ["None was returned although the resource is present"], "C06": ["World::exec"]},
    "aspects": ["outcome", "state", "ghost"],
    "assumptions": [TYPES, "the unchecked downcasts (Fetch::deref, get_mut, remove) are modelled as 'type tag equals key type => the cast is right'"],
}

# ---- the same engines on a build without debug assertions and overflow checks (harness profile `nodebug`:
# the dev profile with both switched off, for the crate under test as well): whatever sits inside
# debug_assert!(..) is not evaluated and arithmetic wraps, as in a release build. C16 is left out: the
# check of Par::with it is about exists only with debug assertions on.
import copy as _copy


def nodebug(spec, **quick):
    d = _copy.deepcopy(spec)
    d["profile"] = "nodebug"
    d["nopar"] = False
    d.pop("tiers", None)
    d.setdefault("quick", {}).update(quick)
    d.get("thorough", {}).pop("small-scope", None)
    return d


_SD = {"engine": "sysdata", "args": {}, "quick": {"exhaust-upto": 4, "samples": 6, "pre-samples": 3}, "thorough": {"exhaust-upto": 6, "samples": 30, "pre-samples": 10}}
# ---- scale: stages hundreds of groups wide, hundreds of effective barriers / stages, groups whose
# accumulated lists hold dozens of ids (index / counter / inline-buffer widths)
def scale(profiles, quick=24, thorough=1500, **kw):
    d = plan(profiles, quick=quick, thorough=thorough, **kw)
    d["thorough"].pop("small-scope", None)
    return d


def abyss(n=66000):
    """thorough tier only, release profile: one plan of n stages - beyond what the model can be run alongside
    (its executable lists make 8000 stages take minutes) - under the implementation-side oracles alone"""
    return {"engine": "plan", "args": {"profiles": "plan", "abyss": n}, "thorough": {"cases": 0}, "search": {"cases": 0},
            "profile": "release", "tiers": ["thorough"], "nopar": False}


def one_cpu(profiles, quick=40, thorough=600):
    """the plan engine confined to one processor (taskset -c 0), every builder without a pool of its own: the
    crate's default pool is sized from a machine that offers a single processor"""
    d = plan(profiles, quick=quick, thorough=thorough, **{"default-pool": True})
    d["thorough"].pop("small-scope", None)
    d["one_cpu"] = True
    return d


_SCALE = {
    "C01": [scale("vwide,fat,fat,fat", quick=48)],
    "C02": [scale("vwide,deep", quick=16), plan("phname", quick=300, thorough=6000), abyss()],
    "C03": [scale("deep", quick=14), abyss()],
    "C05": [scale("fat,vwide", quick=16), plan("joinbatch", quick=40, thorough=2000)],
    "C07": [scale("fat", quick=16), plan("joinbatch", quick=60, thorough=3000)],
    "C10": [scale("vwide,deep,fat", quick=30), plan("rejbar", quick=100, thorough=3000), abyss()],
    "C18": [scale("vwide,deep,fat", quick=24), plan("phname", quick=200, thorough=4000), one_cpu("plan,batch,tl")],
    "C19": [scale("vwide,fat", quick=16), plan("phname,rejbar", quick=300, thorough=6000)],
    "C20": [scale("vwide,deep", quick=10), plan("phname", quick=200, thorough=4000)],
}
for _k, _v in _SCALE.items():
    PROPS[_k]["engines"] = PROPS[_k]["engines"] + _v

_NODEBUG = {
    "C01": [nodebug(plan("plan,funnel,batch", quick=150, thorough=3000)), nodebug(trace("flat,batch,funnel", quick=20, thorough=300))],
    "C02": [nodebug(plan("deps,plan,barriers", quick=150, thorough=3000)), nodebug(trace("deps,base", quick=12, thorough=200, **{"long-holds": True}))],
    "C03": [nodebug(plan("barriers,deps,batch", quick=150, thorough=3000)), nodebug(trace("barriers,batch", quick=12, thorough=200))],
    "C04": [nodebug(trace("funnel,batch,tl,base", quick=25, thorough=400, **{"partial-modes": True})), nodebug({"engine": "asyncd", "args": {}, "quick": {"cases": 60}, "thorough": {"cases": 1000}})],
    "C05": [nodebug(trace("flat,base,batch,funnel", quick=25, thorough=300, rounds=4))],
    "C06": [nodebug(_SD)],
    "C07": [nodebug(plan("batch,plan,funnel", quick=150, thorough=3000)), nodebug(trace("batch", quick=15, thorough=200))],
    "C08": [nodebug(world(quick=250, thorough=600)), nodebug({"engine": "cellword", "args": {}, "quick": {"cases": 150}, "thorough": {"cases": 3000, "max-len": 80}})],
    "C09": [nodebug(world(quick=300, thorough=600))],
    "C10": [nodebug(plan("plan,deps,barriers,funnel", quick=200, thorough=4000))],
    "C12": [nodebug(trace("tl,base", quick=20, thorough=300)), nodebug({"engine": "asyncd", "args": {}, "quick": {"cases": 60, "hist": 1}, "thorough": {"cases": 1000, "hist": 1}})],
    "C13": [nodebug({"engine": "lifecycle", "args": {}, "quick": {"cases": 60}, "thorough": {"cases": 2000}}), nodebug({"engine": "asyncd", "args": {}, "quick": {"cases": 40, "hist": 1}, "thorough": {"cases": 600, "hist": 1}})],
    "C14": [nodebug(trace("flat,base,batch,tl", quick=15, thorough=300, panics=True))],
    "C15": [nodebug({"engine": "asyncd", "args": {}, "quick": {"cases": 150, "hist": 1}, "thorough": {"cases": 3000, "hist": 2}})],
    "C17": [nodebug({"engine": "meta", "args": {}, "quick": {"cases": 800}, "thorough": {"cases": 8000}})],
    "C18": [nodebug(plan("malformed,plan,funnel", quick=150, thorough=3000, **{"max-n": 40}))],
    "C19": [nodebug(plan("plan,funnel", quick=150, thorough=3000))],
    "C20": [nodebug(plan("malformed,plan,batch", quick=150, thorough=3000))],
}
for _k, _v in _NODEBUG.items():
    PROPS[_k]["engines"] = PROPS[_k]["engines"] + _v


TEXT = {
    "C01": "Proof: for every registration sequence (and, via Level, every dispatcher with batches nested to any depth) and every trace of its plan - every interleaving - two systems inside their windows at the same time have non-conflicting declarations; corollary C01_no_sibling_borrow_conflict (no sibling holds an incompatible guard when a system fetches). Tied to /repo by exact layout comparison (plan engine) and by feeding every recorded event log of real dispatches (pools 1-16, forced overlap) to the proved acceptor; implementation-side oracles give the failing input. PARTIAL for inputs of the open finding KF1 (thread-local systems inside a batch).",
    "C02": "Proof: D A precedes F B in every trace whenever B was registered with A as a dependency (also transitively, also for sequential dispatch, also inside batches), for every registration sequence. Tied to /repo by layout comparison and by real dispatches in which dependencies are held inside run.",
    "C03": "Proof: every system registered before a barrier finishes before any registered after it starts, in every trace; a repeated / leading / no-op barrier leaves the builder unchanged (definitional equalities). Tied by barrier-heavy layouts and traces.",
    "C04": "Proof: every registered and thread-local system fetches and drops exactly once in every trace, k dispatches k times, partial dispatch calls run exactly their part, instances inside batches once per inner dispatch. Tied by run counters over sequences of dispatch / dispatch_seq / dispatch_par / dispatch_thread_local calls, the MultiDispatcher counting run, and the acceptor.",
    "C05": "Proof: every trace of the parallel plan has the effect of the unique sequential trace, provided events of non-conflicting systems commute - which is proved for the harness's order-sensitive systems (C05_harness_commutes); repetition by induction. Tied by comparing real parallel dispatches with a sequentially dispatched twin and with the model's evaluation, with and without the parallel feature.",
    "C06": "Proof by structural induction over the system-data type tree: fetch borrows exactly the reported present resources (multisets), fails iff a required resource is absent or a borrow conflicts and then releases everything, drop releases, reads/writes/setup are concatenation/composition over members. Tied by 229 real Rust types (all tuple arities 1-26, all member kinds at all positions, nestings, derived structs incl. member-generic ones) x presence patterns. Assumes parametricity of the generic tuple impls.",
    "C07": "Proof: the accessor add_batch computes is exactly controller data + inner declarations; conflicts lift; Level/BodyOK compose so that isolation, order and exactly-once hold for dispatchers with batches nested to any depth, for the tagged builder the driver runs. Tied by batch-heavy layouts and traces. PARTIAL for KF1 inputs.",
    "C08": "Proof: the borrow invariant (free / n shared guards / one exclusive guard) is preserved by every operation over every legal history; outcome_spec, panic_frame, drop_exact; scope_frame: a closure under catch_unwind that takes guards of any kind (typed, by-id, tuple fields, meta-iterator items, clones) and returns, panics, or is refused a fetch after partial acquisition gives back exactly what it took (unwinding = return); entry / exec callers that panic holding the guard. Tied by random histories incl. such closures (also while outer guards on the same resources are alive) with a probe of every cell - state and exact shared count - after every operation; threads that panic while holding guards in the many-thread part. The many-thread clause: the four word-level operations of atomic_refcell are transcribed (Model/CellWord.lean) and proved to refine the abstract borrow state over every sequence of atomic steps (any_interleaving); The transcription is tied to the real cell word for word (answers and the raw borrow word after every step of sequential histories); PARTIAL in that 'a concurrent history is a sequence of these atomic steps' is the memory model's guarantee, not something proved here.",
    "C09": "Proof: refinement of the world to a map ResId -> token (every operation commutes with the abstraction and answers what the map answers), type-tag invariant, mismatch panics leave the world unchanged, value accounting (each token in exactly one of world / returned / dropped) - also when the Drop of a value panics where the world drops it (insert replacing: the new value is in place first; or_insert on an occupied slot; the caller dropping a removed value; the world's own drop, which may leak but never drops twice) and when or_insert_with's closure or the caller holding the entry guard panics. Tied by random histories incl. mismatching type arguments with drop counters and a one-shot panicking Drop armed at each of those places, the accounting checked from the drop log before any stored value is looked at again.",
    "C10": "Proof: every stage the code's insertion_target skips is justified by a conflicting earlier system or a dependency at/behind it (on the five tables of the code, for every registration sequence, after repair D3); compatible dependency-free systems share one stage; max_threads is the widest stage. Tied by exact layout comparison and max_threads().",
    "C11": "Proof about a pool MODEL (assumption about rayon): with >= n idle workers n rendezvous systems always meet and never deadlock; with fewer they do deadlock (the executable prediction is exact); plus a model of builder.rs's pool slots: which pool every dispatcher (top level, batch, nested batch) runs on - the default pool has rayon's default size whatever dispatcher created it, a supplied pool serves the top level and its batches. PARTIAL by nature: the tie is the complete enumeration of widths 2-16 x pool sizes x {user pool, default pool, batch-inner, async, foreign caller} and generated plans x configurations (hints, group sizes, multi-stage, nested batches, default pool sized by the harness in child processes, pools given early / late / to batch builders, build / build_async) with real rendezvous runs on the stages of the implementation's own plan, which must equal the model's plan; plus a model of the async dispatcher over call sequences (the caller, never a pool thread, waits for the previous dispatch; every dispatch has the whole pool), tied by generated sequences of dispatch / wait / wait_without_tl / running / world with the wide stage behind a slow first stage.",
    "C12": "Proof: thread-local systems start after all staged systems, run in registration order, are assigned the caller's thread by the thread table the driver compares every event with; sendable iff no thread-local systems; KF1 is proved as a witness (C12_kf1_witness). Tied by traces with thread kinds, try_into_sendable, compile probes (Dispatcher !Send), the async dispatcher's wait (every entry point in every job state, panics of ordinary systems inside the job and of thread-local systems inside wait). PARTIAL: open finding KF1.",
    "C13": "Proof: setup / dispose reach exactly the systems of the layout, batches expanded, at any depth (dispose = setup after repair D2); setup never changes an existing resource, creates exactly the default-provided ones, is idempotent. Tied by hook counters, world diffs on pre-populated worlds, the setup oracle over every system-data type, and AsyncDispatcher::setup called in every job state with resources removed in between.",
    "C14": "Proof about every log the driver's panic-aware acceptor accepts: a panic is reported iff a system was unwound, nothing ordered after an unwound system starts, nothing starts twice, every opened window is closed; the acceptor accepts every declaratively legal execution. Tied by injecting a panic into every placed system in turn (run / fetch), payload, borrow probe, clean re-dispatch. PARTIAL: rayon's re-raise and unwinding are assumed; rayon may leave out unstarted siblings (modelled).",
    "C15": "Proof over all interleavings of caller and background-job steps of the async state machine: accessor quiescence, running() truthfulness, no overtaking, thread-local systems only inside wait on the caller, each dispatch once; a dispatch in which a system panicked is never reported complete (every later call unwinds, no thread-local system starts), a thread-local panic inside wait leaves the dispatcher and its thread-local list intact, setup joins the dispatch and reaches every system in every job state; accepted logs are runs. Tied by gated real runs with panics injected at every position (pools with a panic handler). PARTIAL: mpsc and rayon spawn are modelled.",
    "C16": "Proof: every leaf once, seq order, par may overlap, reads/writes = concatenation over the leaves' own accessors (not their accessor types' defaults), every setup call of any history reaches every leaf and only extends the world, Par::with's debug check fails iff a leaf-level conflict exists; trees that pass the checks are isolated. Tied by run-time assembled real Par/Seq trees (depth <= 5, fan-out <= 6; explicit calls and par!/seq!), leaves of four accessor flavours, reads()/writes() of every node, scripts of setup calls (same / fresh world, after removal, both entry points) each followed by dispatches, pools held by reference and by Arc, traces, debug-assertion panics.",
    "C17": "Proof: the table invariant under any register history, get/get_mut specification, one next step and whole iteration (first-registration order, once each, exactly the registered present types, shared vs exclusive borrows), bad casts panic at every use whatever the implementor (registration checks nothing), a returned reference always has the resource's address. Tied by forty implementing types (zero-sized / sized / Drop / aligned / generic, each with the lawful CastFrom and wrong ones of six shapes), tables for a plain trait and for a trait with supertraits, all presence subsets, exhaustive small scopes; both iterators are also driven through the provided Iterator methods (nth, skip, step_by, take, last, count, fold, for_each, collect, size_hint, zip, by_ref then next) and must give what the next-sequence gives.",
    "C18": "Proof: add panics iff a dependency is unknown (first such) or a non-empty name is taken; every other registration succeeds; group size <= 4 < 5, running times <= 20, targets in bounds, for every registration sequence and every builder state reachable through accepted and rejected calls. Tied by a malformed stream at every position and deep funnels.",
    "C19": "Proof: relabelled resources, permuted / duplicated declared lists, renamed systems, renumbered ids and re-tagged systems give identical tables for every registration sequence. Tied by transformed twins, a second process, and case-by-case comparison of the builds with and without the parallel feature.",
    "C20": "Proof: the printed table is the executed table (lock-step), each registered system once, the text is the rendering of the name tree, the name choice is total (placeholder for unnamed systems, after repair D1). Tied by byte-for-byte comparison of the real Debug text with the model's and with the real executed layout.",
}

_PENDING = "check under construction in this round (model and engine designed in DESIGN.md §5; not yet registered)"
NOT_APPLICABLE = [{"property_id": p, "reason": _PENDING} for p in
                  ["C05", "C06", "C07", "C08", "C09", "C11", "C12", "C13", "C14", "C15", "C16", "C17", "C19"] if p not in PROPS]
