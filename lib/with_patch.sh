#!/bin/bash
# with_patch.sh <patch.diff> <command...> : apply the patch to /repo, run the command in /verif, undo the patch
p=$(readlink -f "$1"); shift
git -C /repo status --porcelain --untracked-files=no | grep -q . && { echo "/repo not clean"; exit 3; }
git -C /repo apply "$p" || exit 3
cd /verif
"$@"
rc=$?
git -C /repo checkout -- .
git -C /repo clean -fdq -- src shred-derive tests examples benches
exit $rc
