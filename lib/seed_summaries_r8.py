import json, os
S = {
"C01-r8-1": ("with_batch no longer delegates to add_batch: it builds the batch with empty controller reads / writes", "a batch registered with with_batch whose controller declares data no sub-system uses, and a conflicting sibling"),
"C04-r8-1": ("dispatch_thread_local records the first thread it ran on and returns at once on any other", "a thread-local system inside a batch whose controller lands on different pool workers in different dispatches"),
"C04-r8-2": ("MultiDispatcher::run splits the plan into 16-bit rounds of u16::MAX iterations each", "a plan of 65536 or more"),
"C05-r8-1": ("AsyncDispatcher::wait returns early when no job is in flight, which running() / world() also bring about", "dispatch, then running() or world(), then wait: the thread-local systems of that dispatch never run"),
"C06-r8-1": ("World::exec sets a type up only the first time it sees its type name; remove clears the memo, remove_by_id does not", "exec, remove_by_id of a created resource, exec again"),
"C08-r8-1": ("Option<Write<T>> fetches with try_borrow_mut().ok(): None instead of a panic on a borrowed resource", "Option<Write<T>> fetched while another guard of T is alive"),
"C09-r8-1": ("World::exec skips setup when every declared id is present", "system data whose setup does more than create its declared ids (a handler that overwrites)"),
"C09-r8-2": ("insert_by_id drops the old value before it stores the new one", "a replaced value whose Drop panics: the slot is empty afterwards"),
"C12-r8-1": ("a dispatcher remembers the thread that built it; dispatch_thread_local does nothing on another thread", "thread-local systems of a batch under a parallel outer dispatch"),
"C13-r8-1": ("the provided System::setup prefers Accessor::try_new() over the system's own accessor()", "a system with a per-instance accessor whose type also has a blank default, relying on the provided setup"),
"C14-r8-1": ("Par::run on a worker of a one-thread pool runs the tail from a Drop guard instead of rayon::join", "both children of a par node panic in one dispatch issued from a worker of a one-thread pool: abort"),
"C16-r8-1": ("Par::with switches to a HashSet of the earlier children's writes once they declare 16 ids: a new writer of something read is accepted", "earlier children declaring 16 or more ids, one of them reading what a later child writes"),
"C18-r8-1": ("names longer than 48 characters are cut to 45 + ... in the two panic messages of add", "an ill-formed call whose offending name is longer than 48 characters"),
"C20-r8-1": ("add_batch returns early for a sub-builder whose is_empty() (name map) and thread-local list are empty", "a batch whose sub-systems are all unnamed"),
"C20-r8-2": ("the sanitiser replaces every Unicode whitespace character", "a name containing a tab, a no-break space, ..."),
}
if __name__ == "__main__":
    for sid,(what,needs) in sorted(S.items()):
        f=os.path.join('/verif/seeded',sid,'meta.json')
        if not os.path.exists(f): print("missing", sid); continue
        m=json.load(open(f))
        m['breaks']=m['property']; m['change']=what; m['needs_to_manifest']=needs
        m['source']=m.get('source','').replace('/tmp/vwork2','/verif')
        json.dump(m,open(f,'w'),indent=1)
    print(len(S))
