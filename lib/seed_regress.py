#!/usr/bin/env python3
"""seed_regress.py [ids...] : runs, for every kept seeded change (seeded/<id>/patch.diff), the check of
the property it was written against on /repo with the change applied (undone straight afterwards), and
writes seeded/REGRESSION.json / REGRESSION.md. Needs a clean /repo; restores evidence/ afterwards."""
import json, os, subprocess, sys, glob, time, re
ROOT = os.path.dirname(os.path.dirname(os.path.abspath(__file__)))
REPO = os.environ.get("VERIF_REGRESS_REPO", "/repo")  # a scratch worktree of /repo when the scratch copy of /verif is used
SEEDS = os.environ.get("VERIF_REGRESS_SEEDS", os.path.join(ROOT, "seeded"))
ENV = dict(os.environ, CARGO_NET_OFFLINE="true")
THOROUGH_ONLY = {"C19-r3-2", "C02-r6-2"}  # needs the release-profile build, which only the thorough tier makes


def sh(cmd, cwd=None, timeout=3000):
    p = subprocess.run(cmd, cwd=cwd, env=ENV, shell=isinstance(cmd, str), stdout=subprocess.PIPE, stderr=subprocess.STDOUT, text=True, timeout=timeout)
    return p.returncode, p.stdout


def main():
    md_only = "--md-only" in sys.argv
    resume = "--resume" in sys.argv  # skip seeds REGRESSION.json already has a result for
    ids = [a for a in sys.argv[1:] if not a.startswith("--")] or sorted(os.path.basename(os.path.dirname(f)) for f in glob.glob(os.path.join(SEEDS, "*", "patch.diff")))
    out_f = os.environ.get("VERIF_REGRESS_OUT", os.path.join(SEEDS, "REGRESSION.json"))
    res = json.load(open(out_f)) if os.path.exists(out_f) else {}
    for sid in ([] if md_only else ids):
        if resume and sid in res and "rc" in res[sid]:
            continue
        d = os.path.join(SEEDS, sid)
        meta = json.load(open(os.path.join(d, "meta.json")))
        prop = meta["property"]
        if meta.get("confirmed") is False:
            # not a confirmed change (its demonstration could not be reproduced in this environment)
            res[sid] = {"property": prop, "skipped": "not confirmed: " + str(meta.get("why_unconfirmed", ""))}
            continue
        rc, o = sh(["git", "-C", REPO, "status", "--porcelain", "--untracked-files=no"])
        if o.strip():
            print(REPO + " is not clean"); return 1
        rc, o = sh(["git", "-C", REPO, "apply", os.path.join(d, "patch.diff")])
        if rc != 0:
            res[sid] = {"property": prop, "error": "patch does not apply: " + o[-300:]}
            continue
        t0 = time.time()
        try:
            tier = "thorough" if sid in THOROUGH_ONLY else "quick"
            rc, o = sh(["./check", prop, "--tier", tier], cwd=ROOT)
        finally:
            sh(["git", "-C", REPO, "checkout", "--", "."])
            sh(["git", "-C", REPO, "clean", "-fdq", "--", "src", "shred-derive", "tests", "examples", "benches"])
        viol = [l for l in o.splitlines() if l.startswith("VIOLATION")]
        kinds = sorted(set(re.search(r"replays/%s-([a-z-]+)-\d+" % prop, l).group(1) for l in viol if re.search(r"replays/%s-([a-z-]+)-\d+" % prop, l)))
        what = ""
        for l in viol[:1]:
            m = re.search(r"replay=(\S+)", l)
            if m and os.path.exists(m.group(1)):
                try:
                    what = json.load(open(m.group(1))).get("observed", "")[:300]
                except ValueError:
                    what = "(unreadable replay)"
        res[sid] = {"property": prop, "tier": tier, "rc": rc, "violations": len(viol), "kinds": kinds,
                    "with_failing_input": any("no-failing-input-found" not in l for l in viol), "observed": what,
                    "caught_at_first_evaluation": bool(meta.get("detected_by_target_check")), "wall_s": round(time.time() - t0, 1)}
        print(sid, prop, "rc", rc, kinds, res[sid]["wall_s"], flush=True)
        json.dump(res, open(out_f, "w"), indent=1)
        for f in glob.glob(os.path.join(ROOT, "replays", "*.json")):
            os.remove(f)
    sh("git -C %s checkout -- evidence" % ROOT, cwd=ROOT)
    # markdown
    rows = ["| seed | change | needs to manifest | caught at first evaluation | caught now by ./check <its property> | how |", "|---|---|---|---|---|---|"]
    for sid in sorted(res):
        r = res[sid]
        if r.get("skipped"):
            continue
        meta = json.load(open(os.path.join(SEEDS, sid, "meta.json")))
        how = "—" if not r.get("violations") else ("failing input + replay" if r.get("with_failing_input") else "no-failing-input-found (%s)" % ", ".join(r.get("kinds", [])))
        if r.get("tier") == "thorough":
            how += " (thorough tier)"
        rows.append("| %s | %s | %s | %s | %s | %s |" % (sid, meta.get("change", "").replace("|", "/"), meta.get("needs_to_manifest", "").replace("|", "/"),
                                                       "yes" if r.get("caught_at_first_evaluation") else "no", "yes" if r.get("rc") == 1 else "**no**", how))
    open(os.path.join(SEEDS, "REGRESSION.md"), "w").write("\n".join(rows) + "\n")
    return 0


if __name__ == "__main__":
    sys.exit(main())
