import json, os, glob
S = {
"C01-1": ("find_conflict looks a written id up in a group's accumulated reads with binary_search, but the list of a multi-member group is a concatenation of sorted runs", "a group of >=2 chained systems whose concatenated reads are out of order, and a later writer of a missed id; overlap needs free workers"),
"C01-2": ("add_batch removes from the batch's writes every id that is also in its reads", "a batch with one inner system reading R and another writing R, an unrelated outer reader of R, overlapping interleaving"),
"C02-1": ("find_conflict counts groups holding a dependency instead of the dep_conflict / len>1 test: a system with two dependencies in different stages is queued behind the first", ">=2 dependencies in different stages, no other conflict in the earlier stage, running-time hints for which improves_balance says yes"),
"C02-2": ("add uses SystemId(map.len()) as the new id, so an unnamed system shares its id with the next named one", "an unnamed system registered just before the dependency, the dependency in a later stage, dependent without resource overlap; parallel dispatch with the dependency held in run"),
"C03-1": ("insertion_target starts scanning at the last stage holding a dependency (unwrap_or(barrier)) instead of max(.., barrier)", "a system after a barrier depending only on systems before it, with a conflict-free stage between the dependency and the barrier"),
"C03-2": ("DispatcherBuilder::add_barrier returns early when num_systems() (named systems only) is unchanged since the last barrier", "every system registered since the previous barrier is unnamed"),
"C04-1": ("Stage::execute runs only groups[0] inline when min(groups, pool threads) == 1", "a pool of exactly one thread and a stage with >=2 groups on the parallel path"),
"C04-2": ("MultiDispatcher::run loops dispatch_par and calls dispatch_thread_local once after the loop", "a MultiDispatcher batch holding a thread-local system and a plan other than 1"),
"C05-1": ("insert records a group's write only if the group does not list the id yet — also not as a read — so a group that first reads then writes R stays read-only", "a writer of R joining a group that already holds a reader of R (group-join path), or a batch reading and writing R, followed by another reader of R; >=2 threads"),
"C05-2": ("find_conflict returns Single(group of the open dependency) before scanning resource conflicts with the other groups", "exactly one open dependency in the stage, that group joinable (hints), a resource conflict with a different group of the stage; >=2 threads"),
"C06-1": ("the derive's reads()/writes() ask only member types that mention the fetch lifetime: a bare type-parameter member is skipped", "a derived struct generic over a member (inner: T with T: SystemData)"),
"C06-2": ("Read/Write::setup calls the handler only if the resource is absent", "a custom SetupHandler with an effect beyond inserting T, and T already present"),
"C07-1": ("insert drops from a system's writes every id that is also in its reads (only a batch accessor lists an id in both)", "a batch reading and writing R inside, an unordered outside reader of R, parallel overlap"),
"C07-2": ("add_batch unions the inner accesses only if !dispatcher_builder.is_empty(), which looks at the name map", "every system directly inside the batch registered with the empty name, and a conflict not covered by the controller's data"),
"C08-1": ("try_fetch_by_id / try_fetch_mut_by_id use try_borrow().ok()? — a borrow conflict yields None instead of a panic", "a by-id fetch while a conflicting guard is alive on the same id"),
"C08-2": ("MetaIterMut::next uses try_borrow_mut().ok(): a present but borrowed resource is skipped silently", "iter_mut reaching a registered, present resource that has a live guard"),
"C09-1": ("remove_by_id checks the type argument only after removing the slot (downcast), and not at all on a vacant slot", "a remove_by_id whose type argument disagrees with the id"),
"C09-2": ("try_fetch_mut_by_id passes ResourceId::new::<T>() (dynamic id 0) to the refactored helper instead of the id it was given", "a mutable by-id fetch with a non-zero dynamic id"),
"C10-1": ("dependencies before the barrier are dropped by an id threshold that is off by one (the id of the last system inserted)", "a dependency on exactly the last system registered before a barrier, and a stage already open behind it"),
"C10-2": ("max_threads() is clamped to the pool's current_num_threads()", "a pool narrower than the widest stage"),
"C10-3": ("dep.dedup() without the preceding sort_unstable()", "a repeated dependency with another name in between, e.g. [a, b, a]"),
"C11-1": ("Stage::execute uses par_chunks_mut(groups / threads + 1): with pool size == width, groups are paired on one worker", "pool size exactly equal to the stage width, and a system that waits for a sibling"),
"C11-2": ("dispatch_par skips pool.install when already on a rayon worker — also when that worker belongs to a different pool", "dispatch called from a worker of another, smaller rayon pool"),
"C12-1": ("add_batch rebuilds the sub-dispatcher from stages_builder only; the batch builder's thread-local list is dropped", "a builder with a thread-local system passed to add_batch"),
"C12-2": ("AsyncDispatcher::wait runs thread-local systems only if Data is still Rx — a running()/world() call that observed completion flips it back", "dispatch, then something that observes completion (running()==false, world()), then wait"),
"C13-1": ("BatchControllerSystem::setup forwards to the inner dispatcher only the first time (initialized latch)", "a batch and setup called at least twice (second world / removed resource / hook counting)"),
"C13-2": ("the derive's generated setup skips fields whose type does not mention the fetch lifetime", "a derived bundle generic over a member"),
"C14-1": ("a stage-level aborted flag raised when a group unwinds is never lowered", "a caught panic and a re-dispatch of the same dispatcher (parallel path)"),
"C14-2": ("execute_seq finishes the whole stage system by system before re-raising, so systems behind the panicking one in its own group still run", "sequential dispatch and a dependent merged into its dependency's group, the panicking system not last in the group"),
"C15-1": ("running() reads a busy flag that dispatch sets before sender() — the previous job clears it on its way out", "a second dispatch issued while the first is in flight, then running() polled during the second"),
"C15-2": ("running() compares a stage cursor that reads num_stages both on entering the last stage and when done", "polling while a system of the last stage is executing"),
"C16-1": ("Par::with binary-searches the new child's unsorted write list for the existing children's reads", "an existing reader of X and a new child writing X plus another resource in an order that defeats the search"),
"C16-2": ("RunWithPool::setup for a System calls SystemData::setup directly, bypassing an overridden System::setup", "a leaf that overrides System::setup"),
"C17-1": ("MetaIter/MetaIterMut::next take the vtable index before the loop that skips absent types", "a registered absent type registered before a present one with different trait behaviour"),
"C17-2": ("register uses indices.insert(ty, tys.len()) — a repeated registration leaves a dangling index", "a type registered twice with another registration in between"),
"C18-1": ("the join guard becomes len() <= MAX_SYSTEMS_PER_GROUP: a sixth push into the ArrayVec panics", "six systems funnelled into one group, which needs a stage maximum >= 6 (another group overshooting)"),
"C18-2": ("add inserts the name into the map before resolving dependencies: a dependency on the call's own new name is accepted", "an ill-formed call whose unknown dependency is its own name"),
"C19-1": ("insert also sorts writes and find_conflict binary-searches group lists assumed sorted — the outcome depends on how the concrete ResourceIds order", "a multi-member group and a later conflict only on a missed id; shows as different plans for relabelled resources"),
"C19-2": ("improves_balance breaks exact ties in favour of joining only without the parallel feature (cfg!)", "a --no-default-features build, a single conflict with a non-full group and an exact balance tie"),
"C20-1": ("StagesBuilder::build sorts each stage's groups by accumulated running time; the printed ids table keeps registration order", "a stage in which a later group is strictly heavier than an earlier one"),
"C20-2": ("write_par_seq indexes a Vec sized by the number of named systems with system ids", "an unnamed system registered before a named one, then Debug formatting"),
}
root='/verif/seeded'
rows=[]
for sid,(what,needs) in sorted(S.items()):
    f=os.path.join(root,sid,'meta.json')
    m=json.load(open(f))
    m['breaks']=m['property']
    m['change']=what
    m['needs_to_manifest']=needs
    obs=''
    for r in glob.glob(os.path.join(root,sid,'replay_*.json')):
        try: obs=json.load(open(r)).get('observed','')[:160]
        except Exception: pass
    m['reported_as']=obs
    json.dump(m,open(f,'w'),indent=1)
    rows.append("| %s | %s | %s | %s |" % (sid, what, needs, "yes" if m.get('detected_by_target_check') else "NO"))
open('/tmp/seedtable2.md','w').write("| seed | change | needs to manifest | caught by ./check %s |\n|---|---|---|---|\n" % "<its property>" + "\n".join(rows)+"\n")
print(len(rows))
