#!/usr/bin/env python3
"""Prints the markdown table of seeded changes (seeded/*/meta.json) for DESIGN.md §13.6."""
import json, glob, os
ROOT = os.path.dirname(os.path.dirname(os.path.abspath(__file__)))
rows = []
for f in sorted(glob.glob(os.path.join(ROOT, "seeded", "*", "meta.json"))):
    m = json.load(open(f))
    what = ""
    notes = os.path.join(os.path.dirname(f), "notes.md")
    if os.path.exists(notes):
        for line in open(notes):
            line = line.strip()
            if line and not line.startswith("#"):
                what = line[:140]
                break
    det = m.get("detected_by", [])
    tgt = "yes" if m.get("detected_by_target_check") else "**no**"
    rows.append("| %s | %s | %s | %s | %s |" % (m["id"], "yes" if m.get("confirmed") else "no", tgt, ", ".join(det) or "—", what.replace("|", "/")))
print("| seed | confirmed | caught by its property's check | checks that report a violation | change |")
print("|---|---|---|---|---|")
print("\n".join(rows))
