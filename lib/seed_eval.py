#!/usr/bin/env python3
"""seed_eval.py <PROP> <seed-dir> <seed-id> [--all]

Confirms a seeded change (patch.diff + demo *.rs) independently in a scratch worktree of /repo
(compiles, 51 tests pass, demo fails with / passes without the change), then applies it to
/repo, runs ./check for PROP (and with --all for every property), undoes it, and stores
everything under /verif/seeded/<seed-id>/ (patch.diff, demo, meta.json)."""
import json, os, shutil, subprocess, sys, glob, re, time

ROOT = os.path.dirname(os.path.dirname(os.path.abspath(__file__)))
ENV = dict(os.environ, CARGO_NET_OFFLINE="true")
# the tree the checks of this copy of /verif are pointed at (a scratch worktree when a scratch copy of /verif is used)
TREE = os.environ.get("VERIF_REGRESS_REPO", "/repo")


def sh(cmd, cwd=None, timeout=1800):
    p = subprocess.run(cmd, cwd=cwd, env=ENV, shell=isinstance(cmd, str), stdout=subprocess.PIPE, stderr=subprocess.STDOUT, text=True, timeout=timeout)
    return p.returncode, p.stdout


def test_counts(out):
    ok = sum(int(m) for m in re.findall(r"test result: ok\. (\d+) passed", out))
    failed = sum(int(m) for m in re.findall(r"(\d+) failed", out))
    return ok, failed


def main():
    prop, sdir, sid = sys.argv[1], sys.argv[2], sys.argv[3]
    run_all = "--all" in sys.argv
    patch = os.path.join(sdir, "patch.diff")
    demos = [f for f in glob.glob(os.path.join(sdir, "*.rs"))]
    out_dir = os.path.join(ROOT, "seeded", sid)
    os.makedirs(out_dir, exist_ok=True)
    meta = {"id": sid, "property": prop, "source": sdir, "ran": []}
    # --- 1. independent confirmation in a scratch worktree
    # the scratch worktree the change was written in (already built) — reset to HEAD first
    wt = os.path.dirname(os.path.dirname(os.path.abspath(sdir)))
    reuse = os.path.isdir(os.path.join(wt, ".git")) or os.path.isfile(os.path.join(wt, ".git"))
    if reuse:
        sh(["git", "checkout", "--", "."], cwd=wt)
        for f in glob.glob(os.path.join(wt, "tests", "seed_*.rs")):
            os.remove(f)
    else:
        wt = "/tmp/seedcheck-%s" % sid
        sh("git -C /repo worktree remove --force %s" % wt)
        rc, o = sh("git -C /repo worktree add --detach %s HEAD" % wt)
        shutil.copy("/repo/Cargo.lock", wt)
    try:
        rc, o = sh(["git", "apply", "--check", patch], cwd=wt)
        meta["applies"] = rc == 0
        if rc != 0:
            meta["error"] = "patch does not apply: " + o[-500:]
            return finish(meta, out_dir, patch, demos, sdir)
        sh(["git", "apply", patch], cwd=wt)
        rc, o = sh("cargo build --offline --features verif-hooks", cwd=wt)
        rc2, o2 = sh("cargo build --offline --no-default-features", cwd=wt)
        meta["compiles"] = rc == 0 and rc2 == 0
        rc, o = sh("cargo test --workspace --no-fail-fast --offline 2>&1", cwd=wt)
        ok, failed = test_counts(o)
        meta["suite_with_change"] = {"passed": ok, "failed": failed}
        meta["ran"].append("cargo test --workspace --no-fail-fast --offline (with change): %d passed, %d failed" % (ok, failed))
        for d in demos:
            shutil.copy(d, os.path.join(wt, "tests", os.path.basename(d)))
        # helper directories of a demonstration (e.g. a probe program it compiles)
        extra_dirs = [x for x in glob.glob(os.path.join(sdir, "*")) if os.path.isdir(x)]
        for x in extra_dirs:
            shutil.copytree(x, os.path.join(wt, "tests", os.path.basename(x)), dirs_exist_ok=True)
        res_with = {}
        for d in demos:
            name = os.path.basename(d)[:-3]
            rc, o = sh("cargo test --offline --test %s" % name, cwd=wt)
            res_with[name] = rc
        if all(v == 0 for v in res_with.values()):
            # some changes only show without the `parallel` feature
            for d in demos:
                name = os.path.basename(d)[:-3]
                rc, o = sh("cargo test --offline --no-default-features --test %s" % name, cwd=wt)
                res_with[name + " (--no-default-features)"] = rc
        release = False
        if all(v == 0 for v in res_with.values()):
            # ... or only in the release profile
            release = True
            for d in demos:
                name = os.path.basename(d)[:-3]
                rc, o = sh("cargo test --offline --release --test %s" % name, cwd=wt)
                res_with[name + " (--release)"] = rc
        meta["demo_with_change_rc"] = res_with
        sh(["git", "apply", "-R", patch], cwd=wt)
        res_without = {}
        for d in demos:
            name = os.path.basename(d)[:-3]
            rc, o = sh("cargo test --offline %s--test %s" % ("--release " if release else "", name), cwd=wt)
            res_without[name] = rc
        meta["demo_without_change_rc"] = res_without
        meta["ran"].append("cargo test --offline --test <demo>: with change rc %s, without rc %s" % (res_with, res_without))
        meta["confirmed"] = bool(meta["compiles"] and failed == 0 and ok >= 51 and any(v != 0 for v in res_with.values()) and all(v == 0 for v in res_without.values()))
    finally:
        if reuse:
            sh(["git", "checkout", "--", "."], cwd=wt)
            for d in demos:
                f = os.path.join(wt, "tests", os.path.basename(d))
                if os.path.exists(f):
                    os.remove(f)
        else:
            sh("git -C /repo worktree remove --force %s" % wt)
    # --- 2. our checks against it
    rc, o = sh(["git", "-C", TREE, "status", "--porcelain", "--untracked-files=no"])
    if o.strip():
        meta["error"] = "/repo is not clean"
        return finish(meta, out_dir, patch, demos, sdir)
    sh(["git", "-C", TREE, "apply", patch])
    try:
        props = [prop]
        if run_all:
            sys.path.insert(0, os.path.join(ROOT, "lib"))
            from props import PROPS
            props = [prop] + [p for p in sorted(PROPS) if p != prop]
        meta["checks"] = {}
        for p in props:
            t0 = time.time()
            rc, o = sh(["./check", p], cwd=ROOT, timeout=1500)
            viol = [l for l in o.splitlines() if l.startswith("VIOLATION")]
            meta["checks"][p] = {"rc": rc, "violation_lines": viol, "wall_s": round(time.time() - t0, 1)}
            # keep the replay of the target property as illustration
            if p == prop and viol:
                m = re.search(r"replay=(\S+)", viol[0])
                if m and os.path.exists(m.group(1)):
                    shutil.copy(m.group(1), os.path.join(out_dir, "replay_" + os.path.basename(m.group(1))))
        meta["ran"].append("git -C /repo apply patch.diff; ./check <P>; git -C /repo checkout -- .")
    finally:
        sh(["git", "-C", TREE, "checkout", "--", "."])
        sh(["git", "-C", TREE, "clean", "-fdq", "--", "src", "shred-derive", "tests", "examples", "benches"])
        # evidence files were rewritten against the mutated tree: restore the committed ones
        sh("git -C %s checkout -- evidence" % ROOT)
        for f in glob.glob(os.path.join(ROOT, "replays", "*.json")):
            os.remove(f)
    return finish(meta, out_dir, patch, demos, sdir)


def finish(meta, out_dir, patch, demos, sdir):
    shutil.copy(patch, os.path.join(out_dir, "patch.diff"))
    for d in demos:
        shutil.copy(d, out_dir)
    notes = os.path.join(sdir, "notes.md")
    if os.path.exists(notes):
        shutil.copy(notes, os.path.join(out_dir, "notes.md"))
        meta["needs_to_manifest"] = "see notes.md"
    target = meta.get("checks", {}).get(meta["property"], {})
    meta["detected_by_target_check"] = target.get("rc") == 1
    meta["detected_by"] = sorted(p for p, c in meta.get("checks", {}).items() if c["rc"] == 1)
    json.dump(meta, open(os.path.join(out_dir, "meta.json"), "w"), indent=1)
    print(json.dumps({k: meta.get(k) for k in ("id", "property", "confirmed", "detected_by_target_check", "detected_by", "error")}))


if __name__ == "__main__":
    main()
