import json, os
S = {
"C01-r5-1": ("the 4-per-group capacity test moved into find_conflict as a pre-filter: a full group no longer counts as a conflict", "a group grown to four members and a fifth system conflicting only with it"),
"C01-r5-2": ("u64 signatures per group; resources numbered 64 and above get no bit and the pre-check treats no common bit as no conflict", "two systems whose only common resource was first named after the 64th"),
"C02-r5-1": ("last-stage fallback (append to the single conflicting group of the last stage) reuses the already crossed-off dependency list", "B's dependency sits in the last stage in one group and B conflicts with exactly one other group there"),
"C02-r5-2": ("promote_group keeps groups sorted by running time but does not move the ids table", "differing hints so that a later group outweighs an earlier one, plus a light dependent"),
"C03-r5-1": ("placement memo for consecutive identical read-only systems that add_barrier does not clear", "the last system before a barrier and the first after it are read-only with identical read sets and hints"),
"C04-r5-1": ("add_batch drains the batch builder's thread-local systems into the outer builder", "a batch with a thread-local system and a controller that does not dispatch exactly once"),
"C04-r5-2": ("Stage::execute runs groups in runs of groups/threads via par_chunks_exact_mut: the remainder groups are dropped", "a stage with more groups than twice the pool size, not evenly divisible"),
"C05-r5-1": ("add_barrier frees reads/writes/running_time of closed stages; fetch_all_* (add_batch) flatten them", "a batch with an inner barrier and a conflicting outer system"),
"C05-r5-2": ("insertion_target as find_map: a full single conflicting group that would still improve balance returns Stage(stage)", "a group filled to exactly four via the balance path and a fifth such system"),
"C06-r5-1": ("the derive delegates to tuple impls in chunks_exact(26): members beyond a multiple of 26 are lost from reads/writes/setup", "a derived struct with 27..51 members"),
"C06-r5-2": ("the derive flattens tuple members with a stack walk that reverses the elements of each tuple member in setup", "a derived struct with a tuple member and order-sensitive setup handlers"),
"C07-r5-1": ("a system joining a group drops from its reads and writes every id the group already lists (also a write of something the group only read)", "a group that only reads X, a writer of X appended to it, then a reader of X (inside a batch: the union loses the write)"),
"C07-r5-2": ("the derive skips fields that cannot contribute, with `any` instead of `all` for tuple-typed fields", "a derived bundle with a tuple field mixing Read and Write, used as controller or inner system data"),
"C08-r5-1": ("ResourceId hashes only the type and is Borrow<TypeId>; typed fetches look up by bare TypeId", "a type stored under a non-zero dynamic id and fetched through the typed API"),
"C08-r5-2": ("every refused borrow builds a report by try_borrow_mut on every cell", "two threads: a refused fetch on one overlapping a legal fetch of another resource on the other"),
"C09-r5-1": ("World::exec remembers per type name that setup ran; only remove (not remove_by_id) forgets", "exec, remove_by_id of a bundle resource, exec again"),
"C09-r5-2": ("the world's table is keyed by hash(TypeId) wrapping_add dynamic id", "two resource types used with large dynamic ids whose distance equals the difference of their type hashes"),
"C10-r5-1": ("add_batch puts barriers around a batch whose builder holds thread-local systems", "a batch with an inner thread-local system next to compatible systems"),
"C10-r5-2": ("a conflict-free stage is accepted only while it has fewer than six groups", "seven or more pairwise compatible systems"),
"C11-r5-1": ("SendDispatcher::dispatch picks dispatch_seq when rayon::current_num_threads() (the caller's pool) is 1", "dispatch called from a worker of a one-thread pool (or a one-thread global pool) with a larger pool given via with_pool"),
"C11-r5-2": ("dispatch_par runs a stage with execute_seq while the dispatching worker has pending tasks", "a batch that is not alone in its outer stage (its worker still holds queued sibling groups)"),
"C12-r5-1": ("add_batch returns early when the batch builder is_empty() (name map only)", "a batch builder holding only thread-local (or unnamed) systems"),
"C12-r5-2": ("the not(parallel) copy of Dispatcher::dispatch is only dispatch_seq", "a build without the parallel feature and thread-local systems"),
"C13-r5-1": ("dispatch_par moves the stages into the pool job with mem::take and assigns them back afterwards", "a panic in a parallel dispatch (caught), then setup or dispose"),
"C14-r5-1": ("dispatch_seq takes the shared pool out of its slot and puts it back only on the normal exit path", "a panic during dispatch_seq (caught), then dispatch_par"),
"C14-r5-2": ("dispatch_seq catches and re-raises with panic_any(payload): the payload is boxed twice", "dispatch_seq in a build with the parallel feature, payload inspected"),
"C15-r5-1": ("the async job runs wide stages in chunks_exact_mut(threads - 1): the last partial round is dropped", "a stage with more groups than threads-1 and not a multiple of it"),
"C15-r5-2": ("per-stage timing slots: the stage loop zips with a 16-element array", "an async plan with more than 16 stages"),
"C16-r5-1": ("Par::with pre-filters with 64-bit signatures computed with a fresh RandomState per call", "a par node whose children declare at least 8 ids (debug build)"),
"C16-r5-2": ("Par::run skips a zero-sized tail that declares no access", "a zero-sized leaf type with an empty access set as a non-first par child"),
"C17-r5-1": ("MetaIter / MetaIterMut resolve one element ahead and keep its borrow", "two present registered types and a fetch of the next one between two next() calls"),
"C17-r5-2": ("the address check moves into a helper that MetaIterMut::next bypasses", "a wrong CastFrom reached through iter_mut"),
"C18-r5-1": ("improves_balance in plain u8 arithmetic: max - new_time underflows", "a system joining the lighter group and pushing it past the heaviest (debug build)"),
"C18-r5-2": ("insert gains debug_assert!(reads and writes do not intersect)", "a batch whose union reads and writes the same resource"),
"C19-r5-1": ("Stage::execute times every group and re-sorts them slowest first when the stage is wider than the pool", "a dispatch before the layout is inspected, a stage wider than the pool, unequal run times"),
"C19-r5-2": ("tuples merge each element's ids with a helper that skips the whole element if its first id was already collected", "tuples nested in tuples with partial overlap and the shared id listed first"),
"C20-r5-1": ("names are sanitised in a 64-byte ArrayString; its Write error propagates out of Debug::fmt", "a system name longer than 64 bytes"),
"C20-r5-2": ("add records a name only if name.trim() is not empty", "a name made only of whitespace"),
}
if __name__ == "__main__":
    for sid,(what,needs) in sorted(S.items()):
        f=os.path.join('/verif/seeded',sid,'meta.json')
        if not os.path.exists(f): print("missing", sid); continue
        m=json.load(open(f))
        m['breaks']=m['property']; m['change']=what; m['needs_to_manifest']=needs
        json.dump(m,open(f,'w'),indent=1)
    print(len(S))
