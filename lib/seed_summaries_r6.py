import json, os
S = {
"C01-r6-1": ("Conflict::Single stores the group index in a u8", "a stage of more than 256 groups and a system whose only conflict is with a group at index 256 or above"),
"C01-r6-2": ("a group's access lists are compacted once they would leave their inline buffer: ids the group already has in either list are left out", "a group with more than ten write entries, a member that writes an id an earlier member only read, then a reader of that id"),
"C02-r6-1": ("unnamed systems are entered in the name map as unnamed_system_<id> with a plain insert", "a system named unnamed_system_k, then the unnamed system that gets id k, then a dependent on that name"),
"C02-r6-2": ("an id-to-stage table with 16-bit entries replaces the scans in the pre-barrier loop and remove_ids", "more than 65536 stages and a dependency on a system placed beyond stage 65535"),
"C03-r6-1": ("the barrier position becomes a wrapping u8 epoch tag per stage", "256 or more effective barriers in one builder"),
"C03-r6-2": ("add_barrier's update sits inside debug_assert!(self.seal(..))", "a build without debug assertions"),
"C04-r6-1": ("the push of the boxed system into an existing group sits inside debug_assert!(try_push(..).is_ok())", "a build without debug assertions and a system that joins a group"),
"C04-r6-2": ("add_batch builds the inner dispatcher with a variant of build() that does not fill the shared pool wrapper", "a batch inside a batch inside a dispatcher (parallel feature)"),
"C05-r6-1": ("the derive leaves out of writes() fields whose type name starts with Read, and of reads() those starting with Write", "a derived struct with a nested bundle called ReadyQueue / WriteLog / .."),
"C05-r6-2": ("BatchAccessor dedups with dedup_by(same_type): one dynamic id per resource type survives", "a batch whose systems use one type under several dynamic ids and an outer system on one that is dropped"),
"C06-r6-1": ("StaticAccessor stores reads / writes filled in try_new; the derived Default leaves them empty", "an accessor made with StaticAccessor::default() (compositions of Option forms, unit, PhantomData)"),
"C06-r6-2": ("FetchMut keeps its borrow when dropped while the thread is panicking", "a Write dropped during unwinding: a panicking system, or a later member of the same tuple failing to fetch"),
"C07-r6-1": ("MultiDispatcher enters the pool once and runs the stages n times, then the thread-local systems n times", "the stock MultiDispatcher with n >= 2 and a thread-local system in the batch"),
"C07-r6-2": ("one shared ResourceId::normalize helper dedups by type id only", "two dynamic ids of one type inside a batch and an outer system conflicting through the dropped one"),
"C08-r6-1": ("an in-tree sharded cell whose shared guard decrements the dropping thread's shard", "a shared guard fetched on one thread and dropped on another"),
"C08-r6-2": ("the same sharded cell; the roll-back of a refused shared borrow sits inside debug_assert!", "a build without debug assertions: exclusive guard held, a refused shared fetch survived, guard dropped, exclusive fetch"),
"C09-r6-1": ("ResourceId stores the dynamic id as NonZeroU64 of saturating_add(1): u64::MAX - 1 and u64::MAX coincide", "one type used under the dynamic ids u64::MAX - 1 and u64::MAX"),
"C09-r6-2": ("the type check of try_fetch_by_id / try_fetch_mut_by_id becomes a debug assertion", "a build without debug assertions and a mismatching type argument"),
"C10-r6-1": ("a per-group u64 summary with bit (n mod 64) of the n-th resource; two intersecting groups mean Conflict::Multiple without the exact check", "more than 64 distinct resources in one builder and an aliasing pattern over two groups"),
"C10-r6-2": ("the push of the system id into the ids table sits inside debug_assert!", "a build without debug assertions and a system with a dependency"),
"C11-r6-1": ("groups are forked with a work-balanced rayon::join split that degenerates to a sequential loop when the split point is the last group", "a stage whose later group holds more systems than all groups before it, and a wait across groups"),
"C11-r6-2": ("a stage is executed position by position (one par_iter per position)", "a multi-system group and a wait between systems at different positions of different groups"),
"C12-r6-1": ("try_into_sendable also refuses when a batch holds thread-local systems", "thread-local systems only inside a batch"),
"C12-r6-2": ("dispatch_thread_local and AsyncDispatcher::wait skip the thread-local systems while the calling thread is panicking", "a dispatch issued from a destructor during unwinding"),
"C13-r6-1": ("has_value::<T> is true if T exists under any dynamic id; DefaultProvider::setup inserts only if !has_value", "a world that holds T under a non-zero dynamic id but not under 0"),
"C13-r6-2": ("BatchControllerSystem::setup sets up the controller's data only if the controller declares an id no inner system declares", "controller data covered by inner systems that use it through Option / Expect forms only"),
"C14-r6-1": ("a per-stage borrow audit asserts from a Drop guard", "a system whose fetch is refused because the caller of dispatch still holds a guard: the assert fires during unwinding and the process aborts"),
"C14-r6-2": ("a process-wide Mutex around thread-local systems run on a pool worker; a panicking thread-local system poisons it", "a thread-local system inside a batch panics; the next dispatch"),
"C15-r6-1": ("running() compares a wrapping u16 dispatch number with the last finished one using <", "the 65536th dispatch on one AsyncDispatcher"),
"C15-r6-2": ("the join of wait_without_tl sits inside debug_assert_eq!", "a build without debug assertions and wait_without_tl"),
"C16-r6-1": ("Par::with also rejects a child whose own reads and writes overlap", "a seq group as a later child in which one leaf writes what another reads"),
"C16-r6-2": ("Par::with compares BTreeMap access tables built with extend: a side that writes and reads an id counts as a reader", "a composite child that writes and reads X next to a pure reader of X"),
"C17-r6-1": ("the address check of attach_vtable becomes a debug_assert!", "a build without debug assertions and a CastFrom that moves the address"),
"C17-r6-2": ("the type-to-position map stores the position as u8", "more than 256 registered types"),
"C18-r6-1": ("find_conflict collects the conflicting groups in a u64 bit set (1 << group)", "a stage of 65 or more groups and a later system conflicting with a group at index 64 or above (overflow panic in add)"),
"C18-r6-2": ("an unknown dependency goes through a did-you-mean helper whose edit distance indexes by byte offsets", "a registered name with a non-ASCII character, then an unknown dependency"),
"C19-r6-1": ("unnamed systems are entered in the name map under their printed placeholder with insert", "a system named unnamed_system_k before the unnamed system with index k, and a dependent on that name"),
"C19-r6-2": ("dependency names are trimmed at lookup, names are stored verbatim", "names with leading / trailing whitespace that are depended upon"),
"C20-r6-1": ("a rejected duplicate name still overwrites the name map entry before the panic", "a duplicate registration that is caught, then the builder is printed"),
"C20-r6-2": ("the sanitised name is built in a thread_local buffer that is not cleared when the sink reports an error", "a print into a sink that fails part-way, then any print on the same thread"),
}
if __name__ == "__main__":
    for sid,(what,needs) in sorted(S.items()):
        f=os.path.join('/verif/seeded',sid,'meta.json')
        if not os.path.exists(f): print("missing", sid); continue
        m=json.load(open(f))
        m['breaks']=m['property']; m['change']=what; m['needs_to_manifest']=needs
        json.dump(m,open(f,'w'),indent=1)
    print(len(S))
