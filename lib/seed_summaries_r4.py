import json, os
S = {
"C01-r4-1": ("insert bubbles the heaviest group to the front with swap_groups, which swaps ids/reads/running_time/groups but not writes", "a later group that becomes the heaviest of its stage, then a system conflicting only through that group's writes"),
"C01-r4-2": ("Option<Read> and Option<Write> folded into one macro whose second use keeps the first one's access lists: Option<Write<T>> declares a read", "a system with Option<Write<T>> beside a reader of T"),
"C02-r4-1": ("find_conflict tracks the dependency's group separately: Single(a) survives when the last pending dependency sits in another group g", "B depends on A (group g) and conflicts only with C (group a) of the same stage, balance accepts the join"),
"C02-r4-2": ("join limit relaxed to len < MAX and a defensive arm that opens a new group in the same stage when the group is full", "a dependency in a group of exactly 4 systems"),
"C03-r4-1": ("add_barrier derives the barrier from the stage of the last inserted system", "the last system before the barrier was back-filled into an earlier stage"),
"C03-r4-2": ("barrier as Option<last stage in front>: saturating_sub on an empty builder", "a leading barrier, then two systems that could share a stage"),
"C04-r4-1": ("Dispatcher::dispatch returns early when max_threads() == 0", "a dispatcher (or batch-inner dispatcher) holding only thread-local systems"),
"C04-r4-2": ("AsyncDispatcher::dispatch returns at once while the previous run is in flight", "dispatch; dispatch without wait in between"),
"C05-r4-1": ("heaviest group first: swap_groups leaves writes unswapped", "as C01-r4-1, observed through non-commutative updates"),
"C05-r4-2": ("per-stage touched/written summaries only fed by add_group, consulted before find_conflict", "a system appended to an existing group brings in a new resource; a later system collides only on it"),
"C06-r4-1": ("Option forms through a helper trait whose EXCLUSIVE constant the Write impl forgets to override", "Option<Write<T>>"),
"C06-r4-2": ("the derive sorts and de-duplicates member types before generating setup / reads / writes", "a derived struct whose field order differs from the sorted order, or with a repeated member type, and an order-sensitive SetupHandler"),
"C07-r4-1": ("find_conflict returns Single(dep_group) when exactly one dependency is open, discarding the folded conflict", "a batch (or outer system) with one open dependency in a stage where it also conflicts with another group"),
"C07-r4-2": ("insertion_target as find_map: Single(group) with a full group returns Stage(stage)", "a group of exactly 4 systems and a fifth conflicting only with it (e.g. the batch)"),
"C08-r4-1": ("tuples of 17-26 members are fetched in place into MaybeUninit without cleanup on unwind", "a wide tuple whose later member's fetch panics (caught), then a fetch of an earlier member's resource"),
"C08-r4-2": ("without `parallel` an in-tree non-atomic cell whose refused exclusive acquire clears the existing writer's flag", "--no-default-features, a live exclusive guard, a refused fetch_mut (caught), then another fetch"),
"C09-r4-1": ("World storage regrouped per type in a sorted SmallVec; Slots::remove uses swap_remove", ">= 3 dynamic ids of one type, remove one near the front, then touch a displaced id"),
"C09-r4-2": ("assert_same_type_id returns early for dynamic id 0", "an id-taking call with a mismatching type argument and dynamic id 0"),
"C10-r4-1": ("the pre-barrier removal loop runs before sort/dedup of the dependency list", "a dependency in front of a barrier named twice"),
"C10-r4-2": ("remove_ids crosses off at most one dependency per group", "two dependencies packed into the same group"),
"C11-r4-1": ("the default pool is built with use_current_thread(): the building thread counts as a worker but never runs the stealing loop", "default pool, width == pool size, async dispatch or dispatch from another thread"),
"C11-r4-2": ("add_batch builds the sub-dispatcher without ensuring a pool; dispatch_par runs sequentially when the slot is empty", "a batch inside a batch"),
"C12-r4-1": ("Dispatcher::dispatch returns dispatch_seq(world) when max_threads() <= 1, before the thread-local systems", "a plan that never has two groups in a stage, plus thread-local systems"),
"C12-r4-2": ("a refused try_into_sendable rebuilds the dispatcher from into_parts(), which returns the thread-local systems reversed", ">= 2 thread-local systems, try_into_sendable -> Err(d), then dispatch d"),
"C13-r4-1": ("add_batch returns early when the sub-builder is_empty() (name map) and has no thread-local systems", "a batch whose pooled systems are all unnamed (or a genuinely empty batch with controller data)"),
"C13-r4-2": ("World::setup::<T>() runs only once per SystemData type (cleared by remove, not by remove_by_id)", "setup, remove_by_id of a controller's default-provided resource, setup again"),
"C14-r4-1": ("MultiDispatcher keeps a pending counter that is decremented only after dispatch returns", "a panic inside a MultiDispatcher batch, then a re-dispatch"),
"C14-r4-2": ("Stage::execute re-runs a group whose panic payload is a String ending in `: already borrowed`", "a system (not first in its group) panicking with such a message on the parallel path"),
"C15-r4-1": ("join() via ThreadPool::yield_now treats an idle pool as `dispatch finished` when the caller is a worker of the dispatcher's own pool", "the dispatcher driven inside pool.install, the job stolen by another worker, wait_without_tl"),
"C15-r4-2": ("the async job runs 8 stages per slice and re-queues the rest starting at the stage just executed", "an async plan with 8 or more stages"),
"C16-r4-1": ("Par::with skips the whole conflict check when the new child writes nothing", "par![WriterX, ReaderX]"),
"C16-r4-2": ("single-worker fast path in Par::run: a caller outside the pool runs the head via install and then falls through to join", "a one-thread pool, dispatch from outside the pool, a par node"),
"C17-r4-1": ("register assigns the index and probes the cast before pushing: a rejected registration leaves a dangling index", "a wrong CastFrom registration (caught), then further registrations"),
"C17-r4-2": ("linear scan up to 8 types, hash index built lazily beyond — the 9th type is never inserted into it", "more than 8 distinct registered types"),
"C18-r4-1": ("add_batch returns early for a sub-builder that is_empty() (name map)", "a batch with only unnamed inner systems, later depended on or its name reused"),
"C18-r4-2": ("the panic messages quote the name with {:?} instead of \"{}\"", "an offending name containing a backslash, quote or control character"),
"C19-r4-1": ("scan-start memo keyed on the raw (unsorted) write list of the previous registration", "two consecutive registrations with equal write lists in the same / another order, the first pushed back by the balance test only"),
"C19-r4-2": ("without `parallel`, add_batch does not add the sub-systems' reads to the batch's read set", "a --no-default-features build, a batch whose sub-systems only read what a parent system writes"),
"C20-r4-1": ("write_sanitised slices the name at char counts instead of byte offsets", "a name with a non-ASCII character before a space, dash or slash"),
"C20-r4-2": ("the id-to-name table is cached in a OnceCell on first print", "print, register more, print again"),
}
if __name__ == "__main__":
    for sid,(what,needs) in sorted(S.items()):
        f=os.path.join('/verif/seeded',sid,'meta.json')
        m=json.load(open(f))
        m['breaks']=m['property']; m['change']=what; m['needs_to_manifest']=needs
        json.dump(m,open(f,'w'),indent=1)
    print(len(S))
