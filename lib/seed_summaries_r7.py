import json, os
S = {
"C01-r7-1": ("the derive builds reads() / writes() only from field types that spell the fetch lifetime", "a derived struct with a field whose type is a bare type parameter, and a sibling conflicting only through it"),
"C01-r7-2": ("MultiDispatcher's BatchSystemData becomes a wrapper around the controller's plan data that reports no reads / writes", "a MultiDispatcher batch whose plan data no sub-system uses, and an outer system that conflicts with it"),
"C02-r7-1": ("the duplicate-name check uses map.insert(..).is_some() and current_id advances only after a successful insert", "a caught duplicate-name panic on add, the builder used on, a dependent on that name"),
"C03-r7-1": ("a dispatch issued from a worker of the own pool keeps one rayon scope open; the per-stage wait gives up on Yield::Idle", "a batch's inner stage of two groups in front of an inner barrier, one group stolen and outliving the inline one"),
"C04-r7-1": ("MultiDispatcher::run evaluates plan() again before every inner dispatch", "a plan whose value changes within one outer dispatch"),
"C04-r7-2": ("add stages the system before it checks its name", "a caught duplicate-name panic, then build and dispatch: the refused system runs"),
"C05-r7-1": ("StaticAccessor reads / writes memoised in a process-wide cache keyed by std::any::type_name", "two different bundles with the same type name (same identifier in two blocks of one function)"),
"C05-r7-2": ("add_batch starts from empty access lists when the sub-builder's is_empty() (name map) says so", "a batch whose sub-systems are all registered under the empty name"),
"C06-r7-1": ("the world keeps its cells in a slab with a free list; Entry reuses a freed slot without popping it", "remove, then setup of an absent default-provided resource, then one more new resource"),
"C06-r7-2": ("DefaultProvider::setup uses or_insert(T::default()): the default is built and dropped although the resource exists", "setup of a default-handled member whose resource is present (Default / Drop with side effects, or a Default that panics)"),
"C07-r7-1": ("the Option<Read> / Option<Write> impls are merged into one template copied from the Read flavour: Option<Write<T>> declares a read", "controller or inner data spelled Option<Write<T>> and an outside reader of T"),
"C08-r7-1": ("Fetch::clone_from does nothing when the two guards' data addresses are equal", "a zero-sized resource type, two cells of it, Clone::clone_from between their guards"),
"C09-r7-1": ("impl Drop for World forgets the resource table while the thread is panicking", "a world dropped during unwinding"),
"C09-r7-2": ("a resource that is already a Box<dyn Resource> is stored unwrapped", "R = Box<dyn Resource>"),
"C10-r7-1": ("running_time() is asked lazily, after the group and its bookkeeping were created", "a system whose running_time() panics during add (caught), then registrations that conflict with its declared access"),
"C10-r7-2": ("the duplicate-name check uses map.insert(..).is_some(): the name now points at the id of the rejected registration", "a caught duplicate-name panic and two later dependents on that name"),
"C11-r7-1": ("RunNow for SendDispatcher / Dispatcher runs the stages without entering the dispatcher's own pool", "a dispatcher driven through RunNow::run_now from a thread whose registry is smaller than the stage"),
"C11-r7-2": ("batch sub-dispatchers are flagged nested and skip pool.install", "a batch in a parent dispatched with dispatch_seq from a small registry"),
"C12-r7-1": ("AsyncDispatcher::setup moves the thread-local list out with mem::take and does not put it back when a hook panics", "a setup() in which a system's setup panics (caught), then dispatch + wait"),
"C12-r7-2": ("dispatch() no longer blocks on a running job but bumps a backlog counter the job polls; the increment can be lost", "two dispatch() calls without a wait, the second landing between the job's last check and its send"),
"C13-r7-1": ("Dispatcher::dispose returns early while the thread is panicking", "dispose called from a destructor during unwinding"),
"C13-r7-2": ("RunWithPool for a leaf system calls SystemData::setup instead of the system's own System::setup", "a system with an overridden setup hook inside a ParSeq"),
"C14-r7-1": ("the derive builds the struct in place (MaybeUninit): fields fetched before a failing later field are leaked", "a system whose derived data has a later member that fails to fetch"),
"C15-r7-1": ("the job stops when a liveness token is gone; dispatch() renews the token before it joins the running job", "a second dispatch() while the first is in a non-final stage"),
"C15-r7-2": ("Stage::execute has a fast path for effective width <= 1 that runs only the first group", "a one-thread pool and a stage of two or more groups"),
"C16-r7-1": ("Par::run tests rayon::current_thread_index() instead of the own pool's: a worker of another pool forks there", "dispatch called from a worker of a different, smaller pool"),
"C16-r7-2": ("a par tail whose running-time hint is VeryShort is run inline after the head", "a leaf with running_time() == VeryShort in a non-first position of a par node"),
"C17-r7-1": ("World::get_mut_raw returns the storage slot (a Box<dyn Resource> unsized as the resource) instead of the resource", "MetaTable::get / get_mut on what get_mut_raw hands out"),
"C17-r7-2": ("(unconfirmed) the nightly variant of register probes the cast with a constant well-aligned placeholder", "--features nightly only"),
"C18-r7-1": ("the default pool is sized (cores - 1).clamp(2, cores)", "a machine (or affinity mask) with one processor: build() panics"),
"C18-r7-2": ("add_batch asserts that the sub-builder has no thread-local systems (parallel feature only)", "a batch whose builder has thread-local systems"),
"C19-r7-1": ("pre-barrier dependencies are crossed off by an id watermark (count of placed systems)", "a rejected registration (it uses up an id), then a barrier and a dependent of the last system in front of it"),
"C20-r7-1": ("running_time() is called between recording the id for the printed plan and pushing the system", "a system whose running_time() panics during add (caught), the builder printed afterwards"),
"C20-r7-2": ("a drop guard in add removes the just-registered name if thread::panicking()", "registrations made while the thread unwinds (a builder filled inside a Drop)"),
}
if __name__ == "__main__":
    for sid,(what,needs) in sorted(S.items()):
        f=os.path.join('/verif/seeded',sid,'meta.json')
        if not os.path.exists(f): print("missing", sid); continue
        m=json.load(open(f))
        m['breaks']=m['property']; m['change']=what; m['needs_to_manifest']=needs
        json.dump(m,open(f,'w'),indent=1)
    print(len(S))
