import json, os
S = {
"C01-r2-1": ("find_conflict: a dependency found in the stage (`dep_group`) overrides resource conflicts with other groups when it is the only outstanding dependency", "a dependency in group g, a read/write conflict with another group g' of the same stage, hints for which joining g improves balance"),
"C01-r2-2": ("per-stage footprint shortcut in insertion_target that is filled on the Stage/NewStage paths but not when a system joins an existing group", "a joiner that brings new ids into a group, then a later system touching only those ids"),
"C02-r2-1": ("pre-barrier dependencies crossed off by an id threshold `barrier_id = last_id + 1` that is wrong for a barrier on an empty builder", "with_barrier() before any system, then a dependent of system 0 without a shared resource"),
"C02-r2-2": ("insertion_target starts at the stage of the last-registered dependency and crosses the others off", ">=2 dependencies where the one registered last sits in an earlier stage than another"),
"C03-r2-1": ("stages in front of the barrier are rejected only in the Conflict::None arm; Conflict::Single may still append there", "after a barrier, a system with exactly one conflict in a pre-barrier stage, group not full, improves_balance true"),
"C03-r2-2": ("shortcut for systems without access and open dependency returns Stage(barrier.min(len-1))", "the first system after an effective barrier accesses nothing"),
"C04-r2-1": ("dispatch_par moves the stages out with mem::take and puts them back from the install closure's return value: lost if a system panics", "a caught panic in a parallel dispatch, then any later dispatch"),
"C04-r2-2": ("add_batch returns early when the inner builder `is_empty()` (name map only)", "a batch whose direct sub-systems are all unnamed or thread-local"),
"C05-r2-1": ("find_conflict binary-searches a group's accumulated (unsorted) read list for the new system's writes", "a multi-member group whose concatenated reads are out of order and a later writer of a missed id"),
"C05-r2-2": ("insertion_target enumerates (barrier..len) and uses the barrier-relative index as the absolute stage", "a barrier and a post-barrier system that fits an existing post-barrier stage"),
"C06-r2-1": ("the derive caches reads()/writes() in a `static` inside the generic impl: shared by all instantiations", "a generic derived struct with two instantiations in one process"),
"C06-r2-2": ("tuples collect ids through hidden reads_into/writes_into whose trait default overwrites instead of appending", "a derived or hand-written SystemData as a tuple member with an accessing member before it"),
"C07-r2-1": ("add_batch merges the controller's declared ids with merge_sorted, which assumes the controller's lists are sorted", "a controller declaring >=2 reads (or writes) with the larger ResourceId first"),
"C07-r2-2": ("add_barrier resets reads/writes of the stages in front of the barrier; fetch_all_reads/writes flatten those tables", "a batch whose inner builder uses a barrier, with an inner system before it"),
"C08-r2-1": ("in-tree copy of the borrow cell whose shared acquire does not re-check the exclusive bit after fetch_add", "a reader and a writer of one resource racing on two threads"),
"C08-r2-2": ("FetchMut's Drop returns early while the thread is panicking (poison-like)", "unwinding through an exclusive guard (refused compound fetch, panic while holding Write), survived, then another fetch"),
"C09-r2-1": ("insert_by_id on an occupied slot: drop_in_place then write", "the old value's Drop panics (caught): the slot keeps the dropped value, dropped again later"),
"C09-r2-2": ("try_fetch_by_id / try_fetch_mut_by_id answer None for a present but conflictingly borrowed slot", "a by-id fetch while a conflicting guard is alive"),
"C10-r2-1": ("insertion_target as a for loop: the `group is full` case `continue`s past remove_ids", "a full group (4) holding the system's only open dependency and a later compatible stage"),
"C10-r2-2": ("ResourceId::overlaps: a plain id (dynamic id 0) conflicts with every dynamic id of its type", "two ids of one type, exactly one with dynamic id 0, one access a write"),
"C11-r2-1": ("build()/build_async() size the default pool after the widest stage of the dispatcher being built; batches share the pool slot and are built first", "no with_pool, a batch narrower than another stage on the shared pool"),
"C11-r2-2": ("a stage whose groups are all single VeryShort systems is executed inline", "non-default running-time hints (VeryShort everywhere in a stage)"),
"C12-r2-1": ("MultiDispatcher::run calls dispatch_systems n-1 times and one full dispatch", "a MultiDispatcher batch with thread-local systems and plan >= 2"),
"C12-r2-2": ("RunNow::run_now for Dispatcher forwards to the inner SendDispatcher", "a Dispatcher driven through RunNow (nested as thread-local system, Box<dyn RunNow>)"),
"C13-r2-1": ("BatchController gains a setup hook; MultiDispatcher overrides it with the user's no-op hook", "a MultiDispatchController declaring a default-provided resource nobody else declares, absent from the world"),
"C13-r2-2": ("reverse-order dispose drains: the innermost `if let` disposes only the last system of each group", "a group with >=2 systems"),
"C14-r2-1": ("per-stage buffer of panic payloads from which only the re-raised entry is removed", "two systems of one stage panic in one dispatch; later another panic in that stage"),
"C14-r2-2": ("MultiDispatcher::run re-panics with `batch iteration i of n: msg`", "a string-payload panic inside a MultiDispatcher batch planned for >=2 iterations"),
"C15-r2-1": ("a dispatch issued while the previous one is in flight is remembered as a flag, not a count", ">=2 extra dispatch() calls during one running round"),
"C15-r2-2": ("long-lived completion channel; world_mut/setup fast path does not consume the finished job's token", "a dispatch finishes on its own, is first observed by world_mut/setup, then a later dispatch is waited for"),
"C16-r2-1": ("Par::with shares one buffer for old and new ids and group children de-duplicate it", "adding a Seq/Par child that writes what an existing child writes"),
"C16-r2-2": ("a leaf's reads() filters out ids it also writes", "a leaf whose accessor lists one id under reads and writes"),
"C17-r2-1": ("attach_vtable skips the address check for zero-sized implementors", "a ZST type with a wrong CastFrom"),
"C17-r2-2": ("MetaIter/MetaIterMut treat a borrowed resource as absent (try_borrow().ok())", "iteration while a conflicting guard is alive"),
"C18-r2-1": ("names are stored and looked up in sanitised form", "two names (or a dependency) that differ only in ' ', '-', '/', '_'"),
"C18-r2-2": ("dependency dedup moved into add, ahead of the `all found?` length check", "a dependency list repeating a registered name"),
"C19-r2-1": ("insertion_target stops opening groups beyond rayon::current_num_threads().max(6)", ">=7 independent systems and registration under differently sized pools"),
"C19-r2-2": ("next_id() = num_systems() (named systems only)", "an unnamed system followed by named ones and a dependency"),
"C20-r2-1": ("Debug prints the empty plan when `is_empty()`", "a builder holding only unnamed systems"),
"C20-r2-2": ("write_par_seq keys the id table by sanitised name: colliding names lose one entry", "two names equal after sanitising"),
}
if __name__ == "__main__":
    for sid,(what,needs) in sorted(S.items()):
        f=os.path.join('/verif/seeded',sid,'meta.json')
        m=json.load(open(f))
        m['breaks']=m['property']; m['change']=what; m['needs_to_manifest']=needs
        json.dump(m,open(f,'w'),indent=1)
    print(len(S))
