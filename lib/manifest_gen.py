#!/usr/bin/env python3
"""Regenerates /verif/MANIFEST.json from lib/props.py (single source of truth)."""
import json, os, sys
ROOT = os.path.dirname(os.path.dirname(os.path.abspath(__file__)))
sys.path.insert(0, os.path.join(ROOT, "lib"))
from props import PROPS, NOT_APPLICABLE, TEXT  # noqa

checks = []
for pid in sorted(PROPS):
    c = PROPS[pid]
    checks.append({
        "property_id": pid,
        "quick_cmd": "./check %s --tier quick" % pid,
        "thorough_cmd": "./check %s --tier thorough" % pid,
        "evidence_file": "/verif/evidence/%s.json" % pid,
        "replay_cmd_template": "./check %s --replay {path}" % pid,
        "engine": "+".join(["lean"] + sorted({e["engine"] for e in c["engines"]})),
        "level_claimed": {
            "category": "proof",
            "text": TEXT.get(pid, c["statement"]),
            "design_ref": "DESIGN.md §5 " + pid,
        },
        "level_note": "Trusted: Lean 4.33 kernel (+ propext, Quot.sound, Classical.choice), the hand-written model, the correspondence harness. Assumed: " + ("; ".join(c.get("assumptions", [])) or "nothing further"),
        "technique": "Lean 4 theorem about a hand-written model (" + c["statement"] + "), tied to /repo by differential correspondence runs: " + ", ".join(sorted({e["engine"] for e in c["engines"]})),
    })
m = {
    "version": 1,
    "setup_cmd": "cd /verif/harness && CARGO_NET_OFFLINE=true cargo build --offline --quiet && CARGO_NET_OFFLINE=true cargo build --offline --quiet --no-default-features --target-dir target-nopar && CARGO_NET_OFFLINE=true cargo build --offline --quiet --profile nodebug --target-dir target-nodebug && cd /verif/lean && lake build ShredModel driver",
    "hooks": {
        "guard": "verif-hooks (cargo feature of shred)",
        "enable": "the harness depends on shred by path with features = [\"verif-hooks\"]; cargo build --features verif-hooks",
        "baseline_off_cmd": "cd /repo && cargo test --workspace --no-fail-fast --offline",
        "source_commits": ["c1396b8"],
        "add_only": True,
    },
    "engines": [
        {"name": "lean", "path": "/verif/lean", "serves_properties": sorted(PROPS), "kind_free_text": "Lean 4 model (ShredModel/Model), lemmas and per-property theorem files (ShredModel/Props/Cxx.lean); driver executable exposing the model over a line protocol"},
        {"name": "harness", "path": "/verif/harness", "serves_properties": sorted(PROPS), "kind_free_text": "Rust crate linking the real shred crate (path dep on /repo, hooks on): generators, harness systems, implementation-side oracles, differential against the Lean driver"},
    ],
    "checks": checks,
    "not_applicable": NOT_APPLICABLE,
    "notes": "Every check: (1) rebuilds the harness against /repo's working tree, (2) lake-builds and re-elaborates the property's theorem file with #print axioms, (3) runs the correspondence engines. Known findings: /verif/known_findings.json.",
}
json.dump(m, open(os.path.join(ROOT, "MANIFEST.json"), "w"), indent=1)
print("MANIFEST.json: %d checks, %d not applicable" % (len(checks), len(NOT_APPLICABLE)))
