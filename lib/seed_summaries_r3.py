import json, os
S = {
"C01-r3-1": ("add_barrier clears reads/writes of the stages it seals; fetch_all_reads/writes (add_batch) flatten those tables", "a batch whose inner builder has a barrier, and an outer system conflicting with a pre-barrier inner system"),
"C01-r3-2": ("insertion_target works on the [barrier..] slices and converts positions back, except in the Conflict::Single arm", "a barrier, then a system with exactly one conflicting group and a balance-improving hint"),
"C02-r3-1": ("add prunes dependencies implied by another entry of the same list — the wrong way round (drops the one that waits for the other)", "a dependency list containing a system together with one of that system's own dependencies"),
"C02-r3-2": ("insert drops every dependency whose group has a resource conflict with the new system ('the conflict keeps them apart')", "B depends on and conflicts with A, and A sits in a later stage than the first one B fits into"),
"C03-r3-1": ("add_barrier records the barrier only if cfg!(feature = \"parallel\")", "a build without the parallel feature, two stages in front of the barrier, an unrelated system behind it"),
"C03-r3-2": ("add_barrier only sets a pending flag that next_id() takes; a rejected add consumes it", "add_barrier, then a rejected add (caught), then further registrations"),
"C04-r3-1": ("AsyncDispatcher::wait runs thread-local systems only while it still holds the receiver", "dispatch, something that observes completion (running()/world()), then wait"),
"C04-r3-2": ("RunNow::run_now for Dispatcher forwards to the inner SendDispatcher", "a dispatcher with thread-local systems driven through RunNow"),
"C05-r3-1": ("add_batch extends the batch's write set with the controller's reads() instead of writes()", "a controller declaring a Write that no sub-system touches, an outer user of that resource"),
"C05-r3-2": ("Option<Write<T>> reports its id under reads()", "a system with Option<Write<R>> next to a reader of R"),
"C06-r3-1": ("ResourceId hashes only the type id and is Borrow<TypeId>; typed fetches look up by bare TypeId", "a value of the same type stored under a non-zero dynamic id"),
"C06-r3-2": ("try_fetch / try_fetch_mut answer None on a borrow conflict (typed-error refactor)", "an incompatible guard alive while an Option<Read/Write> member is fetched"),
"C07-r3-1": ("fetch_all_reads/writes return a running summary that the join-an-existing-group arm of insert does not update", "an inner system that joins an existing group (hints) and declares an id nothing else in the batch declares"),
"C07-r3-2": ("add_batch hoists the sub-dispatcher's thread-local systems into the parent", "a batch whose builder has a thread-local system, n != 1 or an observer behind the batch"),
"C08-r3-1": ("Fetch resolves the reference once and Clone is a plain copy without a borrow of its own", "shared fetch, clone, drop the original, exclusive fetch"),
"C08-r3-2": ("MetaTable::get / get_mut lose their explicit lifetime: the result borrows from the table, not from the guard", "compile-time only: keeping the trait object after the guard is dropped"),
"C09-r3-1": ("dense Vec storage with an index map; Entry::or_insert_with writes the index entry before calling the constructor", "the constructor panics (caught): stale index entry, later aliased by another insert"),
"C09-r3-2": ("has_value / try_fetch / try_fetch_mut / get_mut look the slot up by bare TypeId", "a type stored under a non-zero dynamic id and accessed through the typed API"),
"C10-r3-1": ("add_batch also appends the controller's reads() to the batch's writes", "a controller reading a resource that another system only reads"),
"C10-r3-2": ("remove_ids uses binary_search + swap_remove, which un-sorts the list", ">= 3 dependencies met in an order that un-sorts the list, and a later free stage"),
"C11-r3-1": ("AsyncDispatcher::dispatch queues behind an in-flight dispatch by parking the new job in rx.recv() on a pool worker", "back-to-back dispatch() calls, pool size == stage width, rendezvous"),
"C11-r3-2": ("add_pool installs a fresh pool slot instead of writing into the shared one", "a batch added before the final with_pool/add_pool call"),
"C12-r3-1": ("the async job returns world and stages from a drop guard, also while unwinding", "an ordinary system panics (pool with panic_handler), then wait(): thread-local systems run although later stages never ran"),
"C12-r3-2": ("AsyncDispatcher::wait takes the thread-local list out with mem::take while running it", "a thread-local system panics inside wait (caught), the dispatcher is reused"),
"C13-r3-1": ("RunNow for Dispatcher/SendDispatcher via a macro that forwards run_now and setup but not dispose", "a dispatcher nested as a thread-local system (or Box<dyn RunNow>) and disposed"),
"C13-r3-2": ("AsyncDispatcher::setup returns early while a dispatch is in flight", "setup() between dispatch() and its completion"),
"C14-r3-1": ("dispatch_thread_local moves the list out with mem::take and stores it back afterwards", "a thread-local system panics (caught), then a re-dispatch"),
"C14-r3-2": ("dispatch_par catches per stage and re-raises from the message: non-string payloads are replaced", "panic_any with a typed payload on a parallel entry point"),
"C15-r3-1": ("the job forwards a system's panic to the waiter, but the polling path (running()) discards it", "a panicking system, a later stage, completion observed through running() first"),
"C15-r3-2": ("dispatch() joins an in-flight dispatch with wait() instead of wait_without_tl()", "a thread-local system and a second dispatch while the first is still running"),
"C16-r3-1": ("a leaf's reads()/writes() ask Accessor::try_new() first and fall back to self.accessor()", "dynamic system data whose accessor type has a default and System::accessor overridden"),
"C16-r3-2": ("ParSeq remembers that it was set up", "a second setup (another world)"),
"C17-r3-1": ("MetaIter/MetaIterMut override nth (advancing by registered, not present, types)", "nth / skip / step_by with an absent registered type in the skipped range"),
"C17-r3-2": ("the address check is wrapped in a `static VERIFIED` inside the generic attach_vtable (shared by all instantiations)", "a good conversion first, then a bad one"),
"C18-r3-1": ("the duplicate check keeps the empty-name guard, the insert loses it: \"\" ends up in the name map", "an unnamed registration, then a dependency on \"\""),
"C18-r3-2": ("add_batch pre-validates and quotes the batch's own name for an unknown dependency", "a batch registration with an unknown dependency, message inspected"),
"C19-r3-1": ("u64 access-summary masks with bit = first-seen number % 64", "more than 64 distinct resources in one builder"),
"C19-r3-2": ("the pre-barrier remove_ids call sits inside debug_assert!", "a release-profile build, a barrier and a dependency in front of it"),
"C20-r3-1": ("add commits the system id only after stages_builder.insert returned", "a user callback (running_time / accessor) panics inside insert, the builder is reused"),
"C20-r3-2": ("write_par_seq writes names with Formatter::pad", "a format spec with precision or width ({:.3?}), e.g. inherited from an enclosing derive(Debug)"),
}
if __name__ == "__main__":
    for sid,(what,needs) in sorted(S.items()):
        f=os.path.join('/verif/seeded',sid,'meta.json')
        m=json.load(open(f))
        m['breaks']=m['property']; m['change']=what; m['needs_to_manifest']=needs
        json.dump(m,open(f,'w'),indent=1)
    print(len(S))
