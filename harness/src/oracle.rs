//! Implementation-side oracles: each property checked directly on what the real crate built
//! or did, without reference to the model. They turn a correspondence break into a concrete
//! failing input and are reported separately from model disagreements.
use crate::build::*;
use crate::gen::Res;
use crate::sys::Event;
use std::collections::{BTreeMap, BTreeSet};

pub fn conflicts(a: &Info, b: &Info) -> bool {
    a.w.iter().any(|x| b.w.contains(x) || b.r.contains(x)) || a.r.iter().any(|x| b.w.contains(x))
}
pub fn conflicts_rw(ar: &[Res], aw: &[Res], br: &[Res], bw: &[Res]) -> bool {
    aw.iter().any(|x| bw.contains(x) || br.contains(x)) || ar.iter().any(|x| bw.contains(x))
}

/// `name.replace([' ', '-', '/'], "_")`
pub fn sanitise(s: &str) -> String {
    s.chars().map(|c| if c == ' ' || c == '-' || c == '/' { '_' } else { c }).collect()
}

/// parse the `seq![ par![ seq![ name, .. ], .. ], .. ]` text
pub fn parse_par_seq(text: &str) -> Result<Vec<Vec<Vec<String>>>, String> {
    let mut out: Vec<Vec<Vec<String>>> = vec![];
    let mut lines = text.lines();
    if lines.next() != Some("seq![") {
        return Err("does not start with `seq![`".into());
    }
    let mut depth = 1;
    for l in lines {
        match (depth, l) {
            (1, "\tpar![") => {
                out.push(vec![]);
                depth = 2
            }
            (1, "]") => depth = 0,
            (2, "\t\tseq![") => {
                out.last_mut().unwrap().push(vec![]);
                depth = 3
            }
            (2, "\t],") => depth = 1,
            (3, "\t\t],") => depth = 2,
            (3, l) if l.starts_with("\t\t\t") && l.ends_with(',') => out.last_mut().unwrap().last_mut().unwrap().push(l[3..l.len() - 1].to_string()),
            (d, l) => return Err(format!("unexpected line {:?} at depth {}", l, d)),
        }
    }
    if depth != 0 {
        return Err("unterminated".into());
    }
    Ok(out)
}

/// what `add` must answer according to the property (C18), from the harness's own bookkeeping
pub fn expected_outcome(name: &str, deps: &[String], known: &BTreeMap<String, usize>) -> String {
    for d in deps {
        if !known.contains_key(d) {
            return format!("panic unknownDep {}", crate::common::hex(d));
        }
    }
    if !name.is_empty() && known.contains_key(name) {
        return format!("panic duplicateName {}", crate::common::hex(name));
    }
    "placed".into()
}

/// All layout-level oracles for one builder. Returns (property, description).
pub fn layout_oracles(key: Option<usize>, lay: &Layout, built: &Built, real_debug: Option<&Result<String, String>>, max_threads: Option<usize>) -> Vec<(String, String)> {
    let mut v: Vec<(String, String)> = vec![];
    let mut bad = |p: &str, s: String| v.push((p.to_string(), format!("builder {:?}: {}", key, s)));
    let empty = vec![];
    let order = built.order.get(&key).unwrap_or(&empty);
    let info = |t: &usize| built.infos.get(t).unwrap();
    // --- C18: outcome of every registration
    let mut known: BTreeMap<String, usize> = BTreeMap::new();
    for t in order {
        let i = info(t);
        if i.is_tl {
            continue;
        }
        let mut want = expected_outcome(&i.name, &i.deps, &known);
        if i.t == 0 && want == "placed" {
            // a well-formed registration of a system whose own `running_time()` panics: the
            // panic is the user's, not the builder's; the name is taken all the same
            want = "callback-panic".to_string();
        }
        if want != i.outcome {
            bad("C18", format!("registering tag {} (name {:?}, deps {:?}) gave `{}`, the property demands `{}`", t, i.name, i.deps, i.outcome, want));
        }
        if (i.placed || i.outcome == "callback-panic") && !i.name.is_empty() {
            known.insert(i.name.clone(), *t);
        }
    }
    let staged: Vec<usize> = order.iter().filter(|t| info(t).placed && !info(t).is_tl).cloned().collect();
    let tls: Vec<usize> = order.iter().filter(|t| info(t).is_tl).cloned().collect();
    // --- C04: every registered system exactly once in the executed layout
    let mut flat: Vec<usize> = lay.stages.iter().flatten().flatten().cloned().collect();
    let mut want = staged.clone();
    flat.sort();
    want.sort();
    if flat != want {
        bad("C04", format!("executed layout holds {:?}, registered were {:?}", flat, want));
        return v;
    }
    if lay.tl != tls {
        bad("C12", format!("thread-local systems run in order {:?}, registered in order {:?}", lay.tl, tls));
        bad("C04", format!("thread-local systems executed {:?}, registered {:?}", lay.tl, tls));
    }
    for st in &lay.stages {
        if st.is_empty() || st.iter().any(|g| g.is_empty()) {
            bad("C10", "a stage or group without systems".into());
        }
    }
    let mut pos: BTreeMap<usize, (usize, usize, usize)> = BTreeMap::new();
    for (s, st) in lay.stages.iter().enumerate() {
        for (g, gr) in st.iter().enumerate() {
            for (k, t) in gr.iter().enumerate() {
                pos.insert(*t, (s, g, k));
            }
        }
    }
    let regidx: BTreeMap<usize, usize> = order.iter().enumerate().map(|(i, t)| (*t, i)).collect();
    // --- C01 / C07: no conflicting pair in different groups of one stage
    for (s, st) in lay.stages.iter().enumerate() {
        for g1 in 0..st.len() {
            for g2 in g1 + 1..st.len() {
                for a in &st[g1] {
                    for b in &st[g2] {
                        if conflicts(info(a), info(b)) {
                            let p = if info(a).is_batch || info(b).is_batch { "C07" } else { "C01" };
                            bad(p, format!("stage {} runs {} (group {}) and {} (group {}) side by side although their access conflicts", s, a, g1, b, g2));
                            if p == "C07" {
                                bad("C01", format!("stage {} runs {} and {} side by side although their access conflicts (batch)", s, a, b));
                            }
                        }
                    }
                }
            }
        }
    }
    // --- C02: dependencies
    let mut names: BTreeMap<String, usize> = BTreeMap::new();
    for t in &staged {
        let i = info(t);
        for d in &i.deps {
            if let Some(a) = names.get(d) {
                let (sa, ga, ka) = pos[a];
                let (sb, gb, kb) = pos[t];
                let ok = sa < sb || (sa == sb && ga == gb && ka < kb);
                if !ok {
                    bad("C02", format!("{} depends on {} but is placed at {:?} while {} is at {:?}", t, a, (sb, gb, kb), a, (sa, ga, ka)));
                }
            }
        }
        if !i.name.is_empty() {
            names.insert(i.name.clone(), *t);
        }
    }
    // --- C03: barriers
    // (`staged` is in registration order, epochs never decrease along it: the latest stage reached by
    // the systems of all earlier epochs is a running maximum)
    let mut latest_before: BTreeMap<usize, (usize, usize)> = BTreeMap::new(); // epoch -> (latest stage, its system) over all earlier epochs
    {
        let mut run: Option<(usize, usize)> = None; // over epochs < current
        let mut cur: Option<(usize, usize)> = None; // within the current epoch
        let mut cur_epoch = usize::MAX;
        for t in &staged {
            let e = info(t).epoch;
            if e != cur_epoch {
                for c in cur.take() {
                    if run.map(|r| c.0 > r.0).unwrap_or(true) {
                        run = Some(c);
                    }
                }
                cur_epoch = e;
                if let Some(r) = run {
                    latest_before.insert(e, r);
                }
            }
            if cur.map(|c| pos[t].0 > c.0).unwrap_or(true) {
                cur = Some((pos[t].0, *t));
            }
        }
    }
    for b in &staged {
        if let Some((sa, a)) = latest_before.get(&info(b).epoch) {
            if *sa >= pos[b].0 {
                bad("C03", format!("{} was registered before a barrier and {} after it, but their stages are {} and {}", a, b, sa, pos[b].0));
            }
        }
    }
    // --- C10: every skipped stage is justified
    let mut depnames: BTreeMap<String, usize> = BTreeMap::new(); // names of the staged systems registered before x
    // names recorded by a registration that then failed inside the user's own callback: the name resolves,
    // but to a system that sits in no stage. The property says nothing about builders used after such a
    // failure; a system that depends on such a name is left out of this oracle
    let ghosts: BTreeSet<&String> = order.iter().map(|t| info(t)).filter(|i| i.outcome == "callback-panic" && !i.name.is_empty()).map(|i| &i.name).collect();
    for x in &staged {
        let ix = info(x);
        if ix.deps.iter().any(|d| ghosts.contains(d)) {
            if !ix.name.is_empty() {
                depnames.insert(ix.name.clone(), *x);
            }
            continue;
        }
        let first = latest_before.get(&ix.epoch).map(|(s, _)| s + 1).unwrap_or(0);
        let deps: Vec<usize> = ix.deps.iter().filter_map(|d| depnames.get(d).cloned()).collect();
        if !ix.name.is_empty() {
            depnames.insert(ix.name.clone(), *x);
        }
        for s in first..pos[x].0 {
            let conflict = lay.stages[s].iter().flatten().any(|a| regidx[a] < regidx[x] && conflicts(ix, info(a)));
            let dep = deps.iter().any(|a| pos[a].0 >= s);
            if !conflict && !dep {
                bad("C10", format!("{} sits in stage {} but nothing forces it past stage {} (first allowed stage {})", x, pos[x].0, s, first));
            }
        }
    }
    if let Some(mt) = max_threads {
        let width = lay.stages.iter().map(|s| s.len()).max().unwrap_or(0);
        if mt != width {
            bad("C10", format!("max_threads() = {} but the widest stage has {} groups", mt, width));
        }
    }
    // --- C20: printed plan, under the plain `{:?}` and under other format specs (a builder that is
    // a field of a `#[derive(Debug)]` struct inherits the caller's `#`, precision and width)
    // expected print per position: the sanitised name, or `None` for an unnamed system (any
    // placeholder `unnamed_system_<n>`, distinct systems distinct placeholders)
    let want: Vec<Vec<Vec<Option<String>>>> = lay
        .stages
        .iter()
        .map(|st| st.iter().map(|g| g.iter().map(|t| if info(t).name.is_empty() { None } else { Some(sanitise(&info(t).name)) }).collect()).collect())
        .collect();
    let agrees = |p: &Vec<Vec<Vec<String>>>| -> bool {
        if p.len() != want.len() {
            return false;
        }
        let mut seen: BTreeSet<String> = BTreeSet::new();
        for (ps, ws) in p.iter().zip(want.iter()) {
            if ps.len() != ws.len() {
                return false;
            }
            for (pg, wg) in ps.iter().zip(ws.iter()) {
                if pg.len() != wg.len() {
                    return false;
                }
                for (pn, wn) in pg.iter().zip(wg.iter()) {
                    match wn {
                        Some(n) => {
                            if pn != n {
                                return false;
                            }
                        }
                        None => {
                            let ok = pn.strip_prefix("unnamed_system_").map(|d| !d.is_empty() && d.chars().all(|c| c.is_ascii_digit())).unwrap_or(false);
                            if !ok || !seen.insert(pn.clone()) {
                                return false;
                            }
                        }
                    }
                }
            }
        }
        true
    };
    let mut texts: Vec<(String, &Result<String, String>)> = vec![];
    if let Some(dbg) = real_debug {
        texts.push(("{:?}".to_string(), dbg));
        if let Some(more) = built.real_debug_specs.get(&key) {
            for (spec, t) in more {
                texts.push((spec.clone(), t));
            }
        }
    }
    for (spec, dbg) in texts {
        match dbg {
            Err(m) => bad("C20", format!("formatting the builder with {} panicked: {}", spec, m)),
            Ok(text) => match parse_par_seq(text) {
                Err(e) => bad("C20", format!("plan printed with {} does not parse: {}", spec, e)),
                Ok(p) => {
                    if !agrees(&p) {
                        bad("C20", format!("plan printed with {} {:?} differs from the executed plan {:?} (None: an unnamed system, any placeholder unnamed_system_<n>, each a different one)", spec, p, want));
                    }
                }
            },
        }
    }
    v
}

/// oracles over one event log of one dispatch (top level), given the real layout
pub struct TraceFacts {
    pub overlaps_seen: usize,
}

pub fn window_oracles(log: &[Event], built: &Built, lay: &Layout, mode: &str) -> (Vec<(String, String)>, TraceFacts) {
    let mut v = vec![];
    let mut open: Vec<Vec<usize>> = vec![];
    let mut facts = TraceFacts { overlaps_seen: 0 };
    let tag_of = |inst: &Vec<usize>| *inst.last().unwrap();
    let is_prefix = |a: &Vec<usize>, b: &Vec<usize>| -> bool {
        // a is an enclosing batch instance of b
        b.len() > a.len() && b[..a.len()] == a[..]
    };
    let mut finished: BTreeSet<Vec<usize>> = BTreeSet::new();
    let mut started: BTreeMap<Vec<usize>, usize> = BTreeMap::new();
    for (k, e) in log.iter().enumerate() {
        match e.kind {
            'F' => {
                *started.entry(e.inst.clone()).or_insert(0) += 1;
                let me = built.infos.get(&tag_of(&e.inst));
                for o in &open {
                    if is_prefix(o, &e.inst) || is_prefix(&e.inst, o) {
                        continue;
                    }
                    facts.overlaps_seen += 1;
                    if let (Some(a), Some(b)) = (me, built.infos.get(&tag_of(o))) {
                        if conflicts(a, b) {
                            let p = if a.is_batch || b.is_batch || e.inst.len() != o.len() { "C07" } else { "C01" };
                            v.push((p.to_string(), format!("event {}: {} starts while {} is still inside its window and their access conflicts", k, e.inst_str(), o.iter().map(|x| x.to_string()).collect::<Vec<_>>().join("/"))));
                            if p == "C07" {
                                v.push(("C01".to_string(), format!("event {}: conflicting windows overlap (batch involved)", k)));
                            }
                        }
                    }
                }
                // C02 / C03 / C12 on same-level systems
                if let Some(b) = me {
                    let prefix = &e.inst[..e.inst.len() - 1];
                    let sibs = built.order.get(&b.parent).cloned().unwrap_or_default();
                    let done = |t: usize| -> bool {
                        let mut i = prefix.to_vec();
                        i.push(t);
                        finished.contains(&i)
                    };
                    // inner dispatch k of a batch begins only when inner dispatch k-1 is over: every
                    // placed system of the batch, thread-local ones included, has finished it
                    if prefix.len() >= 2 && prefix[prefix.len() - 1] > 0 {
                        let mut prev = prefix.to_vec();
                        let last = prev.len() - 1;
                        prev[last] -= 1;
                        for t in &sibs {
                            let i = &built.infos[t];
                            let mut inst = prev.clone();
                            inst.push(*t);
                            if i.placed && !finished.contains(&inst) {
                                v.push(("C07".into(), format!("event {}: {} (inner dispatch {}) begins to fetch although {} has not finished the inner dispatch before it", k, e.inst_str(), prefix[last], t)));
                                break;
                            }
                        }
                    }
                    // dependencies
                    let mut names: BTreeMap<String, usize> = BTreeMap::new();
                    for t in &sibs {
                        if *t == b.tag {
                            break;
                        }
                        let i = &built.infos[t];
                        if i.placed && !i.is_tl && !i.name.is_empty() {
                            names.insert(i.name.clone(), *t);
                        }
                    }
                    if !b.is_tl {
                        for d in &b.deps {
                            if let Some(a) = names.get(d) {
                                if !done(*a) {
                                    v.push(("C02".into(), format!("event {}: {} begins to fetch although its dependency {} has not finished", k, e.inst_str(), a)));
                                }
                            }
                        }
                        for t in &sibs {
                            let i = &built.infos[t];
                            if i.placed && !i.is_tl && i.epoch < b.epoch && !done(*t) {
                                v.push(("C03".into(), format!("event {}: {} (after a barrier) starts before {} (before it) has finished", k, e.inst_str(), t)));
                            }
                        }
                    } else {
                        // thread-local: all staged systems of this dispatcher are done, earlier thread-local ones too
                        for t in &sibs {
                            let i = &built.infos[t];
                            if !i.placed || *t == b.tag {
                                continue;
                            }
                            let earlier_tl = i.is_tl && sibs.iter().position(|x| x == t) < sibs.iter().position(|x| *x == b.tag);
                            if ((!i.is_tl && mode != "tlonly") || earlier_tl) && !done(*t) {
                                v.push(("C12".into(), format!("event {}: thread-local {} starts before {} has finished", k, e.inst_str(), t)));
                            }
                        }
                        if e.th != 'c' && b.parent.is_none() {
                            v.push(("C12".into(), format!("event {}: thread-local {} runs on thread kind '{}' instead of the caller", k, e.inst_str(), e.th)));
                        }
                        if e.th != 'c' && b.parent.is_some() {
                            v.push(("KF1".into(), format!("event {}: thread-local {} inside a batch runs on thread kind '{}'", k, e.inst_str(), e.th)));
                        }
                    }
                }
                open.push(e.inst.clone());
            }
            'D' | 'P' => {
                if let Some(i) = open.iter().position(|o| *o == e.inst) {
                    open.remove(i);
                } else {
                    v.push(("C04".into(), format!("event {}: {} {} without a matching fetch", k, e.kind, e.inst_str())));
                }
                if e.kind == 'D' {
                    finished.insert(e.inst.clone());
                }
            }
            _ => {}
        }
    }
    let _ = lay;
    (v, facts)
}
