//! Drives the real `DispatcherBuilder` and the Lean model with the same registrations and
//! recovers the layout the real dispatcher executes.
use crate::common::*;
use crate::gen::*;
use crate::sys::*;
use shred::*;
use std::collections::BTreeMap;
use std::panic::{catch_unwind, AssertUnwindSafe};
use std::sync::atomic::{AtomicUsize, Ordering::SeqCst};
use std::sync::Arc;

#[cfg(feature = "parallel")]
pub type Pool = Arc<rayon::ThreadPool>;
#[cfg(not(feature = "parallel"))]
pub type Pool = ();

#[cfg(feature = "parallel")]
pub fn make_pool(n: usize) -> Pool {
    Arc::new(rayon::ThreadPoolBuilder::new().num_threads(n).build().unwrap())
}
#[cfg(not(feature = "parallel"))]
pub fn make_pool(_n: usize) -> Pool {}

pub type Builder = DispatcherBuilder<'static, 'static>;

/// the builders of the next cases get no pool: `build()` (or the first `add_batch`) creates the
/// crate's default pool, sized by the crate from what the machine offers
pub static NO_POOL: std::sync::atomic::AtomicBool = std::sync::atomic::AtomicBool::new(false);

pub fn new_builder(pool: &Pool) -> Builder {
    #[cfg(feature = "parallel")]
    {
        if NO_POOL.load(SeqCst) {
            return DispatcherBuilder::new();
        }
        DispatcherBuilder::new().with_pool(pool.clone())
    }
    #[cfg(not(feature = "parallel"))]
    {
        let _ = pool;
        DispatcherBuilder::new()
    }
}

/// the outcome of one registration, in the vocabulary shared with the model
pub fn classify_add_panic(p: Box<dyn std::any::Any + Send>) -> String {
    let m = panic_message(&p);
    let quoted = |m: &str| -> String {
        let a = m.find("(\"").map(|i| i + 2).unwrap_or(0);
        let b = m.rfind("\")").unwrap_or(m.len());
        if a <= b { m[a..b].to_string() } else { String::new() }
    };
    if m.starts_with("harness running_time panic") {
        return "callback-panic".to_string();
    }
    if m.starts_with("No such system registered") {
        format!("panic unknownDep {}", hex(&quoted(&m)))
    } else if m.starts_with("Cannot insert multiple systems with the same name") {
        format!("panic duplicateName {}", hex(&quoted(&m)))
    } else {
        format!("panic other {}", hex(&m))
    }
}

#[derive(Clone, Debug, Default, PartialEq)]
pub struct Layout {
    pub stages: Vec<Vec<Vec<usize>>>,
    pub tl: Vec<usize>,
    pub inner: BTreeMap<usize, Layout>,
}
pub fn show_nested(t: &[Vec<Vec<usize>>]) -> String {
    format!(
        "[{}]",
        t.iter()
            .map(|st| format!("[{}]", st.iter().map(|g| format!("[{}]", g.iter().map(|x| x.to_string()).collect::<Vec<_>>().join(","))).collect::<Vec<_>>().join(",")))
            .collect::<Vec<_>>()
            .join(",")
    )
}
impl Layout {
    pub fn show(&self) -> String {
        let mut s = format!("sys={} tl=[{}]", show_nested(&self.stages), self.tl.iter().map(|x| x.to_string()).collect::<Vec<_>>().join(","));
        for (k, v) in &self.inner {
            s.push_str(&format!(" {{{}: {}}}", k, v.show()));
        }
        s
    }
    pub fn pos(&self, tag: usize) -> Option<(usize, usize, usize)> {
        for (s, st) in self.stages.iter().enumerate() {
            for (g, gr) in st.iter().enumerate() {
                if let Some(k) = gr.iter().position(|x| *x == tag) {
                    return Some((s, g, k));
                }
            }
        }
        None
    }
    pub fn nontrivial(&self) -> bool {
        self.stages.len() >= 2 || self.stages.iter().any(|st| st.iter().any(|g| g.len() >= 2)) || !self.inner.is_empty()
    }
}
pub fn parse_nested(s: &str) -> Vec<Vec<Vec<usize>>> {
    // "[[[0],[1,2]],[[3]]]"
    let mut out: Vec<Vec<Vec<usize>>> = vec![];
    let mut depth = 0;
    let mut num = String::new();
    for c in s.chars() {
        match c {
            '[' => {
                depth += 1;
                if depth == 2 {
                    out.push(vec![]);
                } else if depth == 3 {
                    out.last_mut().unwrap().push(vec![]);
                }
            }
            ']' | ',' => {
                if !num.is_empty() {
                    if depth == 3 {
                        out.last_mut().unwrap().last_mut().unwrap().push(num.parse().unwrap());
                    }
                    num.clear();
                }
                if c == ']' {
                    depth -= 1;
                }
            }
            d if d.is_ascii_digit() => num.push(d),
            _ => {}
        }
    }
    out
}

/// everything the engines need to know about one registered system
#[derive(Clone, Debug)]
pub struct Info {
    pub tag: usize,
    pub name: String,
    pub deps: Vec<String>,
    /// declared access (for a batch: the union of everything inside, computed by the harness itself)
    pub r: Vec<Res>,
    pub w: Vec<Res>,
    pub t: u8,
    pub is_batch: bool,
    pub is_tl: bool,
    pub placed: bool,
    /// registration index of the most recent barrier (number of barriers seen so far)
    pub epoch: usize,
    pub outcome: String,
    pub parent: Option<usize>,
    /// the `SystemId` the builder gave it (count of earlier `add` calls on the same builder)
    pub id: usize,
}

pub struct Built {
    pub builder: Option<Builder>,
    pub infos: BTreeMap<usize, Info>,
    /// per builder (None = top level, Some(tag) = inside that batch): tags in registration order
    pub order: BTreeMap<Option<usize>, Vec<usize>>,
    pub model_layouts: BTreeMap<Option<usize>, String>,
    pub model_debug: BTreeMap<Option<usize>, String>,
    pub real_debug: BTreeMap<Option<usize>, Result<String, String>>,
    /// the same builder formatted with other format specs (`{:#?}`, a precision, a width): (spec, text)
    pub real_debug_specs: BTreeMap<Option<usize>, Vec<(String, Result<String, String>)>>,
    pub diffs: Vec<String>,
    /// disagreements about `has_system` / `contains` (aspect `query`)
    pub qdiffs: Vec<String>,
    pub iters: BTreeMap<usize, Arc<AtomicUsize>>,
}

fn union(a: &mut Vec<Res>, b: &[Res]) {
    for x in b {
        if !a.contains(x) {
            a.push(*x);
        }
    }
}

pub struct BuildCtx<'d> {
    pub drv: Option<&'d mut Drv>,
    pub shared: Arc<Shared>,
    pub borrow: bool,
    pub out: Built,
}

impl<'d> BuildCtx<'d> {
    pub fn new(drv: Option<&'d mut Drv>, shared: Arc<Shared>, borrow: bool) -> Self {
        BuildCtx {
            drv,
            shared,
            borrow,
            out: Built {
                builder: None,
                infos: BTreeMap::new(),
                order: BTreeMap::new(),
                model_layouts: BTreeMap::new(),
                model_debug: BTreeMap::new(),
                real_debug: BTreeMap::new(),
                real_debug_specs: BTreeMap::new(),
                diffs: vec![],
                qdiffs: vec![],
                iters: BTreeMap::new(),
            },
        }
    }
    fn ask(&mut self, l: &str) -> Option<String> {
        self.drv.as_mut().map(|d| d.ask(l))
    }
    /// registers `ops` on `b` (and on the model); returns the union of the access declared inside
    pub fn run(&mut self, b: &mut Builder, ops: &[Op], parent: Option<usize>, path: &Path) -> (Vec<Res>, Vec<Res>) {
        let (mut ur, mut uw) = (vec![], vec![]);
        let mut epoch = 0;
        let mut next_id = 0usize;
        // names accepted so far by this builder: a registration the harness itself can see to be
        // well-formed is made through the chaining form (`with`, `with_batch`, ..) every third time
        let mut names: Vec<String> = vec![];
        let mut nth = 0usize;
        for op in ops {
            nth += 1;
            let chain = nth % 3 == 1;
            if nth % 4 == 2 && ops.len() <= 3000 {
                // a builder may be printed at any time while it is being filled (whatever
                // formatting remembers must not outlive the next registration)
                let _ = catch_unwind(AssertUnwindSafe(|| format!("{:?}", b)));
            }
            match op {
                Op::Barrier if chain => {
                    *b = std::mem::take(b).with_barrier();
                    self.ask("barrier");
                    epoch += 1;
                }
                Op::Barrier => {
                    b.add_barrier();
                    self.ask("barrier");
                    epoch += 1;
                }
                Op::Tl { tag, r, w } => {
                    let sys = HSys { acc: Acc { tag: *tag, decl_r: r.clone(), decl_w: w.clone(), shared: self.shared.clone(), path: path.clone(), borrow: self.borrow }, time: rt(3) };
                    if chain {
                        *b = std::mem::take(b).with_thread_local(sys);
                    } else {
                        b.add_thread_local(sys);
                    }
                    self.ask(&op.head_line());
                    self.out.infos.insert(*tag, Info { tag: *tag, name: String::new(), deps: vec![], r: r.clone(), w: w.clone(), t: 3, is_batch: false, is_tl: true, placed: true, epoch, outcome: "ok".into(), parent, id: usize::MAX });
                    self.out.order.entry(parent).or_default().push(*tag);
                }
                Op::Sys { tag, name, deps, r, w, t } => {
                    let sys = HSys { acc: Acc { tag: *tag, decl_r: r.clone(), decl_w: w.clone(), shared: self.shared.clone(), path: path.clone(), borrow: self.borrow }, time: rt(*t) };
                    let dr: Vec<&str> = deps.iter().map(|s| s.as_str()).collect();
                    let well_formed = (name.is_empty() || !names.contains(name)) && deps.iter().all(|d| names.contains(d));
                    // hint 0: this system's `running_time()` panics inside `add` (the caller goes on with the builder)
                    self.shared.behav[*tag].rt_panics.store(*t == 0, SeqCst);
                    let chain = chain && *t != 0;
                    let real = match catch_unwind(AssertUnwindSafe(|| {
                        if chain && well_formed {
                            *b = std::mem::take(b).with(sys, name, &dr)
                        } else {
                            b.add(sys, name, &dr)
                        }
                    })) {
                        Ok(()) => "placed".to_string(),
                        Err(p) => classify_add_panic(p),
                    };
                    if let Some(model) = self.ask(&op.head_line()) {
                        if model != real {
                            self.out.diffs.push(format!("registration of tag {}: real `{}` model `{}`", tag, real, model));
                        }
                    }
                    let id = next_id;
                    next_id += 1;
                    let placed = real == "placed";
                    if placed {
                        union(&mut ur, r);
                        union(&mut uw, w);
                    }
                    if (placed || real == "callback-panic") && !name.is_empty() {
                        // (a registration that failed in the user's callback has recorded its name already)
                        names.push(name.clone());
                    }
                    self.out.infos.insert(*tag, Info { tag: *tag, name: name.clone(), deps: deps.clone(), r: r.clone(), w: w.clone(), t: *t, is_batch: false, is_tl: false, placed, epoch, outcome: real, parent, id });
                    self.out.order.entry(parent).or_default().push(*tag);
                }
                Op::Batch { tag, name, deps, ctl, t, n, inner } => {
                    let mut ib: Builder = DispatcherBuilder::new();
                    self.ask("batch-begin");
                    let iter = Arc::new(AtomicUsize::new(0));
                    self.out.iters.insert(*tag, iter.clone());
                    let mut ipath = path.clone();
                    ipath.push((*tag, iter.clone()));
                    let (mut ir, mut iw) = self.run(&mut ib, inner, Some(*tag), &ipath);
                    self.finish(&ib, Some(*tag));
                    let (cr, cw) = CTL[*ctl];
                    union(&mut ir, cr);
                    union(&mut iw, cw);
                    let core = CtlCore { tag: *tag, n: *n, t: *t, shared: self.shared.clone(), path: path.clone(), iter };
                    self.shared.behav[*tag].is_multi.store(ctl_is_multi(*ctl), SeqCst);
                    let dr: Vec<&str> = deps.iter().map(|s| s.as_str()).collect();
                    let direct = self.shared.direct_multi.load(SeqCst);
                    let well_formed = (name.is_empty() || !names.contains(name)) && deps.iter().all(|d| names.contains(d));
                    let real = match catch_unwind(AssertUnwindSafe(|| match ctl {
                        0 if chain && well_formed => *b = std::mem::take(b).with_batch(Ctl0(core), ib, name, &dr),
                        2 if chain && well_formed => *b = std::mem::take(b).with_batch(Ctl2(core), ib, name, &dr),
                        9 if chain && well_formed && !direct => *b = std::mem::take(b).with_batch(MCtl(core, MultiDispatcher::new(Plan9(PlanCore::probing(*n, &self.shared, *tag)))), ib, name, &dr),
                        9 if direct => b.add_batch(MultiDispatcher::new(Plan9(PlanCore::fixed(*n))), ib, name, &dr),
                        10 if direct => b.add_batch(MultiDispatcher::new(Plan10(PlanCore::fixed(*n))), ib, name, &dr),
                        0 => b.add_batch(Ctl0(core), ib, name, &dr),
                        1 => b.add_batch(Ctl1(core), ib, name, &dr),
                        2 => b.add_batch(Ctl2(core), ib, name, &dr),
                        3 => b.add_batch(Ctl3(core), ib, name, &dr),
                        4 => b.add_batch(Ctl4(core), ib, name, &dr),
                        5 => b.add_batch(Ctl5(core), ib, name, &dr),
                        6 => b.add_batch(Ctl6(core), ib, name, &dr),
                        7 => b.add_batch(Ctl7(core), ib, name, &dr),
                        8 => b.add_batch(Ctl8(core), ib, name, &dr),
                        9 => b.add_batch(MCtl(core, MultiDispatcher::new(Plan9(PlanCore::probing(*n, &self.shared, *tag)))), ib, name, &dr),
                        _ => b.add_batch(MCtl(core, MultiDispatcher::new(Plan10(PlanCore::probing(*n, &self.shared, *tag)))), ib, name, &dr),
                    })) {
                        Ok(()) => "placed".to_string(),
                        Err(p) => classify_add_panic(p),
                    };
                    if let Some(model) = self.ask(&op.head_line()) {
                        if model != real {
                            self.out.diffs.push(format!("registration of batch {}: real `{}` model `{}`", tag, real, model));
                        }
                    }
                    let id = next_id;
                    next_id += 1;
                    let placed = real == "placed";
                    if placed {
                        union(&mut ur, &ir);
                        union(&mut uw, &iw);
                        if !name.is_empty() {
                            names.push(name.clone());
                        }
                    }
                    self.out.infos.insert(*tag, Info { tag: *tag, name: name.clone(), deps: deps.clone(), r: ir, w: iw, t: *t, is_batch: true, is_tl: false, placed, epoch, outcome: real, parent, id });
                    self.out.order.entry(parent).or_default().push(*tag);
                }
            }
        }
        (ur, uw)
    }
    /// after the last registration of a builder: Debug text and the model's layout
    pub fn finish(&mut self, b: &Builder, key: Option<usize>) {
        let real = catch_unwind(AssertUnwindSafe(|| format!("{:?}", b))).map_err(|p| panic_message(&p));
        self.out.real_debug.insert(key, real);
        let mut specs = vec![];
        specs.push(("{:#?}".to_string(), catch_unwind(AssertUnwindSafe(|| format!("{:#?}", b))).map_err(|p| panic_message(&p))));
        specs.push(("{:.3?}".to_string(), catch_unwind(AssertUnwindSafe(|| format!("{:.3?}", b))).map_err(|p| panic_message(&p))));
        specs.push(("{:>28?}".to_string(), catch_unwind(AssertUnwindSafe(|| format!("{:>28?}", b))).map_err(|p| panic_message(&p))));
        // a sink that reports an error part-way (a bounded log line): the print stops with Err, and
        // the next print of the builder - on the same thread - is complete and correct again
        struct Bounded(usize);
        impl std::fmt::Write for Bounded {
            fn write_str(&mut self, s: &str) -> std::fmt::Result {
                if s.len() > self.0 {
                    self.0 = 0;
                    return Err(std::fmt::Error);
                }
                self.0 -= s.len();
                Ok(())
            }
        }
        if let Some(Ok(full)) = self.out.real_debug.get(&key) {
            let len = full.len();
            let mut failed = Ok(());
            for cut in [len / 3, len / 2, len.saturating_sub(3), 17] {
                let r = catch_unwind(AssertUnwindSafe(|| {
                    use std::fmt::Write;
                    let _ = write!(Bounded(cut), "{:?}", b);
                }));
                if let Err(p) = r {
                    failed = Err(panic_message(&p));
                }
            }
            let again = match failed {
                Ok(()) => catch_unwind(AssertUnwindSafe(|| format!("{:?}", b))).map_err(|p| panic_message(&p)),
                Err(m) => Err(m),
            };
            specs.push(("{:?} (after prints into a sink that failed part-way)".to_string(), again));
        }
        self.out.real_debug_specs.insert(key, specs);
        if let Some(l) = self.ask("layout") {
            self.out.model_layouts.insert(key, l);
        }
        if let Some(l) = self.ask("debug") {
            self.out.model_debug.insert(key, unhex(&l));
        }
        // the builder's own queries (builder.rs l.116-131, l.201)
        if self.drv.is_some() {
            let mut probes: Vec<String> = self.out.infos.values().filter(|i| i.parent == key && !i.is_tl).map(|i| i.name.clone()).collect();
            probes.sort();
            probes.dedup();
            probes.truncate(4);
            let more: Vec<String> = probes.iter().map(|n| n.replace([' ', '-', '/'], "_")).collect();
            probes.extend(more);
            probes.push("no such system".into());
            probes.push(String::new());
            for n in probes {
                let real = format!("has={} contains={}", b.has_system(&n), b.contains(&n));
                if let Some(m) = self.ask(&format!("query {}", hex(&n))) {
                    if m != real {
                        self.out.qdiffs.push(format!("builder {:?}: queries about {:?}: real `{}` model `{}`", key, n, real, m));
                    }
                }
            }
        }
    }
}

/// the registrations of the next `build_case` are made from a destructor while the calling thread
/// unwinds (a teardown dispatcher built inside a `Drop`): set by the engine per case
pub static BUILD_UNWINDING: std::sync::atomic::AtomicBool = std::sync::atomic::AtomicBool::new(false);

pub fn build_case(ops: &[Op], drv: Option<&mut Drv>, shared: Arc<Shared>, pool: &Pool, borrow: bool) -> Built {
    let mut drv = drv;
    if let Some(d) = drv.as_mut() {
        d.ask(if cfg!(feature = "parallel") { "new" } else { "new nopar" });
    }
    let mut ctx = BuildCtx::new(drv, shared, borrow);
    let mut b = new_builder(pool);
    if BUILD_UNWINDING.load(SeqCst) {
        // (rejected registrations are caught inside `run`; nothing escapes)
        in_unwinding(|| {
            ctx.run(&mut b, ops, None, &vec![]);
            ctx.finish(&b, None);
        });
    } else {
        ctx.run(&mut b, ops, None, &vec![]);
        ctx.finish(&b, None);
    }
    ctx.out.builder = Some(b);
    ctx.out
}

/// One sequential identification run: which system sits where in the dispatcher that was built.
pub fn identify(d: &mut Dispatcher<'static, 'static>, shared: &Arc<Shared>, built: &Built) -> Result<Layout, String> {
    shared.reset_behaviour();
    shared.ident.store(true, SeqCst);
    shared.take_log();
    shared.shapes.lock().unwrap().clear();
    shared.set_caller();
    let w = full_world();
    let res = catch_unwind(AssertUnwindSafe(|| {
        d.dispatch_seq(&w);
        d.dispatch_thread_local(&w);
    }));
    shared.ident.store(false, SeqCst);
    let log = shared.take_log();
    shared.reset_state();
    if let Err(p) = res {
        return Err(format!("identification run panicked: {}", panic_message(&p)));
    }
    let top_shape = d.verif_shape();
    let shapes = shared.shapes.lock().unwrap().clone();
    // order of first fetch per builder
    let mut per: BTreeMap<Option<usize>, Vec<usize>> = BTreeMap::new();
    for e in &log {
        if e.kind == 'F' {
            let parent = if e.inst.len() >= 3 { Some(e.inst[e.inst.len() - 3]) } else { None };
            per.entry(parent).or_default().push(*e.inst.last().unwrap());
        }
    }
    fn assemble(key: Option<usize>, shape: &(Vec<Vec<usize>>, usize), per: &BTreeMap<Option<usize>, Vec<usize>>, shapes: &BTreeMap<usize, (Vec<Vec<usize>>, usize)>, built: &Built) -> Result<Layout, String> {
        let empty = vec![];
        let seq = per.get(&key).unwrap_or(&empty);
        let total: usize = shape.0.iter().map(|st| st.iter().sum::<usize>()).sum::<usize>() + shape.1;
        if seq.len() != total {
            return Err(format!("builder {:?}: shape hook reports {} systems but the sequential run started {} ({:?})", key, total, seq.len(), seq));
        }
        let mut it = seq.iter();
        let mut lay = Layout::default();
        for st in &shape.0 {
            let mut s = vec![];
            for &g in st {
                s.push((0..g).map(|_| *it.next().unwrap()).collect::<Vec<_>>());
            }
            lay.stages.push(s);
        }
        lay.tl = it.cloned().collect();
        for st in &lay.stages {
            for g in st {
                for tag in g {
                    if built.infos.get(tag).map(|i| i.is_batch).unwrap_or(false) {
                        let sh = shapes.get(tag).ok_or_else(|| format!("batch {} never ran", tag))?;
                        lay.inner.insert(*tag, assemble(Some(*tag), sh, per, shapes, built)?);
                    }
                }
            }
        }
        Ok(lay)
    }
    assemble(None, &top_shape, &per, &shapes, built)
}

/// the model's layout string for one builder → (ids table, executed table, thread-local, barrier, max_threads)
pub struct ModelLayout {
    pub ids: Vec<Vec<Vec<usize>>>,
    pub sys: Vec<Vec<Vec<usize>>>,
    pub tl: Vec<usize>,
    pub barrier: usize,
    pub maxthreads: usize,
}
pub fn parse_model_layout(s: &str) -> ModelLayout {
    let field = |k: &str| -> String {
        s.split_whitespace().find(|p| p.starts_with(k)).map(|p| p[k.len()..].to_string()).unwrap_or_default()
    };
    let tl = field("tl=");
    ModelLayout {
        ids: parse_nested(&field("ids=")),
        sys: parse_nested(&field("sys=")),
        tl: tl.trim_matches(|c| c == '[' || c == ']').split(',').filter(|x| !x.is_empty()).map(|x| x.parse().unwrap()).collect(),
        barrier: field("barrier=").parse().unwrap_or(0),
        maxthreads: field("maxthreads=").parse().unwrap_or(0),
    }
}
