//! shred-verif: correspondence harness between the real `shred` crate (path dependency on
//! /repo, hooks on) and the Lean model (driver executable). One sub-command per engine; every
//! engine writes a JSON report that `./check` turns into evidence and replay files.
mod build;
mod common;
mod engines;
mod gen;
mod oracle;
mod sys;

use common::*;

fn main() {
    let argv: Vec<String> = std::env::args().collect();
    let engine = argv.get(1).cloned().unwrap_or_default();
    let args = Args(argv[2.min(argv.len())..].to_vec());
    if !args.flag("show-panics") {
        std::panic::set_hook(Box::new(|_| {}));
    }
    let mut rep = Report::new(&engine, "");
    let t0 = std::time::Instant::now();
    match engine.as_str() {
        "plan" => engines::plan::run(&args, &mut rep),
        "sysdata" => engines::sysdata::run(&args, &mut rep),
        _ => {
            eprintln!("unknown engine {:?}", engine);
            std::process::exit(2);
        }
    }
    rep.extra.push(("wall_ms".into(), Json::n(t0.elapsed().as_millis() as u64)));
    rep.extra.push(("features".into(), Json::s(if cfg!(feature = "parallel") { "parallel" } else { "no-parallel" })));
    let out = args.str("out", "-");
    let text = rep.to_json().to_string();
    if out == "-" {
        println!("{}", text);
    } else {
        std::fs::write(&out, text).expect("write report");
    }
    std::process::exit(if rep.violations.is_empty() { 0 } else { 1 });
}
