//! Registration sequences: the `Op` tree, its line form (the same lines the Lean driver reads,
//! so a stored case replays on both sides) and the profile-driven generator.
use crate::common::*;

/// (type index 0..NTY, dynamic id)
pub type Res = (u8, u64);
pub const NTY: u8 = 6;
pub const NDY: u64 = 4;

pub const NCTL: usize = 11;
/// declared data of the batch-controller types the harness provides: (reads, writes), in
/// declaration order. 0..=8 hand-written controllers (`sys.rs::Ctl*`), 9 and 10 the library's
/// `MultiDispatcher` around a `MultiDispatchController` (`sys.rs::Plan*`).
pub const CTL: [(&[Res], &[Res]); NCTL] = [
    (&[], &[]),
    (&[(0, 0)], &[]),
    (&[], &[(1, 0)]),
    (&[(2, 0)], &[(0, 0)]),
    (&[(3, 0)], &[]),
    (&[], &[(4, 0)]),
    (&[], &[(4, 0), (5, 0)]),
    (&[], &[(5, 0), (4, 0)]),
    (&[(3, 0), (2, 0)], &[(1, 0)]),
    (&[], &[]),
    (&[(3, 0)], &[(5, 0)]),
];
/// resources a controller's data creates in `setup` (DefaultProvider members only)
pub const CTL_CREATES: [&[Res]; NCTL] = [&[], &[(0, 0)], &[(1, 0)], &[(2, 0), (0, 0)], &[], &[], &[(4, 0), (5, 0)], &[(5, 0), (4, 0)], &[(3, 0), (2, 0), (1, 0)], &[], &[(5, 0), (3, 0)]];
pub fn ctl_is_multi(ctl: usize) -> bool {
    ctl >= 9
}

#[derive(Clone, Debug, PartialEq)]
pub enum Op {
    Sys { tag: usize, name: String, deps: Vec<String>, r: Vec<Res>, w: Vec<Res>, t: u8 },
    Barrier,
    Tl { tag: usize, r: Vec<Res>, w: Vec<Res> },
    Batch { tag: usize, name: String, deps: Vec<String>, ctl: usize, t: u8, n: usize, inner: Vec<Op> },
}

pub fn resl(v: &[Res]) -> String {
    if v.is_empty() {
        "-".into()
    } else {
        v.iter().map(|(a, b)| format!("{}.{}", a, b)).collect::<Vec<_>>().join(",")
    }
}
pub fn parse_resl(s: &str) -> Vec<Res> {
    if s == "-" {
        return vec![];
    }
    s.split(',')
        .filter_map(|x| {
            let mut p = x.split('.');
            Some((p.next()?.parse().ok()?, p.next()?.parse().ok()?))
        })
        .collect()
}
fn parse_hexl(s: &str) -> Vec<String> {
    if s == "-" {
        vec![]
    } else {
        s.split(',').map(unhex).collect()
    }
}

impl Op {
    pub fn head_line(&self) -> String {
        match self {
            Op::Sys { tag, name, deps, r, w, t } => format!("sys {} {} {} {} {} {}", tag, hex(name), hexl(deps), resl(r), resl(w), t),
            Op::Barrier => "barrier".into(),
            Op::Tl { tag, r, w } => format!("tl {} {} {}", tag, resl(r), resl(w)),
            Op::Batch { tag, name, deps, ctl, t, n, .. } => {
                let (cr, cw) = CTL[*ctl];
                format!("batch-end {} {} {} {} {} {} {} {}", tag, hex(name), hexl(deps), ctl, resl(cr), resl(cw), t, n)
            }
        }
    }
    pub fn lines(ops: &[Op], out: &mut Vec<String>) {
        for op in ops {
            if let Op::Batch { inner, .. } = op {
                out.push("batch-begin".into());
                Op::lines(inner, out);
            }
            out.push(op.head_line());
        }
    }
    /// inverse of `lines` (lines that are not registrations are skipped)
    pub fn parse(lines: &[String]) -> Vec<Op> {
        let mut stack: Vec<Vec<Op>> = vec![vec![]];
        for l in lines {
            let p: Vec<&str> = l.split_whitespace().collect();
            match p.as_slice() {
                ["sys", tag, name, deps, r, w, t] => stack.last_mut().unwrap().push(Op::Sys {
                    tag: tag.parse().unwrap_or(0),
                    name: unhex(name),
                    deps: parse_hexl(deps),
                    r: parse_resl(r),
                    w: parse_resl(w),
                    t: t.parse().unwrap_or(3),
                }),
                ["barrier"] => stack.last_mut().unwrap().push(Op::Barrier),
                ["tl", tag, r, w] => stack.last_mut().unwrap().push(Op::Tl { tag: tag.parse().unwrap_or(0), r: parse_resl(r), w: parse_resl(w) }),
                ["batch-begin"] => stack.push(vec![]),
                ["batch-end", tag, name, deps, ctl, _r, _w, t, n] => {
                    let inner = if stack.len() > 1 { stack.pop().unwrap() } else { vec![] };
                    stack.last_mut().unwrap().push(Op::Batch {
                        tag: tag.parse().unwrap_or(0),
                        name: unhex(name),
                        deps: parse_hexl(deps),
                        ctl: ctl.parse::<usize>().unwrap_or(0) % NCTL,
                        t: t.parse().unwrap_or(5),
                        n: n.parse().unwrap_or(1),
                        inner,
                    })
                }
                _ => {}
            }
        }
        while stack.len() > 1 {
            let inner = stack.pop().unwrap();
            stack.last_mut().unwrap().extend(inner);
        }
        stack.pop().unwrap()
    }
    pub fn max_tag(ops: &[Op]) -> usize {
        ops.iter()
            .map(|o| match o {
                Op::Sys { tag, .. } | Op::Tl { tag, .. } => *tag,
                Op::Batch { tag, inner, .. } => (*tag).max(Op::max_tag(inner)),
                Op::Barrier => 0,
            })
            .max()
            .unwrap_or(0)
    }
    pub fn count(ops: &[Op]) -> usize {
        ops.iter().map(|o| if let Op::Batch { inner, .. } = o { 1 + Op::count(inner) } else { 1 }).sum()
    }
    pub fn has_tl_in_batch(ops: &[Op], inside: bool) -> bool {
        ops.iter().any(|o| match o {
            Op::Tl { .. } => inside,
            Op::Batch { inner, .. } => Op::has_tl_in_batch(inner, true),
            _ => false,
        })
    }
    pub fn depth(ops: &[Op]) -> usize {
        ops.iter().map(|o| if let Op::Batch { inner, .. } = o { 1 + Op::depth(inner) } else { 0 }).max().unwrap_or(0)
    }
}

#[derive(Clone, Debug)]
pub struct GenCfg {
    pub max_n: u64,
    pub p_barrier: u64,
    pub p_dep: u64,
    pub max_deps: u64,
    pub p_batch: u64,
    pub max_depth: usize,
    pub p_tl: u64,
    pub p_dup_name: u64,
    pub p_unknown_dep: u64,
    pub p_empty_name: u64,
    pub p_odd_name: u64,
    /// declared lists may contain repetitions / the same id under reads and writes
    pub messy_decl: bool,
    pub tl_in_batch: bool,
    /// thread-local systems inside batches declare nothing (no borrow conflict can come of them)
    pub tl_in_batch_quiet: bool,
    pub funnel: bool,
    /// no resources at all: only dependencies / barriers order things
    pub p_unrelated: u64,
    pub max_batch_n: u64,
    /// a universe of about a hundred distinct resources (dynamic ids up to 17); only for engines
    /// that do not fetch (plan, invariance)
    pub many_res: bool,
    /// a registration whose `running_time()` callback panics inside `add` (hint 0); nothing may
    /// depend on such a system, its name stays taken
    pub p_callback_panic: u64,
    /// scale: the case starts with this many (lo, hi) systems without resources - one stage that
    /// is hundreds of groups wide - before the generated part
    pub prefix_wide: (u64, u64),
    /// scale: the case starts with this many (lo, hi) `system; barrier` pairs - hundreds of
    /// effective barriers, hundreds of stages - before the generated part
    pub prefix_deep: (u64, u64),
    /// long declared lists (up to ten ids per system, from a lane of private resources) so that
    /// the accumulated lists of a group outgrow any small inline buffer
    pub fat: bool,
    /// names are the empty string, the spelling of a placeholder (`unnamed_system_<k>` for this or
    /// one of the next registrations) or plain, in about equal parts; no batches / thread-local
    /// systems, so that tags are the builder's ids
    pub placeholder_names: bool,
    /// the case starts with a batch in which a system joins an existing group (hints) and is the
    /// only one of the batch to declare some id, followed by an outer system that touches that id
    pub join_batch: bool,
    /// the case starts with: a system, a registration that is rejected (unknown dependency or a taken
    /// name), more systems, a barrier, a system, then dependents of the last systems before the barrier
    pub rejected_then_barrier: bool,
}
impl GenCfg {
    pub fn base() -> GenCfg {
        GenCfg {
            max_n: 14,
            p_barrier: 10,
            p_dep: 40,
            max_deps: 3,
            p_batch: 8,
            max_depth: 2,
            p_tl: 8,
            p_dup_name: 0,
            p_unknown_dep: 0,
            p_empty_name: 10,
            p_odd_name: 10,
            messy_decl: false,
            tl_in_batch: false,
            tl_in_batch_quiet: false,
            funnel: false,
            p_unrelated: 10,
            max_batch_n: 3,
            many_res: false,
            p_callback_panic: 0,
            prefix_wide: (0, 0),
            prefix_deep: (0, 0),
            fat: false,
            placeholder_names: false,
            join_batch: false,
            rejected_then_barrier: false,
        }
    }
    pub fn profile(name: &str) -> GenCfg {
        let mut c = GenCfg::base();
        match name {
            "plan" => {
                c.messy_decl = true;
                c.p_dup_name = 3;
                c.p_unknown_dep = 3;
            }
            "deps" => {
                c.p_dep = 65;
                c.p_unrelated = 35;
                c.p_barrier = 12;
            }
            "barriers" => {
                c.p_barrier = 28;
                c.p_unrelated = 60;
                c.p_dep = 10;
            }
            "funnel" => {
                c.funnel = true;
                c.p_batch = 2;
                c.p_barrier = 3;
                c.p_dep = 10;
                c.messy_decl = true;
            }
            "batch" => {
                c.p_batch = 30;
                c.max_depth = 3;
                c.max_n = 8;
            }
            "malformed" => {
                c.p_callback_panic = 6;
                c.messy_decl = true;
                c.p_dup_name = 12;
                c.p_unknown_dep = 12;
                c.p_empty_name = 25;
                c.p_odd_name = 25;
            }
            "tl" => {
                c.p_tl = 30;
            }
            "flat" => {
                c.p_batch = 0;
            }
            "wide" => {
                // many mutually independent systems: wide stages
                c.max_n = 26;
                c.p_unrelated = 75;
                c.p_dep = 5;
                c.p_barrier = 4;
                c.p_batch = 4;
                c.p_tl = 3;
            }
            "manyres" => {
                c.many_res = true;
                c.p_batch = 4;
                c.p_barrier = 12;
                c.max_n = 16;
                c.p_barrier = 4;
                c.p_unrelated = 0;
                c.messy_decl = true;
            }
            "vwide" => {
                c.prefix_wide = (250, 330);
                c.max_n = 12;
                c.p_batch = 0;
                c.p_unrelated = 5;
                c.p_barrier = 0;
                c.p_tl = 0;
                c.p_dep = 15;
            }
            "deep" => {
                c.prefix_deep = (250, 600);
                c.max_n = 10;
                c.p_batch = 0;
                c.p_barrier = 15;
                c.p_tl = 0;
            }
            "fat" => {
                c.fat = true;
                c.many_res = false;
                c.p_batch = 3;
                c.p_barrier = 3;
                c.p_dep = 8;
                c.p_tl = 0;
                c.max_n = 18;
            }
            "rejbar" => {
                c.rejected_then_barrier = true;
                c.p_batch = 3;
                c.p_tl = 3;
                c.max_n = 6;
                c.p_unknown_dep = 6;
                c.p_dup_name = 6;
            }
            "joinbatch" => {
                c.join_batch = true;
                c.p_batch = 10;
                c.max_n = 6;
                c.p_tl = 0;
            }
            "phname" => {
                c.placeholder_names = true;
                c.p_batch = 0;
                c.p_tl = 0;
                c.p_dep = 60;
                c.p_barrier = 4;
                c.p_unrelated = 50;
                c.p_dup_name = 4;
                c.max_n = 10;
            }
            "tlbatch" => {
                c.tl_in_batch = true;
                c.tl_in_batch_quiet = true;
                c.p_batch = 35;
                c.p_tl = 30;
            }
            "kf1" => {
                c.tl_in_batch = true;
                c.p_batch = 30;
                c.p_tl = 25;
            }
            _ => {}
        }
        c
    }
}

pub struct Gen {
    pub rng: Rng,
    pub cfg: GenCfg,
    pub next_tag: usize,
    pub nty: u64,
    pub ndy: u64,
    pub density: u64,
    /// every system of the case is registered under the empty name (the name map stays empty,
    /// so `is_empty()` / `num_systems()` say "no systems")
    pub all_unnamed: bool,
    /// how far the motif of the `fat` profile has got
    pub fat_step: u8,
}
impl Gen {
    pub fn new(rng: Rng, cfg: GenCfg) -> Gen {
        let mut g = Gen { rng, cfg, next_tag: 0, nty: 1, ndy: 1, density: 3, all_unnamed: false, fat_step: 0 };
        g.all_unnamed = g.rng.chance(8);
        g.nty = 1 + g.rng.below(NTY as u64);
        g.ndy = 1 + g.rng.below(if g.nty <= 2 { NDY } else { 2 });
        g.density = 3 + g.rng.below(6);
        if g.cfg.many_res {
            // 72-108 resources; a first system that names most of them (then a barrier), the
            // others touch one to three each: mostly independent systems in a builder that has
            // seen more than 64 distinct resources
            g.nty = NTY as u64;
            g.ndy = 12 + g.rng.below(7);
        }
        g
    }
    fn name(&mut self, tag: usize) -> String {
        let c = self.rng.below(100);
        if self.all_unnamed && !self.cfg.placeholder_names {
            return String::new();
        }
        if self.cfg.placeholder_names {
            return match self.rng.below(5) {
                0 | 1 => String::new(),
                2 | 3 => format!("unnamed_system_{}", tag + self.rng.below(3) as usize),
                _ => format!("s{}", tag),
            };
        }
        if c < self.cfg.p_empty_name {
            String::new()
        } else if c < self.cfg.p_empty_name + self.cfg.p_odd_name {
            match self.rng.below(8) {
                // longer than any small inline buffer
                6 => format!("a rather long system name, the kind std::any::type_name produces: crate::module::sub::System<{}>::with::more::path::segments", tag),
                // nothing but whitespace (still a name: it is not the empty string)
                7 => [" ", "  ", " \t", "\t"][tag % 4].to_string(),
                // characters that `{:?}` would escape (the panic messages quote names with `"{}"`)
                5 => format!("q\"{}\\t\t{}", tag, tag),
                0 => format!("sys {}-x/{}", tag, tag),
                1 => format!("s\u{e9}-{} /", tag),
                // the spelling of the placeholder an unnamed system is printed under: of this system, or of
                // one of the next few registrations (which may well be unnamed)
                2 => format!("unnamed_system_{}", tag + (self.rng.below(4) as usize) * (self.rng.below(2) as usize)),
                // distinct names that coincide once sanitised (' ', '-', '/' become '_')
                _ => format!("c{}{}", *self.rng.pick(&[' ', '-', '/', '_']), self.rng.below(2)),
            }
        } else {
            format!("s{}", tag)
        }
    }
    fn access(&mut self) -> (Vec<Res>, Vec<Res>) {
        let (mut r, mut w) = (vec![], vec![]);
        if self.cfg.many_res {
            for _ in 0..1 + self.rng.below(3) {
                let x: Res = (self.rng.below(self.nty) as u8, self.rng.below(self.ndy));
                if self.rng.chance(50) {
                    if !w.contains(&x) {
                        w.push(x)
                    }
                } else if !r.contains(&x) {
                    r.push(x)
                }
            }
            return (r, w);
        }
        if self.cfg.fat {
            // a lane of six private resources. Three kinds of member: wide (writes two or three
            // ids, declared seven to ten times over, and reads one or two others), narrow writer
            // (one or two ids), narrow reader (one or two ids): a group's lists grow past ten /
            // twelve entries while single ids change from read-by-the-group to
            // written-by-the-group, and late readers probe them
            // the first members of lane 0 follow a motif (others, of lane 1, may come in between):
            // a wide member that reads X, a writer of X (and up to two more ids), a reader of X
            if self.fat_step < 3 && self.rng.chance(70) {
                self.fat_step += 1;
                match self.fat_step {
                    1 => {
                        for i in 0..6 + self.rng.below(6) as usize {
                            w.push((0, 1 + (i % 3) as u64));
                        }
                        r.push((0, 0));
                        if self.rng.chance(40) {
                            r.push((0, 4));
                        }
                    }
                    2 => {
                        w.push((0, 0));
                        for d in 0..self.rng.below(3) {
                            w.push((0, 4 + d % 2));
                        }
                    }
                    _ => r.push((0, 0)),
                }
                return (r, w);
            }
            let lane = if self.fat_step < 3 { 1 } else { self.rng.below(2) as u8 };
            let mut ids: Vec<u64> = (0..6).collect();
            self.rng.shuffle(&mut ids);
            match self.rng.below(10) {
                0..=2 => {
                    let nw = 2 + self.rng.below(2) as usize;
                    for i in 0..7 + self.rng.below(4) as usize {
                        w.push((lane, ids[i % nw]));
                    }
                    for d in &ids[nw..nw + 1 + self.rng.below(2) as usize] {
                        r.push((lane, *d));
                    }
                    if self.rng.chance(30) {
                        // the same the other way round: a long read list
                        std::mem::swap(&mut r, &mut w);
                        for i in 0..6 {
                            let x = r[i % r.len()];
                            r.push(x);
                        }
                    }
                }
                3..=5 => {
                    for d in &ids[..1 + self.rng.below(2) as usize] {
                        w.push((lane, *d));
                    }
                }
                _ => {
                    for d in &ids[..1 + self.rng.below(2) as usize] {
                        r.push((lane, *d));
                    }
                }
            }
            return (r, w);
        }
        if self.rng.chance(self.cfg.p_unrelated) {
            return (r, w);
        }
        for ty in 0..self.nty {
            for dy in 0..self.ndy {
                match self.rng.below(self.density) {
                    0 => r.push((ty as u8, dy)),
                    1 => w.push((ty as u8, dy)),
                    2 if self.cfg.messy_decl && self.rng.chance(25) => {
                        r.push((ty as u8, dy));
                        if self.rng.chance(50) {
                            r.push((ty as u8, dy))
                        } else {
                            w.push((ty as u8, dy))
                        }
                    }
                    _ => {}
                }
            }
        }
        if self.cfg.messy_decl && self.rng.chance(20) && !w.is_empty() {
            let x = *self.rng.pick(&w);
            w.push(x);
        }
        if self.rng.chance(50) {
            r.reverse();
        }
        if self.rng.chance(30) {
            self.rng.shuffle(&mut w);
        }
        (r, w)
    }
    fn time(&mut self) -> u8 {
        if self.cfg.fat {
            return if self.rng.chance(85) { 1 } else { 2 };
        }
        if self.rng.chance(55) {
            1
        } else {
            1 + self.rng.below(5) as u8
        }
    }
    pub fn ops(&mut self, n: usize, depth: usize, names: &mut Vec<String>) -> Vec<Op> {
        let mut v = vec![];
        if self.cfg.many_res && depth == 0 {
            // the first system declares 66 or more distinct resources, in a random order
            let mut all: Vec<Res> = (0..self.nty).flat_map(|t| (0..self.ndy).map(move |d| (t as u8, d))).collect();
            self.rng.shuffle(&mut all);
            let take = 66 + self.rng.below((all.len() - 66) as u64 + 1) as usize;
            all.truncate(take);
            let cut = self.rng.below(all.len() as u64) as usize;
            let (w, r) = (all[..cut].to_vec(), all[cut..].to_vec());
            let tag = self.next_tag;
            self.next_tag += 1;
            v.push(Op::Sys { tag, name: format!("init{}", tag), deps: vec![], r, w, t: 3 });
            v.push(Op::Barrier);
        }
        if depth == 0 && self.cfg.prefix_wide.1 > 0 {
            let (lo, hi) = self.cfg.prefix_wide;
            for _ in 0..lo + self.rng.below(hi - lo + 1) {
                let tag = self.next_tag;
                self.next_tag += 1;
                let t = self.time();
                v.push(Op::Sys { tag, name: format!("w{}", tag), deps: vec![], r: vec![], w: vec![], t });
            }
            // the generated part may depend on the last few of them (groups with a high index)
            for tag in self.next_tag.saturating_sub(3)..self.next_tag {
                names.push(format!("w{}", tag));
            }
        }
        if depth == 0 && self.cfg.prefix_deep.1 > 0 {
            let (lo, hi) = self.cfg.prefix_deep;
            for _ in 0..lo + self.rng.below(hi - lo + 1) {
                let tag = self.next_tag;
                self.next_tag += 1;
                v.push(Op::Sys { tag, name: format!("d{}", tag), deps: vec![], r: vec![], w: vec![], t: 1 });
                v.push(Op::Barrier);
            }
        }
        if self.cfg.rejected_then_barrier && depth == 0 {
            let mut tags = vec![];
            for _ in 0..8 {
                tags.push(self.next_tag);
                self.next_tag += 1;
            }
            let plain = |tag: usize, deps: Vec<String>, g: &mut Gen| -> Op {
                let (r, w) = if g.rng.chance(60) { (vec![], vec![]) } else { g.access() };
                Op::Sys { tag, name: format!("s{}", tag), deps, r, w, t: g.time() }
            };
            v.push(plain(tags[0], vec![], self));
            // one or two rejected registrations (each uses up an id)
            for k in 0..1 + self.rng.below(2) as usize {
                if self.rng.chance(50) {
                    v.push(Op::Sys { tag: tags[1 + k], name: format!("s{}", tags[1 + k]), deps: vec![format!("nope{}", k)], r: vec![], w: vec![], t: 1 });
                } else {
                    v.push(Op::Sys { tag: tags[1 + k], name: format!("s{}", tags[0]), deps: vec![], r: vec![], w: vec![], t: 1 });
                }
            }
            v.push(plain(tags[3], vec![], self));
            v.push(plain(tags[4], vec![], self));
            v.push(Op::Barrier);
            v.push(plain(tags[5], vec![], self));
            // dependents of the last systems in front of the barrier
            v.push(plain(tags[6], vec![format!("s{}", tags[4])], self));
            v.push(plain(tags[7], vec![format!("s{}", tags[3]), format!("s{}", tags[4])], self));
            for t in [tags[0], tags[3], tags[4], tags[5], tags[6], tags[7]] {
                names.push(format!("s{}", t));
            }
        }
        if self.cfg.join_batch && depth == 0 {
            let mut tag = || {
                let t = self.next_tag;
                self.next_tag += 1;
                t
            };
            let (bt, t0, t1, t2, t3) = (tag(), tag(), tag(), tag(), tag());
            let u: Res = (3, self.rng.below(NDY));
            let a: Res = (1, self.rng.below(NDY));
            let write_u = self.rng.chance(50);
            // inner: a long system opens the stage; two short ones that conflict with each other share
            // a group; the second of them alone declares `u`
            let mut inner = vec![
                Op::Sys { tag: t0, name: format!("s{}", t0), deps: vec![], r: vec![], w: vec![(2, 0)], t: 5 },
                Op::Sys { tag: t1, name: format!("s{}", t1), deps: vec![], r: vec![], w: vec![a], t: 1 },
                Op::Sys { tag: t2, name: format!("s{}", t2), deps: vec![], r: if write_u { vec![] } else { vec![u] }, w: if write_u { vec![a, u] } else { vec![a] }, t: 1 },
            ];
            if self.rng.chance(40) {
                inner.swap(0, 1);
                inner.swap(1, 2);
            }
            let ctl = if self.rng.chance(35) { 9 } else { 0 };
            let batch = Op::Batch { tag: bt, name: format!("s{}", bt), deps: vec![], ctl, t: 1 + self.rng.below(5) as u8, n: 1 + self.rng.below(2) as usize, inner };
            // an outer system that conflicts with the batch through `u` only
            let outer = Op::Sys { tag: t3, name: format!("s{}", t3), deps: vec![], r: if write_u && self.rng.chance(50) { vec![u] } else { vec![] }, w: if write_u && self.rng.chance(50) { vec![] } else { vec![u] }, t: 1 + self.rng.below(5) as u8 };
            let outer = match outer {
                Op::Sys { tag, name, deps, r, w, t } if r.is_empty() && w.is_empty() => Op::Sys { tag, name, deps, r: vec![], w: vec![u], t },
                o => o,
            };
            if self.rng.chance(50) {
                v.push(batch);
                v.push(outer);
            } else {
                v.push(outer);
                v.push(batch);
            }
            names.push(format!("s{}", bt));
            names.push(format!("s{}", t3));
        }
        if self.cfg.fat && depth == 0 {
            // a long system opens the stage, so that the others may join groups
            let tag = self.next_tag;
            self.next_tag += 1;
            v.push(Op::Sys { tag, name: format!("heavy{}", tag), deps: vec![], r: vec![], w: vec![(5u8, 0u64)], t: 5 });
        }
        for k in 0..n {
            let c = self.rng.below(100);
            if c < self.cfg.p_barrier {
                v.push(Op::Barrier);
                if self.rng.chance(15) {
                    v.push(Op::Barrier);
                }
                continue;
            }
            let tag = self.next_tag;
            self.next_tag += 1;
            if self.rng.chance(self.cfg.p_tl) && (depth == 0 || self.cfg.tl_in_batch) {
                let (r, w) = if depth > 0 && self.cfg.tl_in_batch_quiet { (vec![], vec![]) } else { self.access() };
                v.push(Op::Tl { tag, r, w });
                continue;
            }
            let mut name = self.name(tag);
            if self.rng.chance(self.cfg.p_dup_name) && !names.is_empty() {
                name = self.rng.pick(names).clone();
            }
            let mut deps = vec![];
            if self.rng.chance(self.cfg.p_dep) && !names.is_empty() {
                for _ in 0..1 + self.rng.below(self.cfg.max_deps) {
                    deps.push(self.rng.pick(names).clone());
                }
                if self.rng.chance(15) {
                    let d = deps[0].clone();
                    deps.push(d);
                }
            }
            if self.rng.chance(self.cfg.p_unknown_dep) {
                let at = self.rng.below(deps.len() as u64 + 1) as usize;
                // the empty name is never a registered name, however many unnamed systems there are
                deps.insert(at, if self.rng.chance(30) { String::new() } else { format!("nope{}", tag) });
                if self.rng.chance(30) {
                    deps.push(format!("nada {}", tag));
                }
            }
            let t = self.time();
            if self.rng.chance(self.cfg.p_batch) && depth < self.cfg.max_depth {
                let kk = self.rng.below(5) as usize;
                let mut inner_names = vec![];
                let inner = self.ops(kk, depth + 1, &mut inner_names);
                let nn = self.rng.below(self.cfg.max_batch_n + 1) as usize;
                // a third of the batches are driven by the library's own MultiDispatcher
                let ctl = if self.rng.chance(35) { 9 + self.rng.below(2) as usize } else { self.rng.below(9) as usize };
                v.push(Op::Batch { tag, name: name.clone(), deps, ctl, t, n: nn, inner });
            } else if self.cfg.funnel {
                // one long system opens a stage; the rest are short and mostly conflict with one
                // group, so groups fill up; members read several ids of a pool that a few late
                // systems write (a write against the *accumulated* reads of a multi-member group)
                let pool = |g: &mut Gen| -> Res { (3 + g.rng.below(3) as u8, g.rng.below(NDY)) };
                let (r, w, t) = if k % 9 == 0 {
                    (vec![], vec![(0u8, 0u64)], 5u8)
                } else if self.rng.chance(15) {
                    (vec![], vec![pool(self)], 1u8)
                } else {
                    let lane = 1 + self.rng.below(3) as u8;
                    let mut r = if self.rng.chance(20) { vec![(lane, 1)] } else { vec![] };
                    for _ in 0..self.rng.below(5) {
                        let x = pool(self);
                        if !r.contains(&x) {
                            r.push(x);
                        }
                    }
                    // mostly very short; an occasional long member lets a group overshoot the stage maximum
                    let t = if self.rng.chance(15) { 5u8 } else { 1u8 };
                    (r, vec![(lane, 0)], t)
                };
                v.push(Op::Sys { tag, name: name.clone(), deps, r, w, t });
            } else {
                let (mut r, mut w) = self.access();
                let mut t = t;
                // a twin of the system registered just before (same declared access, same hint)
                if self.rng.chance(12) {
                    if let Some(Op::Sys { r: pr, w: pw, t: pt, .. }) = v.iter().rev().find(|o| matches!(o, Op::Sys { .. })) {
                        r = pr.clone();
                        w = pw.clone();
                        t = if *pt == 0 { 3 } else { *pt };
                    }
                }
                if self.rng.chance(self.cfg.p_callback_panic) {
                    v.push(Op::Sys { tag, name: name.clone(), deps, r, w, t: 0 });
                    continue;
                }
                v.push(Op::Sys { tag, name: name.clone(), deps, r, w, t });
            }
            if !name.is_empty() && !names.contains(&name) {
                names.push(name);
            }
        }
        v
    }
    pub fn case(&mut self) -> Vec<Op> {
        let n = 1 + self.rng.below(self.cfg.max_n) as usize;
        let mut names = vec![];
        self.ops(n, 0, &mut names)
    }
}
