//! Harness systems: self-identifying systems with a dynamic accessor that really borrow what
//! they fetch, log fetch / drop / panic events on one totally ordered log, count their
//! lifecycle hooks, update what they write with an order-sensitive mix, and can be held
//! inside `run`, made to rendezvous with siblings or made to panic.
use crate::gen::{Res, NDY, NTY};
use shred::*;
use std::collections::BTreeMap;
use std::sync::atomic::{AtomicBool, AtomicU64, AtomicUsize, Ordering::SeqCst};
use std::sync::{Arc, Mutex};
use std::thread::ThreadId;
use std::time::{Duration, Instant};

/// six distinct resource types
#[derive(Default, Debug, Clone, PartialEq)]
pub struct R<const K: usize>(pub u64);

macro_rules! by_ty {
    ($ty:expr, $k:ident => $e:expr) => {
        match $ty {
            0 => { const $k: usize = 0; $e }
            1 => { const $k: usize = 1; $e }
            2 => { const $k: usize = 2; $e }
            3 => { const $k: usize = 3; $e }
            4 => { const $k: usize = 4; $e }
            _ => { const $k: usize = 5; $e }
        }
    };
}
pub(crate) use by_ty;

pub fn rid(r: Res) -> ResourceId {
    by_ty!(r.0, K => ResourceId::new_with_dynamic_id::<R<K>>(r.1))
}
pub fn init_val(r: Res) -> u64 {
    1000 + (r.0 as u64) * 10 + r.1
}
pub fn full_world() -> World {
    let mut w = World::empty();
    for ty in 0..NTY {
        for dy in 0..NDY {
            by_ty!(ty, K => w.insert_by_id(rid((ty, dy)), R::<K>(init_val((ty, dy)))));
        }
    }
    w
}
pub fn world_values(w: &World) -> Vec<(Res, u64)> {
    let mut v = vec![];
    for ty in 0..NTY {
        for dy in 0..NDY {
            let x = by_ty!(ty, K => w.try_fetch_by_id::<R<K>>(rid((ty, dy))).map(|g| g.0));
            if let Some(x) = x {
                v.push(((ty, dy), x));
            }
        }
    }
    v
}
/// borrow state of every cell: 'f' free, 's' shared, 'x' exclusive, '-' absent
pub fn borrow_probe(w: &World) -> String {
    let mut s = String::new();
    for ty in 0..NTY {
        for dy in 0..NDY {
            let c = match unsafe { w.try_fetch_internal(rid((ty, dy))) } {
                None => '-',
                Some(cell) => {
                    if cell.try_borrow_mut().is_ok() {
                        'f'
                    } else if cell.try_borrow().is_ok() {
                        's'
                    } else {
                        'x'
                    }
                }
            };
            s.push(c);
        }
    }
    s
}

pub trait Cell {
    fn get(&self) -> u64;
    fn set(&mut self, _v: u64) {}
}
impl<const K: usize> Cell for Fetch<'_, R<K>> {
    fn get(&self) -> u64 {
        self.0
    }
}
impl<const K: usize> Cell for FetchMut<'_, R<K>> {
    fn get(&self) -> u64 {
        self.0
    }
    fn set(&mut self, v: u64) {
        self.0 = v
    }
}
pub fn borrow_shared<'a>(w: &'a World, r: Res) -> Box<dyn Cell + 'a> {
    by_ty!(r.0, K => Box::new(w.try_fetch_by_id::<R<K>>(rid(r)).expect("harness resource missing")) as Box<dyn Cell + 'a>)
}
pub fn borrow_excl<'a>(w: &'a World, r: Res) -> Box<dyn Cell + 'a> {
    by_ty!(r.0, K => Box::new(w.try_fetch_mut_by_id::<R<K>>(rid(r)).expect("harness resource missing")) as Box<dyn Cell + 'a>)
}

/// the order-sensitive update every harness system applies to what it writes (the Lean model
/// defines the same function on `UInt64`)
pub fn mix(v: u64, tag: u64, sum: u64, c: u64) -> u64 {
    (v.wrapping_mul(6364136223846793005).wrapping_add(1442695040888963407) ^ (tag + 1).wrapping_mul(0x9E37_79B9_7F4A_7C15))
        .wrapping_add(sum.wrapping_mul(31))
        .wrapping_add(c)
}

#[derive(Clone, Debug, PartialEq)]
pub struct Event {
    pub kind: char,
    pub inst: Vec<usize>,
    /// 'c' the thread that called dispatch, 'w' a rayon worker, 'o' any other thread
    pub th: char,
}
impl Event {
    pub fn inst_str(&self) -> String {
        self.inst.iter().map(|x| x.to_string()).collect::<Vec<_>>().join("/")
    }
}

#[derive(Default)]
pub struct Behav {
    pub hold_us: AtomicU64,
    /// 0 no panic; 1 panic inside `run`; 2 panic in `fetch` before borrowing anything; 3 panic
    /// inside `run` with a payload that is not a string (`panic_any`)
    pub panic_mode: AtomicUsize,
    /// 0: `panic_mode` applies to every run; k + 1: only to the run that `k` completed entries
    /// into `run` precede (asyncd engine: the dispatch / `wait` the panic is injected into)
    pub panic_only_run: AtomicU64,
    /// wait (bounded) inside `run` until this many systems are inside at once
    pub rendezvous: AtomicUsize,
    /// 1 + tag of the one system this one waits for (bounded) inside `run`; 0 = nobody in particular
    pub partner: AtomicUsize,
    /// this system has entered `run` since the behaviour was last reset (sticky: a partner that
    /// comes and goes between two polls is still seen)
    pub entered: AtomicBool,
    pub runs: AtomicU64,
    pub setups: AtomicU64,
    /// calls of the system's own (overridden) `System::setup`
    pub sys_setups: AtomicU64,
    pub disposes: AtomicU64,
    pub counter: AtomicU64,
    pub seen: AtomicU64,
    /// for the tag of a batch driven by the library's `MultiDispatcher`: true, and the number of
    /// times its controller has run (the library gives no hook between the inner dispatches, so
    /// the systems directly inside such a batch count their own runs since the controller's
    /// last start to know the iteration they are in)
    /// `running_time()` of this system panics (a user callback failing inside `add`)
    pub rt_panics: AtomicBool,
    pub is_multi: AtomicBool,
    pub multi_epoch: AtomicUsize,
    pub it_epoch: AtomicUsize,
    pub it_count: AtomicUsize,
}

impl Behav {
    /// whether an armed panic applies to the run that `entered` entries into `run` precede
    pub fn panic_applies(&self, entered: u64) -> bool {
        let only = self.panic_only_run.load(SeqCst);
        only == 0 || entered + 1 == only
    }
}

pub struct Shared {
    pub log: Mutex<Vec<Event>>,
    pub caller: Mutex<Option<ThreadId>>,
    pub behav: Vec<Behav>,
    pub inside: AtomicUsize,
    pub max_inside: AtomicUsize,
    pub shapes: Mutex<BTreeMap<usize, (Vec<Vec<usize>>, usize)>>,
    /// identification run: controllers dispatch their inner dispatcher exactly once, sequentially
    pub ident: AtomicBool,
    pub rendezvous_timeout_us: AtomicU64,
    pub lifecycle: Mutex<Vec<(char, usize)>>,
    /// number of the current dispatch; part of every injected panic's payload, so that a payload
    /// left over from an earlier dispatch is recognised
    pub round: AtomicUsize,
    /// register `MultiDispatcher` batches without the harness's event wrapper (engines that do
    /// not dispatch): exactly what a user of the library writes
    pub direct_multi: AtomicBool,
    /// the caller of dispatch is itself unwinding (dispatch called from a destructor) and no
    /// system panics in this round: `std::thread::panicking()` says nothing about the systems
    pub caller_unwinding: AtomicBool,
}
impl Shared {
    /// the event a window ends with: P while a panic unwinds it, D otherwise
    pub fn end_kind(&self) -> char {
        if std::thread::panicking() && !self.caller_unwinding.load(SeqCst) {
            'P'
        } else {
            'D'
        }
    }
    pub fn new(ntags: usize) -> Arc<Shared> {
        Arc::new(Shared {
            log: Mutex::new(vec![]),
            caller: Mutex::new(None),
            behav: (0..ntags).map(|_| Behav::default()).collect(),
            inside: AtomicUsize::new(0),
            max_inside: AtomicUsize::new(0),
            shapes: Mutex::new(BTreeMap::new()),
            ident: AtomicBool::new(false),
            rendezvous_timeout_us: AtomicU64::new(2000),
            lifecycle: Mutex::new(vec![]),
            round: AtomicUsize::new(0),
            caller_unwinding: AtomicBool::new(false),
            direct_multi: AtomicBool::new(false),
        })
    }
    pub fn thread_tag(&self) -> char {
        let me = std::thread::current().id();
        if *self.caller.lock().unwrap() == Some(me) {
            'c'
        } else if on_pool() {
            'w'
        } else {
            'o'
        }
    }
    pub fn push(&self, kind: char, inst: Vec<usize>) {
        let th = self.thread_tag();
        self.log.lock().unwrap().push(Event { kind, inst, th });
    }
    pub fn take_log(&self) -> Vec<Event> {
        std::mem::take(&mut *self.log.lock().unwrap())
    }
    pub fn set_caller(&self) {
        *self.caller.lock().unwrap() = Some(std::thread::current().id());
    }
    pub fn reset_behaviour(&self) {
        for b in &self.behav {
            b.hold_us.store(0, SeqCst);
            b.panic_mode.store(0, SeqCst);
            b.panic_only_run.store(0, SeqCst);
            b.rendezvous.store(0, SeqCst);
            b.partner.store(0, SeqCst);
            b.entered.store(false, SeqCst);
        }
    }
    pub fn reset_state(&self) {
        for b in &self.behav {
            b.runs.store(0, SeqCst);
            b.counter.store(0, SeqCst);
            b.seen.store(0, SeqCst);
        }
        self.max_inside.store(0, SeqCst);
    }
}

#[cfg(feature = "parallel")]
pub fn on_pool() -> bool {
    rayon::current_thread_index().is_some()
}
#[cfg(not(feature = "parallel"))]
pub fn on_pool() -> bool {
    false
}

/// enclosing batches of a system: (batch tag, that batch's current iteration)
pub type Path = Vec<(usize, Arc<AtomicUsize>)>;
/// instance path of `tag`; when the innermost enclosing batch is a `MultiDispatcher` batch the
/// iteration index is this system's own run count since that batch's controller last started
pub fn inst_of_ticked(sh: &Shared, path: &Path, tag: usize) -> Vec<usize> {
    if let Some((b, it)) = path.last() {
        if sh.behav[*b].is_multi.load(SeqCst) {
            let e = sh.behav[*b].multi_epoch.load(SeqCst);
            let me = &sh.behav[tag];
            if me.it_epoch.swap(e, SeqCst) != e {
                me.it_count.store(0, SeqCst);
            }
            let c = me.it_count.fetch_add(1, SeqCst);
            it.store(c, SeqCst);
        }
    }
    inst_of(path, tag)
}
pub fn inst_of(path: &Path, tag: usize) -> Vec<usize> {
    let mut v = vec![];
    for (b, it) in path {
        v.push(*b);
        v.push(it.load(SeqCst));
    }
    v.push(tag);
    v
}

pub struct Acc {
    pub tag: usize,
    pub decl_r: Vec<Res>,
    pub decl_w: Vec<Res>,
    pub shared: Arc<Shared>,
    pub path: Path,
    /// when false the system declares but does not borrow (plan-only engines)
    pub borrow: bool,
}
impl Acc {
    /// what is really borrowed: every written id once, every read id that is not written once
    pub fn fetched(&self) -> (Vec<Res>, Vec<Res>) {
        let mut w: Vec<Res> = vec![];
        for x in &self.decl_w {
            if !w.contains(x) {
                w.push(*x);
            }
        }
        let mut r: Vec<Res> = vec![];
        for x in &self.decl_r {
            if !w.contains(x) && !r.contains(x) {
                r.push(*x);
            }
        }
        (r, w)
    }
}
impl Accessor for Acc {
    /// the accessor type *has* a default (declaring nothing); the crate must nevertheless ask
    /// the system's own `accessor()`, which `HSys` overrides — code that prefers the default sees
    /// empty access sets
    fn try_new() -> Option<Self> {
        Some(Acc { tag: 0, decl_r: vec![], decl_w: vec![], shared: Shared::new(1), path: vec![], borrow: false })
    }
    fn reads(&self) -> Vec<ResourceId> {
        self.decl_r.iter().map(|&r| rid(r)).collect()
    }
    fn writes(&self) -> Vec<ResourceId> {
        self.decl_w.iter().map(|&r| rid(r)).collect()
    }
}

pub struct Data<'a> {
    pub tag: usize,
    pub inst: Vec<usize>,
    pub shared: Arc<Shared>,
    pub reads: Vec<Box<dyn Cell + 'a>>,
    pub writes: Vec<Box<dyn Cell + 'a>>,
}
impl<'a> DynamicSystemData<'a> for Data<'a> {
    type Accessor = Acc;
    fn setup(a: &Acc, _: &mut World) {
        a.shared.behav[a.tag].setups.fetch_add(1, SeqCst);
        a.shared.lifecycle.lock().unwrap().push(('S', a.tag));
    }
    fn fetch(a: &Acc, w: &'a World) -> Self {
        let inst = inst_of_ticked(&a.shared, &a.path, a.tag);
        a.shared.push('F', inst.clone());
        // from here on the drop of `d` logs D (or P while unwinding)
        let mut d = Data { tag: a.tag, inst, shared: a.shared.clone(), reads: vec![], writes: vec![] };
        if a.shared.behav[a.tag].panic_mode.load(SeqCst) == 2 && a.shared.behav[a.tag].panic_applies(a.shared.behav[a.tag].runs.load(SeqCst)) {
            panic!("harness panic (fetch) {} #{}", a.tag, a.shared.round.load(SeqCst));
        }
        if a.borrow {
            let (r, wr) = a.fetched();
            for x in r {
                d.reads.push(borrow_shared(w, x));
            }
            for x in wr {
                d.writes.push(borrow_excl(w, x));
            }
        }
        d
    }
}
impl Drop for Data<'_> {
    fn drop(&mut self) {
        self.reads.clear();
        self.writes.clear();
        let k = self.shared.end_kind();
        self.shared.push(k, std::mem::take(&mut self.inst));
    }
}

pub struct HSys {
    pub acc: Acc,
    pub time: RunningTime,
}
pub fn rt(t: u8) -> RunningTime {
    match t {
        1 => RunningTime::VeryShort,
        2 => RunningTime::Short,
        3 => RunningTime::Average,
        4 => RunningTime::Long,
        _ => RunningTime::VeryLong,
    }
}
impl<'a> System<'a> for HSys {
    type SystemData = Data<'a>;
    fn run(&mut self, mut d: Data<'a>) {
        let sh = d.shared.clone();
        let b = &sh.behav[d.tag];
        b.runs.fetch_add(1, SeqCst);
        let n = sh.inside.fetch_add(1, SeqCst) + 1;
        sh.max_inside.fetch_max(n, SeqCst);
        struct Leave<'s>(&'s Shared, usize);
        impl Drop for Leave<'_> {
            fn drop(&mut self) {
                self.0.inside.fetch_sub(1, SeqCst);
            }
        }
        b.entered.store(true, SeqCst);
        let _leave = Leave(&sh, d.tag);
        // effect: order-sensitive update of everything written
        let mut sum = 0u64;
        for g in &d.reads {
            sum = sum.wrapping_add(g.get());
        }
        let c = b.counter.load(SeqCst);
        for g in d.writes.iter_mut() {
            let v = g.get();
            g.set(mix(v, d.tag as u64, sum, c));
        }
        b.counter.store(c + 1, SeqCst);
        b.seen.store(mix(b.seen.load(SeqCst), d.tag as u64, sum, c), SeqCst);
        // scheduling control
        let want = b.rendezvous.load(SeqCst);
        if want > 1 {
            let t = Instant::now();
            let lim = Duration::from_micros(sh.rendezvous_timeout_us.load(SeqCst));
            let partner = b.partner.load(SeqCst);
            if partner > 0 {
                while !sh.behav[partner - 1].entered.load(SeqCst) && t.elapsed() < lim {
                    std::thread::yield_now();
                }
            } else {
                while sh.max_inside.load(SeqCst) < want && sh.inside.load(SeqCst) < want && t.elapsed() < lim {
                    std::thread::yield_now();
                }
            }
        }
        let hold = b.hold_us.load(SeqCst);
        if hold > 0 {
            let t = Instant::now();
            while t.elapsed() < Duration::from_micros(hold) {
                if hold > 2000 {
                    std::thread::sleep(Duration::from_micros(200));
                } else {
                    std::thread::yield_now();
                }
            }
        }
        if b.panic_mode.load(SeqCst) == 1 {
            panic!("harness panic (run) {} #{}", d.tag, sh.round.load(SeqCst));
        }
        if b.panic_mode.load(SeqCst) == 4 {
            // a string payload that ends like the world's own borrow-conflict message
            panic!("harness panic (like-borrow) {} #{}: already borrowed", d.tag, sh.round.load(SeqCst));
        }
        if b.panic_mode.load(SeqCst) == 3 {
            std::panic::panic_any(crate::common::HPanic { tag: d.tag, round: sh.round.load(SeqCst) });
        }
    }
    fn running_time(&self) -> RunningTime {
        if self.acc.shared.behav[self.acc.tag].rt_panics.load(SeqCst) {
            panic!("harness running_time panic {}", self.acc.tag);
        }
        self.time
    }
    fn accessor<'b>(&'b self) -> AccessorCow<'a, 'b, Self> {
        AccessorCow::Ref(&self.acc)
    }
    fn setup(&mut self, world: &mut World) {
        // an overridden `System::setup` (what a user system with its own setup logic has); it
        // then does what the default does
        self.acc.shared.behav[self.acc.tag].sys_setups.fetch_add(1, SeqCst);
        self.acc.shared.lifecycle.lock().unwrap().push(('U', self.acc.tag));
        <Data as DynamicSystemData>::setup(&self.acc, world)
    }
    fn dispose(self, _: &mut World) {
        self.acc.shared.behav[self.acc.tag].disposes.fetch_add(1, SeqCst);
        self.acc.shared.lifecycle.lock().unwrap().push(('X', self.acc.tag));
    }
}

/// batch controllers with the kinds of declared data of `gen::CTL`
pub struct CtlCore {
    pub tag: usize,
    pub n: usize,
    pub t: u8,
    pub shared: Arc<Shared>,
    pub path: Path,
    pub iter: Arc<AtomicUsize>,
}
impl CtlCore {
    /// `lib`: the library's own `BatchController::run` to delegate to (`MultiDispatcher`); `None`:
    /// the harness's loop of `n` inner dispatches
    fn go<'a, 'b, 'c>(&mut self, w: &'c World, d: &mut Dispatcher<'a, 'b>, lib: Option<&mut dyn FnMut(&'c World, &mut Dispatcher<'a, 'b>)>) {
        let inst = inst_of_ticked(&self.shared, &self.path, self.tag);
        struct Win(Arc<Shared>, Vec<usize>);
        impl Drop for Win {
            fn drop(&mut self) {
                let k = self.0.end_kind();
                self.0.push(k, std::mem::take(&mut self.1));
            }
        }
        self.shared.push('F', inst.clone());
        let _win = Win(self.shared.clone(), inst);
        let b = &self.shared.behav[self.tag];
        b.runs.fetch_add(1, SeqCst);
        b.multi_epoch.fetch_add(1, SeqCst);
        self.shared.shapes.lock().unwrap().insert(self.tag, d.verif_shape());
        if b.panic_mode.load(SeqCst) == 1 {
            panic!("harness panic (run) {} #{}", self.tag, self.shared.round.load(SeqCst));
        }
        if self.shared.ident.load(SeqCst) {
            self.iter.store(0, SeqCst);
            d.dispatch_seq(w);
            d.dispatch_thread_local(w);
        } else if let Some(f) = lib {
            self.iter.store(0, SeqCst);
            f(w, d);
        } else {
            for i in 0..self.n {
                self.iter.store(i, SeqCst);
                d.dispatch(w);
            }
        }
    }
}
macro_rules! ctl {
    ($n:ident, $d:ty) => {
        pub struct $n(pub CtlCore);
        impl<'a, 'b, 'c> BatchController<'a, 'b, 'c> for $n {
            type BatchSystemData = $d;
            fn run(&mut self, w: &'c World, d: &mut Dispatcher<'a, 'b>) {
                {
                    // really borrow the declared data for a moment, then release it before the
                    // inner systems (which may use the same resources) run
                    let _data: $d = w.system_data();
                }
                self.0.go(w, d, None);
            }
            fn running_time(&self) -> RunningTime {
                rt(self.0.t)
            }
        }
    };
}
ctl!(Ctl0, ());
ctl!(Ctl1, Read<'c, R<0>>);
ctl!(Ctl2, Write<'c, R<1>>);
ctl!(Ctl3, (Read<'c, R<2>>, Write<'c, R<0>>));
ctl!(Ctl4, Option<Read<'c, R<3>>>);
ctl!(Ctl5, WriteExpect<'c, R<4>>);
// the same resources declared in both orders (one of them is descending in `ResourceId` order,
// whatever the compiler's `TypeId`s are)
ctl!(Ctl6, (Write<'c, R<4>>, Write<'c, R<5>>));
ctl!(Ctl7, (Write<'c, R<5>>, Write<'c, R<4>>));
ctl!(Ctl8, (Read<'c, R<3>>, Read<'c, R<2>>, Write<'c, R<1>>));

/// the library's `MultiDispatcher` around a `MultiDispatchController` that plans a fixed number
/// of inner dispatches; the harness wrapper only adds the window events around the library's `run`
/// what `plan` answers: the planned number the first time it is asked in a run of the controller
/// (the library asks once per run); asked again within the same run - which only code that
/// re-evaluates the plan does - it answers something else (0, or n + 2 for n < 2), so that such
/// code runs another number of inner dispatches than planned
pub struct PlanCore {
    pub n: usize,
    pub probe: Option<(Arc<Shared>, usize)>,
    pub last_epoch: usize,
}
impl PlanCore {
    pub fn fixed(n: usize) -> PlanCore {
        PlanCore { n, probe: None, last_epoch: usize::MAX }
    }
    /// for controllers inside the harness wrapper `MCtl`, whose `go` counts the runs of batch `tag`
    pub fn probing(n: usize, shared: &Arc<Shared>, tag: usize) -> PlanCore {
        PlanCore { n, probe: Some((shared.clone(), tag)), last_epoch: usize::MAX }
    }
    fn answer(&mut self) -> usize {
        if let Some((sh, tag)) = &self.probe {
            let e = sh.behav[*tag].multi_epoch.load(SeqCst);
            if e == self.last_epoch {
                return if self.n >= 2 { 0 } else { self.n + 2 };
            }
            self.last_epoch = e;
        }
        self.n
    }
}
pub struct Plan9(pub PlanCore);
impl<'a> MultiDispatchController<'a> for Plan9 {
    type SystemData = ();
    fn plan(&mut self, _: ()) -> usize {
        self.0.answer()
    }
}
pub struct Plan10(pub PlanCore);
impl<'a> MultiDispatchController<'a> for Plan10 {
    type SystemData = (Write<'a, R<5>>, Read<'a, R<3>>);
    fn plan(&mut self, _: Self::SystemData) -> usize {
        self.0.answer()
    }
}
pub struct MCtl<C>(pub CtlCore, pub MultiDispatcher<C>);
impl<'a, 'b, 'c, C: MultiDispatchController<'c>> BatchController<'a, 'b, 'c> for MCtl<C> {
    // whatever the library's own `BatchController for MultiDispatcher` declares (not a copy of it)
    type BatchSystemData = <MultiDispatcher<C> as BatchController<'a, 'b, 'c>>::BatchSystemData;
    fn run(&mut self, w: &'c World, d: &mut Dispatcher<'a, 'b>) {
        let m = &mut self.1;
        self.0.go(w, d, Some(&mut |w2: &'c World, d2: &mut Dispatcher<'a, 'b>| m.run(w2, d2)));
    }
    fn running_time(&self) -> RunningTime {
        rt(self.0.t)
    }
}
