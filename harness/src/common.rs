//! Shared plumbing: PRNG, hex encoding, a tiny JSON writer, the pipe to the Lean driver and
//! the per-run report that `./check` turns into evidence / replay files.
use std::collections::{BTreeMap, BTreeSet};
use std::fmt::Write as FmtWrite;
use std::io::{BufRead, BufReader, Write as IoWrite};
use std::process::{Child, ChildStdin, ChildStdout, Command, Stdio};

/// splitmix64; every random choice of every engine derives from one of these
#[derive(Clone)]
pub struct Rng(pub u64);
impl Rng {
    pub fn new(seed: u64, stream: u64) -> Self {
        let mut r = Rng(seed ^ stream.wrapping_mul(0xA24B_AED4_963E_E407));
        r.next();
        r
    }
    pub fn next(&mut self) -> u64 {
        self.0 = self.0.wrapping_add(0x9E37_79B9_7F4A_7C15);
        let mut z = self.0;
        z = (z ^ (z >> 30)).wrapping_mul(0xBF58_476D_1CE4_E5B9);
        z = (z ^ (z >> 27)).wrapping_mul(0x94D0_49BB_1331_11EB);
        z ^ (z >> 31)
    }
    pub fn below(&mut self, n: u64) -> u64 {
        if n == 0 {
            0
        } else {
            self.next() % n
        }
    }
    pub fn chance(&mut self, pct: u64) -> bool {
        self.below(100) < pct
    }
    pub fn pick<'a, T>(&mut self, v: &'a [T]) -> &'a T {
        &v[self.below(v.len() as u64) as usize]
    }
    pub fn shuffle<T>(&mut self, v: &mut [T]) {
        for i in (1..v.len()).rev() {
            let j = self.below(i as u64 + 1) as usize;
            v.swap(i, j);
        }
    }
}

pub fn hex(s: &str) -> String {
    if s.is_empty() {
        "-".into()
    } else {
        s.bytes().map(|b| format!("{:02x}", b)).collect()
    }
}
pub fn unhex(s: &str) -> String {
    if s == "-" {
        return String::new();
    }
    let b: Vec<u8> = (0..s.len() / 2).map(|i| u8::from_str_radix(&s[2 * i..2 * i + 2], 16).unwrap_or(b'?')).collect();
    String::from_utf8_lossy(&b).into_owned()
}
pub fn hexl(v: &[String]) -> String {
    if v.is_empty() {
        "-".into()
    } else {
        // an empty string inside a list is written `e` (decodes to no bytes on both sides)
        v.iter().map(|s| if s.is_empty() { "e".to_string() } else { hex(s) }).collect::<Vec<_>>().join(",")
    }
}
pub fn fnv(s: &str) -> u64 {
    let mut h: u64 = 0xcbf29ce484222325;
    for b in s.bytes() {
        h ^= b as u64;
        h = h.wrapping_mul(0x100000001b3);
    }
    h
}

#[derive(Clone, Debug)]
pub enum Json {
    Null,
    Bool(bool),
    Num(i64),
    Str(String),
    Arr(Vec<Json>),
    Obj(Vec<(String, Json)>),
}
impl Json {
    pub fn s<S: Into<String>>(s: S) -> Json {
        Json::Str(s.into())
    }
    pub fn n<N: TryInto<i64>>(n: N) -> Json {
        Json::Num(n.try_into().ok().unwrap_or(i64::MAX))
    }
    pub fn obj(v: Vec<(&str, Json)>) -> Json {
        Json::Obj(v.into_iter().map(|(k, v)| (k.to_string(), v)).collect())
    }
    pub fn write(&self, out: &mut String) {
        match self {
            Json::Null => out.push_str("null"),
            Json::Bool(b) => {
                let _ = write!(out, "{}", b);
            }
            Json::Num(n) => {
                let _ = write!(out, "{}", n);
            }
            Json::Str(s) => {
                out.push('"');
                for c in s.chars() {
                    match c {
                        '"' => out.push_str("\\\""),
                        '\\' => out.push_str("\\\\"),
                        '\n' => out.push_str("\\n"),
                        '\t' => out.push_str("\\t"),
                        '\r' => out.push_str("\\r"),
                        c if (c as u32) < 0x20 => {
                            let _ = write!(out, "\\u{:04x}", c as u32);
                        }
                        c => out.push(c),
                    }
                }
                out.push('"');
            }
            Json::Arr(v) => {
                out.push('[');
                for (i, x) in v.iter().enumerate() {
                    if i > 0 {
                        out.push(',');
                    }
                    x.write(out);
                }
                out.push(']');
            }
            Json::Obj(v) => {
                out.push('{');
                for (i, (k, x)) in v.iter().enumerate() {
                    if i > 0 {
                        out.push(',');
                    }
                    Json::Str(k.clone()).write(out);
                    out.push(':');
                    x.write(out);
                }
                out.push('}');
            }
        }
    }
    pub fn to_string(&self) -> String {
        let mut s = String::new();
        self.write(&mut s);
        s
    }
}

/// The Lean model behind its line protocol. Every request/answer pair of the current case is
/// kept so that a disagreement can be written out as a replay.
pub struct Drv {
    _c: Child,
    i: ChildStdin,
    o: BufReader<ChildStdout>,
    pub transcript: Vec<(String, String)>,
    pub requests: u64,
}
impl Drv {
    pub fn spawn(path: &str) -> Drv {
        let mut c = Command::new(path)
            .stdin(Stdio::piped())
            .stdout(Stdio::piped())
            .spawn()
            .unwrap_or_else(|e| panic!("cannot start the Lean driver at {}: {}", path, e));
        Drv { i: c.stdin.take().unwrap(), o: BufReader::new(c.stdout.take().unwrap()), _c: c, transcript: vec![], requests: 0 }
    }
    pub fn ask(&mut self, l: &str) -> String {
        writeln!(self.i, "{}", l).expect("driver stdin");
        self.i.flush().expect("driver flush");
        let mut s = String::new();
        self.o.read_line(&mut s).expect("driver stdout");
        let s = s.trim().to_string();
        self.requests += 1;
        if self.transcript.len() < 20000 {
            self.transcript.push((l.to_string(), s.clone()));
        }
        s
    }
    pub fn begin_case(&mut self) {
        self.transcript.clear();
    }
    pub fn lines(&self) -> Vec<String> {
        self.transcript.iter().map(|(q, _)| q.clone()).collect()
    }
}

#[derive(Clone, Debug)]
pub struct Violation {
    /// property whose oracle fired, or "MODEL" for a model/implementation disagreement
    pub prop: String,
    /// "impl" (the real crate breaks the property on this input), "model" (the model and
    /// the crate disagree), "known" (matches an open known finding)
    pub kind: String,
    pub what: String,
    pub case: Vec<String>,
    pub class: String,
}

#[derive(Default)]
pub struct Report {
    pub engine: String,
    pub evaluations: u64,
    pub distinct: BTreeSet<u64>,
    pub distinct_nontrivial: BTreeSet<u64>,
    pub samples: Vec<Json>,
    pub dist: BTreeMap<String, u64>,
    pub violations: Vec<Violation>,
    pub traces_validated: u64,
    pub rule: String,
    pub exhaustive: bool,
    pub extra: Vec<(String, Json)>,
}
impl Report {
    pub fn new(engine: &str, rule: &str) -> Report {
        Report { engine: engine.into(), rule: rule.into(), ..Default::default() }
    }
    pub fn count(&mut self, k: &str) {
        *self.dist.entry(k.to_string()).or_insert(0) += 1;
    }
    pub fn add(&mut self, k: &str, n: u64) {
        *self.dist.entry(k.to_string()).or_insert(0) += n;
    }
    pub fn maxi(&mut self, k: &str, n: u64) {
        let e = self.dist.entry(k.to_string()).or_insert(0);
        if n > *e {
            *e = n;
        }
    }
    pub fn case(&mut self, key: &str, nontrivial: bool) {
        self.evaluations += 1;
        let h = fnv(key);
        self.distinct.insert(h);
        if nontrivial {
            self.distinct_nontrivial.insert(h);
        }
    }
    pub fn sample(&mut self, j: Json) {
        if self.samples.len() < 3 {
            self.samples.push(j);
        }
    }
    pub fn violate(&mut self, prop: &str, kind: &str, class: &str, what: String, case: Vec<String>) {
        if self.violations.len() < 200 {
            self.violations.push(Violation { prop: prop.into(), kind: kind.into(), what, case, class: class.into() });
        }
    }
    pub fn to_json(&self) -> Json {
        let mut o = vec![
            ("engine".to_string(), Json::s(self.engine.clone())),
            ("evaluations".to_string(), Json::n(self.evaluations)),
            ("distinct".to_string(), Json::n(self.distinct.len())),
            ("distinct_nontrivial".to_string(), Json::n(self.distinct_nontrivial.len())),
            ("rule".to_string(), Json::s(self.rule.clone())),
            ("exhaustive".to_string(), Json::Bool(self.exhaustive)),
            ("traces_validated_against_impl".to_string(), Json::n(self.traces_validated)),
            ("samples".to_string(), Json::Arr(self.samples.clone())),
            ("distribution".to_string(), Json::Obj(self.dist.iter().map(|(k, v)| (k.clone(), Json::n(*v))).collect())),
            (
                "violations".to_string(),
                Json::Arr(
                    self.violations
                        .iter()
                        .map(|v| {
                            Json::obj(vec![
                                ("property", Json::s(v.prop.clone())),
                                ("kind", Json::s(v.kind.clone())),
                                ("class", Json::s(v.class.clone())),
                                ("what", Json::s(v.what.clone())),
                                ("case", Json::Arr(v.case.iter().map(|l| Json::s(l.clone())).collect())),
                            ])
                        })
                        .collect(),
                ),
            ),
        ];
        o.extend(self.extra.iter().cloned());
        Json::Obj(o)
    }
}

/// Before a case is executed its lines are written next to the report (`<out>.current`): if the
/// process dies while the real code runs (an abort, a crash) `./check` still has the input.
pub fn mark_current(lines: &[String]) {
    static PATH: std::sync::OnceLock<Option<String>> = std::sync::OnceLock::new();
    let p = PATH.get_or_init(|| {
        let a: Vec<String> = std::env::args().collect();
        a.iter().position(|x| x == "--out").and_then(|i| a.get(i + 1).cloned()).filter(|o| o != "-").map(|o| format!("{}.current", o))
    });
    if let Some(p) = p {
        let _ = std::fs::write(p, lines.join("\n"));
    }
}

/// Runs `f` from a destructor while the calling thread unwinds from a panic of its own (a scope
/// guard that cleans up: `std::thread::panicking()` is true inside `f`). `f` must not let a panic
/// escape (that would be a panic inside a destructor during unwinding: the process aborts).
pub fn in_unwinding<R>(f: impl FnOnce() -> R) -> R {
    struct OnDrop<'x, F: FnOnce() -> R, R>(Option<F>, &'x mut Option<R>);
    impl<F: FnOnce() -> R, R> Drop for OnDrop<'_, F, R> {
        fn drop(&mut self) {
            let f = self.0.take().unwrap();
            *self.1 = Some(f());
        }
    }
    let mut out = None;
    let _ = std::panic::catch_unwind(std::panic::AssertUnwindSafe(|| {
        let _g = OnDrop(Some(f), &mut out);
        std::panic::panic_any(Unwinding);
    }));
    out.expect("in_unwinding: the destructor ran")
}
/// the payload of the harness's own panic in `in_unwinding`
pub struct Unwinding;

/// `--key value` command-line options
pub struct Args(pub Vec<String>);
impl Args {
    pub fn get(&self, k: &str) -> Option<String> {
        let key = format!("--{}", k);
        self.0.iter().position(|a| *a == key).and_then(|i| self.0.get(i + 1).cloned())
    }
    pub fn num(&self, k: &str, d: u64) -> u64 {
        self.get(k).and_then(|s| s.parse().ok()).unwrap_or(d)
    }
    pub fn str(&self, k: &str, d: &str) -> String {
        self.get(k).unwrap_or_else(|| d.to_string())
    }
    pub fn flag(&self, k: &str) -> bool {
        self.0.iter().any(|a| *a == format!("--{}", k))
    }
}

/// a panic payload that is not a string (`std::panic::panic_any`)
#[derive(Debug, Clone, PartialEq)]
pub struct HPanic {
    pub tag: usize,
    pub round: usize,
}

pub fn panic_message(p: &Box<dyn std::any::Any + Send>) -> String {
    if let Some(h) = p.downcast_ref::<HPanic>() {
        return format!("harness panic (typed) {} #{}", h.tag, h.round);
    }
    p.downcast_ref::<String>().cloned().or_else(|| p.downcast_ref::<&str>().map(|s| s.to_string())).unwrap_or_else(|| "<non-string payload>".into())
}
