//! Invariance engine (C19): the layout the real builder produces must not change under a
//! renaming of systems, an injective relabelling of resources (other Rust types / dynamic ids),
//! a permutation or duplication of the declared lists, nor from process to process (hash seeds),
//! and must equal the model's.
use crate::build::*;
use crate::common::*;
use crate::engines::plan::{case_lines, eval_case, shrink};
use crate::gen::*;
use std::collections::BTreeMap;

fn has_ctl_data(ops: &[Op]) -> bool {
    ops.iter().any(|o| matches!(o, Op::Batch { ctl, inner, .. } if *ctl != 0 || has_ctl_data(inner)))
}

fn map_ops(ops: &[Op], names: &BTreeMap<String, String>, rho: &dyn Fn(Res) -> Res, rng: &mut Rng, shuffle: bool) -> Vec<Op> {
    let nm = |s: &String| -> String { if s.is_empty() { String::new() } else { names.get(s).cloned().unwrap_or_else(|| format!("R_{}", s)) } };
    let mut lst = |v: &Vec<Res>, rng: &mut Rng| -> Vec<Res> {
        let mut o: Vec<Res> = v.iter().map(|&r| rho(r)).collect();
        if shuffle {
            rng.shuffle(&mut o);
            if !o.is_empty() && rng.chance(40) {
                let x = *rng.pick(&o);
                o.push(x);
                rng.shuffle(&mut o);
            }
        }
        o
    };
    ops.iter()
        .map(|o| match o {
            Op::Barrier => Op::Barrier,
            Op::Tl { tag, r, w } => Op::Tl { tag: *tag, r: lst(r, rng), w: lst(w, rng) },
            Op::Sys { tag, name, deps, r, w, t } => Op::Sys { tag: *tag, name: nm(name), deps: deps.iter().map(nm).collect(), r: lst(r, rng), w: lst(w, rng), t: *t },
            Op::Batch { tag, name, deps, ctl, t, n, inner } => Op::Batch { tag: *tag, name: nm(name), deps: deps.iter().map(nm).collect(), ctl: *ctl, t: *t, n: *n, inner: map_ops(inner, names, rho, rng, shuffle) },
        })
        .collect()
}

fn collect_names(ops: &[Op], out: &mut Vec<String>) {
    for o in ops {
        match o {
            Op::Sys { name, deps, .. } => {
                out.push(name.clone());
                out.extend(deps.iter().cloned());
            }
            Op::Batch { name, deps, inner, .. } => {
                out.push(name.clone());
                out.extend(deps.iter().cloned());
                collect_names(inner, out);
            }
            _ => {}
        }
    }
}

/// one transformed twin of `ops`; `kind` says which transformations are applied
pub fn transform(ops: &[Op], rng: &mut Rng, kind: u64) -> Vec<Op> {
    let mut all = vec![];
    collect_names(ops, &mut all);
    all.sort();
    all.dedup();
    let mut names = BTreeMap::new();
    if kind & 1 != 0 {
        for (i, n) in all.iter().enumerate() {
            if !n.is_empty() {
                names.insert(n.clone(), match rng.below(3) { 0 => format!("zz{}", all.len() - i), 1 => format!("a sys/{}-{}", i, rng.below(1000)), _ => format!("{}{}", n, "'") });
            }
        }
    } else {
        for n in &all {
            names.insert(n.clone(), n.clone());
        }
    }
    // injective relabelling of the resource universe
    let mut univ: Vec<Res> = (0..NTY).flat_map(|t| (0..NDY.max(18)).map(move |d| (t, d))).collect();
    let fixed: Vec<Res> = if has_ctl_data(ops) { vec![(0, 0), (1, 0), (2, 0), (3, 0), (4, 0), (5, 0)] } else { vec![] };
    univ.retain(|r| !fixed.contains(r));
    let mut img = univ.clone();
    if kind & 2 != 0 {
        rng.shuffle(&mut img);
    }
    let table: BTreeMap<Res, Res> = univ.iter().cloned().zip(img.into_iter()).collect();
    let rho = move |r: Res| -> Res { *table.get(&r).unwrap_or(&r) };
    map_ops(ops, &names, &rho, rng, kind & 4 != 0)
}

fn layout_of(ops: &[Op], drv: Option<&mut Drv>, pool: &Pool) -> (String, Vec<String>) {
    let r = eval_case(ops, drv, pool);
    (r.layout.map(|l| l.show()).unwrap_or_else(|| "<no layout>".into()), r.model_v.iter().map(|(a, w)| format!("{}: {}", a, w)).collect())
}

/// sub-command used for the second process: prints the executed layout of the case in a file
pub fn print_layout(args: &Args) {
    let f = args.str("replay", "");
    let text = std::fs::read_to_string(&f).unwrap_or_default();
    let lines: Vec<String> = text.lines().map(|s| s.to_string()).collect();
    let pool = make_pool(1);
    let (l, _) = layout_of(&Op::parse(&lines), None, &pool);
    println!("{}", l);
}

pub fn run(args: &Args, rep: &mut Report) {
    let seed = args.num("seed", 1);
    let cases = args.num("cases", 150);
    let every = args.num("process-every", 10);
    let mut drv = Drv::spawn(&args.str("driver", "/verif/lean/.lake/build/bin/driver"));
    let pool = make_pool(2);
    rep.rule = "generated registration sequences, each built in its original form and under 3 random transformations (renamed systems, injectively relabelled resources across types and dynamic ids, permuted / duplicated declared lists), each also registered on workers of 1-, 3- and 9-thread rayon pools, a sample of them again in a second process with another RAYON_NUM_THREADS; distinct = distinct executed layouts; non-trivial = two stages, a joined group or a batch".into();
    let mut todo: Vec<(String, Vec<Op>)> = vec![];
    if let Some(f) = args.get("replay") {
        let text = std::fs::read_to_string(&f).expect("replay file");
        let lines: Vec<String> = text.lines().map(|s| s.to_string()).collect();
        todo.push(("replay".into(), Op::parse(&lines)));
    } else {
        for c in 0..cases {
            let prof = ["plan", "batch", "funnel", "deps", "wide", "manyres", "phname", "rejbar"][(c % 8) as usize];
            let mut cfg = GenCfg::profile(prof);
            if prof != "rejbar" {
                cfg.p_dup_name = 0;
                cfg.p_unknown_dep = 0;
            }
            let mut g = Gen::new(Rng::new(seed, c), cfg);
            todo.push((format!("gen:{}:{}:{}", prof, seed, c), g.case()));
        }
    }
    // cross-configuration comparison: the build with `parallel` dumps label → layout, the build
    // without it (same seed, same cases) compares
    let dump = args.get("dump-layouts");
    let compare: Option<BTreeMap<String, String>> = args.get("compare-layouts").and_then(|f| std::fs::read_to_string(f).ok()).map(|t| {
        t.lines().filter_map(|l| l.split_once('\t').map(|(a, b)| (a.to_string(), b.to_string()))).collect()
    });
    let mut dumped = String::new();
    let exe = std::env::current_exe().unwrap();
    let tmp = format!("{}.case", args.str("out", "/verif/evidence/.inv"));
    let mut reported = false;
    #[cfg(feature = "parallel")]
    let installers: Vec<rayon::ThreadPool> = [1usize, 3, 9].iter().map(|n| rayon::ThreadPoolBuilder::new().num_threads(*n).build().unwrap()).collect();
    for (k, (label, ops)) in todo.iter().enumerate() {
        drv.begin_case();
        let (l0, mdiff) = layout_of(ops, Some(&mut drv), &pool);
        let r0 = eval_case(ops, None, &pool);
        rep.case(&l0, r0.layout.as_ref().map(|l| l.nontrivial()).unwrap_or(false));
        if dump.is_some() {
            dumped.push_str(&format!("{}\t{}\n", label, l0));
        }
        if let Some(cmp) = &compare {
            if let Some(other) = cmp.get(label) {
                rep.count("cross_configuration_comparisons");
                if *other != l0 && !reported {
                    reported = true;
                    rep.violate("C19", "impl", "", format!("the same registration sequence is laid out differently with and without the `parallel` feature: {} (with) vs {} (without) [{}]", other, l0, label), case_lines(ops));
                }
            }
        }
        if rep.samples.is_empty() && r0.layout.as_ref().map(|l| l.nontrivial()).unwrap_or(false) {
            let mut rng = Rng::new(seed ^ 0x1417, k as u64);
            rep.sample(Json::obj(vec![("original", Json::Arr(case_lines(ops).into_iter().map(Json::s).collect())), ("transformed_twin", Json::Arr(case_lines(&transform(ops, &mut rng, 7)).into_iter().map(Json::s).collect())), ("layout_of_both", Json::s(l0.clone()))]));
        }
        // the same accepted registrations without the rejected calls (unknown dependency, taken name)
        // in between: what a rejected call leaves behind must not influence the plan
        let rejected: Vec<usize> = r0.built.infos.values().filter(|i| i.outcome.starts_with("panic ")).map(|i| i.tag).collect();
        if !rejected.is_empty() {
            fn without(ops: &[Op], tags: &[usize]) -> Vec<Op> {
                ops.iter()
                    .filter(|o| match o {
                        Op::Sys { tag, .. } | Op::Batch { tag, .. } => !tags.contains(tag),
                        _ => true,
                    })
                    .map(|o| match o {
                        Op::Batch { tag, name, deps, ctl, t, n, inner } => Op::Batch { tag: *tag, name: name.clone(), deps: deps.clone(), ctl: *ctl, t: *t, n: *n, inner: without(inner, tags) },
                        o => o.clone(),
                    })
                    .collect()
            }
            let rej_of = |c: &[Op]| -> Vec<usize> { eval_case(c, None, &pool).built.infos.values().filter(|i| i.outcome.starts_with("panic ")).map(|i| i.tag).collect() };
            let twin = without(ops, &rejected);
            let (l1, _) = layout_of(&twin, None, &pool);
            rep.count("twins_without_the_rejected_calls");
            if l1 != l0 && !reported {
                reported = true;
                let small = shrink(ops, &mut |c: &[Op]| {
                    let rj = rej_of(c);
                    !rj.is_empty() && layout_of(&without(c, &rj), None, &pool).0 != layout_of(c, None, &pool).0
                });
                rep.violate("C19", "impl", "", format!("leaving out the rejected registrations (tags {:?}) changes the layout of the accepted ones: {} (with the rejected calls) vs {} (without) [{}]", rejected, l0, l1, label), case_lines(&small));
            }
        }
        if !mdiff.is_empty() && !reported {
            // the model lays this sequence out differently: look harder for a twin of this very
            // sequence that the real builder lays out differently from the original (a concrete
            // failing input for C19) before settling for the disagreement
            let mut r = Rng::new(seed ^ 0x77aa, k as u64);
            for _ in 0..24 {
                let kind = *r.pick(&[2u64, 4, 6, 7]);
                let twin = transform(ops, &mut r, kind);
                let (l1, _) = layout_of(&twin, None, &pool);
                rep.count("extra_twins_after_model_disagreement");
                if l1 != l0 {
                    reported = true;
                    let mut lines = case_lines(ops);
                    lines.push("# twin:".into());
                    lines.extend(case_lines(&twin).into_iter().map(|l| format!("# {}", l)));
                    rep.violate("C19", "impl", "", format!("a relabelled / permuted twin of the sequence (appended to the case as comments) is laid out differently: {} vs {} [{}]", l0, l1, label), lines);
                    break;
                }
            }
        }
        for d in mdiff {
            if !reported {
                reported = true;
                rep.violate("MODEL:layout", "model", "", format!("{} [{}]", d, label), case_lines(ops));
            }
        }
        let mut rng = Rng::new(seed ^ 0x1417, k as u64);
        for kind in [1u64, 2, 4, 7] {
            let twin = transform(ops, &mut rng, kind);
            let (l1, _) = layout_of(&twin, None, &pool);
            rep.count(match kind { 1 => "twins_renamed", 2 => "twins_relabelled", 4 => "twins_permuted", _ => "twins_all_three" });
            if l1 != l0 && !reported {
                reported = true;
                let small = shrink(ops, &mut |c: &[Op]| {
                    let mut r = Rng::new(seed ^ 0x1417, k as u64);
                    let mut bad = false;
                    for kk in [1u64, 2, 4, 7] {
                        let t = transform(c, &mut r, kk);
                        if kk == kind {
                            bad = layout_of(&t, None, &pool).0 != layout_of(c, None, &pool).0;
                        }
                    }
                    bad
                });
                rep.violate("C19", "impl", "", format!("transformation kind {} (1 rename, 2 relabel resources, 4 permute lists) changes the layout: {} vs {} [{}]", kind, l0, l1, label), case_lines(&small));
            }
        }
        // the thread that registers: inside rayon pools of several sizes (what
        // `rayon::current_num_threads()` answers differs) the plan must be the same
        #[cfg(feature = "parallel")]
        for (pi, ip) in installers.iter().enumerate() {
            let l3 = ip.install(|| layout_of(ops, None, &pool).0);
            rep.count("builds_inside_other_pools");
            if l3 != l0 && !reported {
                reported = true;
                let small = shrink(ops, &mut |c: &[Op]| ip.install(|| layout_of(c, None, &pool).0) != layout_of(c, None, &pool).0);
                rep.violate("C19", "impl", "", format!("registering the same sequence on a worker of a {}-thread rayon pool changes the layout: {} vs {} [{}]", [1, 3, 9][pi], l0, l3, label), case_lines(&small));
            }
        }
        if every > 0 && (k as u64) % every == 0 {
            std::fs::write(&tmp, case_lines(ops).join("\n") + "\n").ok();
            // the second process also sees another default pool size
            let o = std::process::Command::new(&exe).args(["plan-layout", "--replay", &tmp]).env("RAYON_NUM_THREADS", if (k as u64 / every.max(1)) % 2 == 0 { "2" } else { "7" }).output();
            rep.count("second_process_builds");
            if let Ok(o) = o {
                let l2 = String::from_utf8_lossy(&o.stdout).trim().to_string();
                if l2 != l0 && !reported {
                    reported = true;
                    rep.violate("C19", "impl", "", format!("a second process lays the same registration sequence out differently: {} vs {} [{}]", l0, l2, label), case_lines(ops));
                }
            }
        }
    }
    std::fs::remove_file(&tmp).ok();
    if let Some(f) = dump {
        std::fs::write(f, dumped).ok();
    }
}
