//! Meta engine (C17): histories of `MetaTable::register` / world insert+remove / `get` / `get_mut`
//! / `iter` / `iter_mut` interleaved with ordinary fetches of the same resources, run on the real
//! `shred::MetaTable` with self-reporting implementors, against
//!   * implementation-side oracles (a reference list of first registrations, the set of present
//!     resources with their addresses, and the guards the engine itself holds) — kind "impl";
//!   * the Lean model `Model/Meta.lean` behind `meta ...` requests of the driver — kind "model".
//!
//! Case format = the request lines themselves (`meta reg 3`, `meta next 0`, ...). Guards and
//! iterators are addressed by position among the live ones (`k mod n`), so every sub-sequence of
//! a case is again a case (needed for shrinking).
use crate::common::*;
use shred::cell::{AtomicRef, AtomicRefMut};
use shred::{CastFrom, MetaIter, MetaIterMut, MetaTable, Resource, ResourceId, World};
use std::collections::{BTreeMap, BTreeSet};
use std::panic::{catch_unwind, AssertUnwindSafe};

// ---------------------------------------------------------------------------------------------
// the trait and its implementors

/// `tag` and `addr` never read `*self`: they stay harmless when a vtable was attached to the
/// wrong value (which is exactly what the oracles must be able to report).
pub trait Obj {
    fn tag(&self) -> u32;
    fn addr(&self) -> usize;
    fn stamp(&self) -> u64;
    fn bump(&mut self);
}

/// every type that goes into the world
pub trait Val: Resource + Sized {
    const TAG: u32;
    /// its `CastFrom` moves the pointer
    const BAD: bool = false;
    fn make(stamp: u64) -> Self;
    fn stamp_of(&self) -> u64;
}

unsafe impl<T> CastFrom<T> for dyn Obj
where
    T: Obj + Val + 'static,
{
    fn cast(t: *mut T) -> *mut Self {
        if T::BAD {
            // the deliberately wrong implementation: not the pointer it was given
            t.cast::<u8>().wrapping_add(8).cast::<T>()
        } else {
            t
        }
    }
}

pub struct Zst; // 0: zero-sized
pub struct Byte {
    s: u8,
} // 1
pub struct Half {
    s: u16,
} // 2
pub struct Word {
    s: u64,
} // 3
pub struct Mid {
    _a: u32,
    s: u64,
    _b: [u16; 11],
} // 4
pub struct Big {
    _head: [u64; 200],
    s: u64,
    _tail: [u64; 311],
} // 5: 4 KiB
#[repr(align(64))]
pub struct Aligned {
    s: u64,
} // 6
pub struct Evil {
    s: u64,
    _x: [u8; 16],
} // 7: wrong CastFrom
pub struct Plain(u64); // 8: a resource that does not implement the trait at all

macro_rules! obj_impl {
    ($t:ty, $tag:expr, $bad:expr, $int:ty, $mk:expr) => {
        impl Val for $t {
            const TAG: u32 = $tag;
            const BAD: bool = $bad;
            fn make(stamp: u64) -> Self {
                let f: fn($int) -> $t = $mk;
                f(stamp as $int)
            }
            fn stamp_of(&self) -> u64 {
                self.s as u64
            }
        }
        impl Obj for $t {
            fn tag(&self) -> u32 {
                $tag
            }
            fn addr(&self) -> usize {
                self as *const Self as *const () as usize
            }
            fn stamp(&self) -> u64 {
                self.s as u64
            }
            fn bump(&mut self) {
                self.s += 1;
            }
        }
    };
}
obj_impl!(Byte, 1, false, u8, |s| Byte { s });
obj_impl!(Half, 2, false, u16, |s| Half { s });
obj_impl!(Word, 3, false, u64, |s| Word { s });
obj_impl!(Mid, 4, false, u64, |s| Mid { _a: 0xAAAA_AAAA, s, _b: [0xBBBB; 11] });
obj_impl!(Big, 5, false, u64, |s| Big { _head: [0x1111; 200], s, _tail: [0x2222; 311] });
obj_impl!(Aligned, 6, false, u64, |s| Aligned { s });
obj_impl!(Evil, 7, true, u64, |s| Evil { s, _x: [7; 16] });
impl Val for Zst {
    const TAG: u32 = 0;
    fn make(_: u64) -> Self {
        Zst
    }
    fn stamp_of(&self) -> u64 {
        0
    }
}
impl Obj for Zst {
    fn tag(&self) -> u32 {
        0
    }
    fn addr(&self) -> usize {
        self as *const Self as *const () as usize
    }
    fn stamp(&self) -> u64 {
        0
    }
    fn bump(&mut self) {}
}
impl Val for Plain {
    const TAG: u32 = 8;
    fn make(s: u64) -> Self {
        Plain(s)
    }
    fn stamp_of(&self) -> u64 {
        self.0
    }
}

pub const NTY: usize = 9;
const BAD: [bool; NTY] = [false, false, false, false, false, false, false, true, false];
const SIZES: [usize; NTY] = [
    std::mem::size_of::<Zst>(),
    std::mem::size_of::<Byte>(),
    std::mem::size_of::<Half>(),
    std::mem::size_of::<Word>(),
    std::mem::size_of::<Mid>(),
    std::mem::size_of::<Big>(),
    std::mem::size_of::<Aligned>(),
    std::mem::size_of::<Evil>(),
    std::mem::size_of::<Plain>(),
];
const BAD_LIST: &str = "7";

/// run `$body` with `$T` bound to the type of tag `$ty` (all nine)
macro_rules! with_val {
    ($ty:expr, $T:ident => $body:expr) => {
        match $ty {
            0 => { type $T = Zst; $body }
            1 => { type $T = Byte; $body }
            2 => { type $T = Half; $body }
            3 => { type $T = Word; $body }
            4 => { type $T = Mid; $body }
            5 => { type $T = Big; $body }
            6 => { type $T = Aligned; $body }
            7 => { type $T = Evil; $body }
            _ => { type $T = Plain; $body }
        }
    };
}
/// the eight implementors of the trait
macro_rules! with_obj {
    ($ty:expr, $T:ident => $body:expr) => {
        match $ty {
            0 => { type $T = Zst; $body }
            1 => { type $T = Byte; $body }
            2 => { type $T = Half; $body }
            3 => { type $T = Word; $body }
            4 => { type $T = Mid; $body }
            5 => { type $T = Big; $body }
            6 => { type $T = Aligned; $body }
            _ => { type $T = Evil; $body }
        }
    };
}

// ---------------------------------------------------------------------------------------------
// operations

#[derive(Clone, Debug, PartialEq, Eq)]
pub enum Op {
    Reg(u32),
    Ins(u32),
    Rem(u32),
    Fetch(u32),
    FetchMut(u32),
    Drop(u32),
    Get(u32),
    GetMut(u32),
    GetLoc(u32),
    Iter,
    IterMut,
    Next(u32),
    Collect(u32),
    DropIt(u32),
    End,
}
impl Op {
    pub fn line(&self) -> String {
        match self {
            Op::Reg(t) => format!("meta reg {}", t),
            Op::Ins(t) => format!("meta ins {}", t),
            Op::Rem(t) => format!("meta rem {}", t),
            Op::Fetch(t) => format!("meta fetch {}", t),
            Op::FetchMut(t) => format!("meta fetchmut {}", t),
            Op::Drop(k) => format!("meta drop {}", k),
            Op::Get(t) => format!("meta get {}", t),
            Op::GetMut(t) => format!("meta getmut {}", t),
            Op::GetLoc(t) => format!("meta getloc {}", t),
            Op::Iter => "meta iter".into(),
            Op::IterMut => "meta itermut".into(),
            Op::Next(k) => format!("meta next {}", k),
            Op::Collect(k) => format!("meta collect {}", k),
            Op::DropIt(k) => format!("meta dropit {}", k),
            Op::End => "meta end".into(),
        }
    }
    pub fn parse(lines: &[String]) -> Vec<Op> {
        let mut v = vec![];
        for l in lines {
            let l = l.trim();
            if l.is_empty() || l.starts_with('#') {
                continue;
            }
            let ws: Vec<&str> = l.split(' ').filter(|w| !w.is_empty()).collect();
            let ws = if ws.first() == Some(&"meta") { &ws[1..] } else { &ws[..] };
            let n = |i: usize| ws.get(i).and_then(|s| s.parse::<u32>().ok());
            let ty = |i: usize, max: u32| n(i).filter(|t| *t <= max);
            let op = match (ws.first().copied().unwrap_or(""), ws.len()) {
                ("new", _) | ("probe", _) => None,
                ("reg", 2) => ty(1, 7).map(Op::Reg),
                ("ins", 2) => ty(1, 8).map(Op::Ins),
                ("rem", 2) => ty(1, 8).map(Op::Rem),
                ("fetch", 2) => ty(1, 8).map(Op::Fetch),
                ("fetchmut", 2) => ty(1, 8).map(Op::FetchMut),
                ("drop", 2) => n(1).map(Op::Drop),
                ("get", 2) => ty(1, 8).map(Op::Get),
                ("getmut", 2) => ty(1, 8).map(Op::GetMut),
                ("getloc", 2) => ty(1, 8).map(Op::GetLoc),
                ("iter", 1) => Some(Op::Iter),
                ("itermut", 1) => Some(Op::IterMut),
                ("next", 2) => n(1).map(Op::Next),
                ("collect", 2) => n(1).map(Op::Collect),
                ("dropit", 2) => n(1).map(Op::DropIt),
                ("end", 1) => Some(Op::End),
                _ => panic!("meta engine: cannot parse case line {:?}", l),
            };
            if let Some(op) = op {
                v.push(op);
            }
        }
        v
    }
    fn is_mut(&self) -> bool {
        matches!(self, Op::Reg(_) | Op::Ins(_) | Op::Rem(_))
    }
}

pub fn case_lines(ops: &[Op]) -> Vec<String> {
    let mut v = vec![format!("meta new {}", BAD_LIST)];
    v.extend(ops.iter().map(|o| o.line()));
    v
}

// ---------------------------------------------------------------------------------------------
// the reference state of the oracles (no model involved)

#[derive(Clone, Copy)]
struct Cell {
    addr: usize,
    stamp: u64,
}
struct Shadow {
    /// first-registration order, once each — the specification of what `tys` should be
    order: Vec<u32>,
    regs: Vec<u32>,
    present: [Option<Cell>; NTY],
    /// guards the engine itself holds
    sh: [u32; NTY],
    ex: [bool; NTY],
    next_stamp: u64,
}
impl Shadow {
    fn conflict(&self, t: usize, excl: bool) -> bool {
        self.ex[t] || (excl && self.sh[t] > 0)
    }
    fn expected_probe(&self) -> String {
        let v: Vec<String> = (0..NTY)
            .filter(|t| self.present[*t].is_some())
            .map(|t| format!("{}:{}", t, if self.ex[t] { "x" } else if self.sh[t] > 0 { "s" } else { "f" }))
            .collect();
        if v.is_empty() {
            "-".into()
        } else {
            v.join(" ")
        }
    }
    fn mask(&self) -> u32 {
        (0..NTY).filter(|t| self.present[*t].is_some()).map(|t| 1u32 << t).sum()
    }
}

#[derive(Clone, Debug, PartialEq, Eq)]
enum Exp {
    None,
    Item(u32),
    Panic(&'static str),
}

#[derive(Default)]
pub struct CaseResult {
    /// (class, what)
    pub impl_v: Vec<(String, String)>,
    /// (aspect, what)
    pub model_v: Vec<(String, String)>,
    pub stats: BTreeMap<String, u64>,
    pub masks: BTreeSet<u32>,
    pub history: Vec<String>,
    pub items: u64,
    pub interesting: bool,
}

struct Cx<'d> {
    drv: Option<&'d mut Drv>,
    sh: Shadow,
    res: CaseResult,
    stop: bool,
}
impl<'d> Cx<'d> {
    fn count(&mut self, k: &str) {
        *self.res.stats.entry(k.to_string()).or_insert(0) += 1;
    }
    fn bad(&mut self, class: &str, what: String) {
        self.res.impl_v.push((class.to_string(), what));
        self.stop = true;
    }
    /// the real crate did `obs` on request `line`; what does the model say?
    fn model(&mut self, line: &str, obs: &str, aspect: &str) {
        self.res.history.push(format!("{} -> {}", line, obs));
        if let Some(d) = self.drv.as_mut() {
            let ans = d.ask(line);
            if ans != obs {
                self.res.model_v.push((aspect.to_string(), format!("`{}`: the crate answered `{}`, the model `{}`", line, obs, ans)));
            }
        }
    }
}

fn panic_kind(msg: &str) -> String {
    if msg.contains("did not cast") {
        "panic badcast".into()
    } else if msg.contains("already") && msg.contains("borrowed") {
        "panic borrowed".into()
    } else if msg.contains("index out of bounds") {
        "panic index".into()
    } else {
        format!("panic other:{}", msg.replace(' ', "_"))
    }
}

fn probe_one<T: Val>(w: &World) -> Option<char> {
    // SAFETY: the box is only borrowed, never replaced
    let c = unsafe { w.try_fetch_internal(ResourceId::new::<T>()) }?;
    Some(if c.try_borrow_mut().is_ok() {
        'f'
    } else if c.try_borrow().is_ok() {
        's'
    } else {
        'x'
    })
}
fn probe(w: &World) -> String {
    let mut v = vec![];
    for t in 0..NTY as u32 {
        if let Some(s) = with_val!(t, T => probe_one::<T>(w)) {
            v.push(format!("{}:{}", t, s));
        }
    }
    if v.is_empty() {
        "-".into()
    } else {
        v.join(" ")
    }
}

/// the table under test
type DObj = dyn Obj + 'static;
type Tbl = MetaTable<DObj>;

fn guarded<R, F: FnOnce() -> R>(f: F) -> Result<R, Box<dyn std::any::Any + Send>> {
    catch_unwind(AssertUnwindSafe(f))
}

trait Hold {}
impl<T: ?Sized> Hold for T {}
type Guard<'a> = Box<dyn Hold + 'a>;

fn do_fetch<'a, T: Val>(w: &'a World, excl: bool) -> Result<Option<Guard<'a>>, String> {
    catch_unwind(AssertUnwindSafe(|| {
        if excl {
            w.try_fetch_mut::<T>().map(|g| Box::new(g) as Guard<'a>)
        } else {
            w.try_fetch::<T>().map(|g| Box::new(g) as Guard<'a>)
        }
    }))
    .map_err(|p| panic_message(&p))
}

/// what `get`/`get_mut` on a value of type `T` did
enum GetObs {
    Absent,
    FetchPanic(String),
    None,
    Panic(String),
    /// tag and address reported through the trait object; stamps only if both are right
    Some { tag: u32, same: bool, stamp: Option<u64>, after_trait: Option<u64>, after_concrete: Option<u64> },
}

fn inspect<T: Val>(o: &dyn Obj, want: usize) -> (u32, bool, Option<u64>) {
    let tag = o.tag();
    let same = o.addr() == want;
    // only read through the pointer when it certainly is the right value of the right type
    let stamp = if tag == T::TAG && same && !T::BAD { Some(o.stamp()) } else { None };
    (tag, same, stamp)
}

fn do_get<T: Val>(w: &World, table: &Tbl, excl: bool) -> GetObs {
    if !excl {
        let f = match catch_unwind(AssertUnwindSafe(|| w.try_fetch::<T>())) {
            Err(p) => return GetObs::FetchPanic(panic_message(&p)),
            Ok(None) => return GetObs::Absent,
            Ok(Some(f)) => f,
        };
        let want = &*f as *const T as usize;
        let r: &dyn Resource = &*f;
        match catch_unwind(AssertUnwindSafe(|| table.get(r))) {
            Err(p) => GetObs::Panic(panic_message(&p)),
            Ok(None) => GetObs::None,
            Ok(Some(o)) => {
                let (tag, same, stamp) = inspect::<T>(o, want);
                GetObs::Some { tag, same, stamp, after_trait: None, after_concrete: None }
            }
        }
    } else {
        let mut f = match catch_unwind(AssertUnwindSafe(|| w.try_fetch_mut::<T>())) {
            Err(p) => return GetObs::FetchPanic(panic_message(&p)),
            Ok(None) => return GetObs::Absent,
            Ok(Some(f)) => f,
        };
        let want = &*f as *const T as usize;
        let obs = {
            let r: &mut dyn Resource = &mut *f;
            match guarded(move || table.get_mut(r)) {
                Err(p) => GetObs::Panic(panic_message(&p)),
                Ok(None) => GetObs::None,
                Ok(Some(o)) => {
                    let (tag, same, stamp) = inspect::<T>(o, want);
                    let mut after_trait = None;
                    if stamp.is_some() {
                        o.bump();
                        after_trait = Some(o.stamp());
                    }
                    GetObs::Some { tag, same, stamp, after_trait, after_concrete: None }
                }
            }
        };
        match obs {
            GetObs::Some { tag, same, stamp, after_trait, .. } => GetObs::Some { tag, same, stamp, after_trait, after_concrete: Some(f.stamp_of()) },
            o => o,
        }
    }
}

fn do_getloc<T: Val>(table: &Tbl) -> GetObs {
    let v = Box::new(T::make(77));
    let want = &*v as *const T as usize;
    let r: &dyn Resource = &*v;
    match catch_unwind(AssertUnwindSafe(|| table.get(r))) {
        Err(p) => GetObs::Panic(panic_message(&p)),
        Ok(None) => GetObs::None,
        Ok(Some(o)) => {
            let (tag, same, stamp) = inspect::<T>(o, want);
            GetObs::Some { tag, same, stamp, after_trait: None, after_concrete: None }
        }
    }
}

enum It<'a> {
    Sh(MetaIter<'a, DObj>),
    Ex(MetaIterMut<'a, DObj>),
}
struct ItS<'a> {
    it: It<'a>,
    excl: bool,
    /// position in `Shadow::order` the specification says the iterator is at
    pos: usize,
    yielded: Vec<u32>,
}

/// one real `next()` call: Ok(Some((tag, addr, guard, stamp reader))) / Ok(None) / Err(panic)
enum Item<'a> {
    Sh(AtomicRef<'a, DObj>),
    Ex(AtomicRefMut<'a, DObj>),
}
impl<'a> Item<'a> {
    fn obj(&self) -> &dyn Obj {
        match self {
            Item::Sh(r) => &**r,
            Item::Ex(r) => &**r,
        }
    }
}

fn real_next<'a>(it: &mut It<'a>) -> Result<Option<Item<'a>>, String> {
    match it {
        It::Sh(i) => catch_unwind(AssertUnwindSafe(|| i.next())).map(|o| o.map(Item::Sh)),
        It::Ex(i) => catch_unwind(AssertUnwindSafe(|| i.next())).map(|o| o.map(Item::Ex)),
    }
    .map_err(|p| panic_message(&p))
}

struct Phase<'a> {
    world: &'a World,
    table: &'a Tbl,
    guards: Vec<(u32, bool, Guard<'a>)>,
    iters: Vec<ItS<'a>>,
}

/// what the specification demands of the next call on an iterator at `pos`
fn expect_next(sh: &Shadow, pos: usize, excl: bool) -> (Exp, usize) {
    for k in pos..sh.order.len() {
        let t = sh.order[k] as usize;
        if sh.present[t].is_some() {
            if sh.conflict(t, excl) {
                return (Exp::Panic("panic borrowed"), k + 1);
            }
            if BAD[t] {
                return (Exp::Panic("panic badcast"), k + 1);
            }
            return (Exp::Item(t as u32), k + 1);
        }
    }
    (Exp::None, sh.order.len())
}

impl<'a> Phase<'a> {
    /// one `next()` on iterator `k`, checked against the specification; returns the canonical
    /// observation ("item <tag> same|moved" | "none" | "panic ..")
    fn step(&mut self, k: usize, cx: &mut Cx) -> String {
        let excl = self.iters[k].excl;
        let pos = self.iters[k].pos;
        let (exp, npos) = expect_next(&cx.sh, pos, excl);
        // every type between the old position and the one found (or the end) is registered but absent
        let skipped = if exp == Exp::None { npos - pos.min(npos) } else { npos - 1 - pos };
        if skipped > 0 {
            cx.count("absent_registered_types_skipped");
            cx.res.interesting = true;
        }
        self.iters[k].pos = npos;
        let kind = if excl { "iter_mut" } else { "iter" };
        let real = real_next(&mut self.iters[k].it);
        match real {
            Err(msg) => {
                let obs = panic_kind(&msg);
                cx.count(&format!("next_{}", obs.split(':').next().unwrap().replace(' ', "_")));
                match &exp {
                    Exp::Panic(p) if *p == obs => {
                        cx.res.interesting = true;
                        if obs == "panic badcast" && !msg.contains("Bug: `CastFrom` did not cast `self`") {
                            cx.bad("badcast-message", format!("{}.next(): wrong panic message {:?}", kind, msg));
                        }
                    }
                    Exp::Panic(p) => cx.bad("wrong-panic", format!("{}.next() panicked with {:?}, expected `{}`", kind, msg, p)),
                    Exp::Item(t) => cx.bad("unexpected-panic", format!("{}.next() panicked ({:?}) where it must yield the registered, present, borrowable type {}", kind, msg, t)),
                    Exp::None => cx.bad("unexpected-panic", format!("{}.next() panicked ({:?}) where it must return None", kind, msg)),
                }
                obs
            }
            Ok(None) => {
                cx.count("next_none");
                match &exp {
                    Exp::None => {}
                    Exp::Item(t) => cx.bad("missing", format!("{}.next() returned None but type {} is registered, present and was not yielded yet (yielded so far {:?}, first-registration order {:?})", kind, t, self.iters[k].yielded, cx.sh.order)),
                    Exp::Panic(p) => cx.bad("no-panic", format!("{}.next() returned None, expected `{}`", kind, p)),
                }
                "none".into()
            }
            Ok(Some(item)) => {
                cx.count("next_item");
                cx.res.items += 1;
                let tag = item.obj().tag();
                let addr = item.obj().addr();
                let cell = cx.sh.present.get(tag as usize).copied().flatten();
                let same = cell.map(|c| c.addr == addr).unwrap_or(false);
                let obs = format!("item {} {}", tag, if same { "same" } else { "moved" });
                match &exp {
                    Exp::Item(t) if *t == tag => {
                        if !same {
                            cx.bad("address", format!("{}.next() yielded type {} at address {:#x}, the resource lives at {:#x}", kind, tag, addr, cell.map(|c| c.addr).unwrap_or(0)));
                        } else {
                            let c = cell.unwrap();
                            let mut item = item;
                            let st = item.obj().stamp();
                            if st != c.stamp {
                                cx.bad("value", format!("{}.next(): item of type {} reads stamp {}, the resource holds {}", kind, tag, st, c.stamp));
                            } else if let Item::Ex(r) = &mut item {
                                // write through the exclusive item; checked at every later read
                                r.bump();
                                if tag != 0 {
                                    cx.sh.present[tag as usize].as_mut().unwrap().stamp += 1;
                                }
                            }
                            if excl {
                                cx.sh.ex[tag as usize] = true;
                            } else {
                                cx.sh.sh[tag as usize] += 1;
                            }
                            self.iters[k].yielded.push(tag);
                            self.guards.push((tag, excl, match item {
                                Item::Sh(r) => Box::new(r) as Guard<'a>,
                                Item::Ex(r) => Box::new(r) as Guard<'a>,
                            }));
                            return obs;
                        }
                    }
                    Exp::Item(t) => {
                        let class = if self.iters[k].yielded.contains(&tag) { "duplicate" } else { "order-or-vtable" };
                        cx.bad(class, format!("{}.next() yielded an object reporting type {} (address {}), expected type {} next (first-registration order {:?}, present {:?}, yielded so far {:?})", kind, tag, if same { "of that type's resource" } else { "of something else" }, t, cx.sh.order, present_list(&cx.sh), self.iters[k].yielded));
                    }
                    Exp::None => {
                        let class = if self.iters[k].yielded.contains(&tag) { "duplicate" } else { "extra" };
                        cx.bad(class, format!("{}.next() yielded type {} but every registered present type was already yielded ({:?}); registrations {:?}", kind, tag, self.iters[k].yielded, cx.sh.regs));
                    }
                    Exp::Panic(p) => {
                        let class = if *p == "panic badcast" { "badcast-not-rejected" } else { "borrow-rule" };
                        cx.bad(class, format!("{}.next() yielded type {} where it must panic (`{}`): cell shared×{} excl={}", kind, tag, p, cx.sh.sh.get(tag as usize).copied().unwrap_or(0), cx.sh.ex.get(tag as usize).copied().unwrap_or(false)));
                    }
                }
                // suspect object: never touch it again, just release it
                drop(item);
                obs
            }
        }
    }

    fn check_get(&mut self, t: u32, which: &str, o: GetObs, cx: &mut Cx) -> String {
        let tu = t as usize;
        let excl = which == "get_mut";
        let in_world = which != "get(local)";
        let registered = cx.sh.order.contains(&t);
        // expectation
        if in_world {
            if cx.sh.present[tu].is_none() {
                return match o {
                    GetObs::Absent => "absent".into(),
                    _ => {
                        cx.bad("harness", format!("{} {}: fetched an absent resource", which, t));
                        "?".into()
                    }
                };
            }
            if cx.sh.conflict(tu, excl) {
                return match o {
                    GetObs::FetchPanic(m) => panic_kind(&m),
                    _ => {
                        cx.bad("harness", format!("{} {}: fetch did not panic on a conflicting borrow", which, t));
                        "?".into()
                    }
                };
            }
        }
        let stamp_exp = if in_world { cx.sh.present[tu].unwrap().stamp } else if t == 0 { 0 } else { 77 };
        match o {
            GetObs::Absent | GetObs::FetchPanic(_) => {
                cx.bad("harness", format!("{} {}: the fetch before the call failed unexpectedly", which, t));
                "?".into()
            }
            GetObs::None => {
                cx.count("get_none");
                if registered {
                    cx.bad("get-iff", format!("{} on a resource of registered type {} returned None (registrations {:?})", which, t, cx.sh.regs));
                }
                "none".into()
            }
            GetObs::Panic(m) => {
                let obs = panic_kind(&m);
                cx.count("get_panic");
                if registered && BAD[tu] && obs == "panic badcast" {
                    cx.res.interesting = true;
                    if !m.contains("Bug: `CastFrom` did not cast `self`") {
                        cx.bad("badcast-message", format!("{}: wrong panic message {:?}", which, m));
                    }
                } else {
                    cx.bad("unexpected-panic", format!("{} on type {} panicked: {:?} (registered: {}, wrong cast: {})", which, t, m, registered, BAD[tu]));
                }
                obs
            }
            GetObs::Some { tag, same, stamp, after_trait, after_concrete } => {
                cx.count("get_some");
                let obs = format!("some {} {}", tag, if same { "same" } else { "moved" });
                if !registered {
                    cx.bad("get-iff", format!("{} on a resource of type {} returned Some, but that type was never registered (registrations {:?})", which, t, cx.sh.regs));
                } else if BAD[tu] {
                    cx.bad("badcast-not-rejected", format!("{} on type {} returned a reference although its CastFrom changes the address (object reports address {})", which, t, if same { "unchanged" } else { "moved" }));
                } else if tag != t {
                    cx.bad("order-or-vtable", format!("{} on a resource of type {} returned an object whose methods are those of type {}", which, t, tag));
                } else if !same {
                    cx.bad("address", format!("{} on type {} returned an object at another address", which, t));
                } else if stamp != Some(stamp_exp) {
                    cx.bad("value", format!("{} on type {}: object reads stamp {:?}, the resource holds {}", which, t, stamp, stamp_exp));
                } else if excl {
                    let want = if t == 0 { 0 } else { stamp_exp + 1 };
                    if after_trait != Some(want) || after_concrete != Some(want) {
                        cx.bad("value", format!("get_mut on type {}: after bump() through the trait object it reads {:?}, the resource itself {:?}, expected {}", t, after_trait, after_concrete, want));
                    } else {
                        cx.sh.present[tu].as_mut().unwrap().stamp = want;
                    }
                }
                obs
            }
        }
    }

    fn run(&mut self, ops: &[Op], cx: &mut Cx) {
        let (table, world): (&'a Tbl, &'a World) = (self.table, self.world);
        for op in ops {
            if cx.stop {
                return;
            }
            let line = op.line();
            cx.count(&format!("op_{}", line.split(' ').nth(1).unwrap_or("")));
            let obs: String = match op {
                Op::Fetch(t) | Op::FetchMut(t) => {
                    let excl = matches!(op, Op::FetchMut(_));
                    let tu = *t as usize;
                    let r = with_val!(*t, T => do_fetch::<T>(self.world, excl));
                    // the fetches themselves are C08's business; here they only have to agree
                    // with the reference so that the meta oracles stand on firm ground
                    let exp = if cx.sh.present[tu].is_none() { "none" } else if cx.sh.conflict(tu, excl) { "panic borrowed" } else { "guard" };
                    let obs = match r {
                        Ok(Some(g)) => {
                            self.guards.push((*t, excl, g));
                            if exp == "guard" {
                                if excl {
                                    cx.sh.ex[tu] = true
                                } else {
                                    cx.sh.sh[tu] += 1
                                }
                            }
                            "guard".to_string()
                        }
                        Ok(None) => "none".into(),
                        Err(m) => panic_kind(&m),
                    };
                    if obs != exp {
                        cx.bad("harness", format!("`{}` gave {} where the reference expects {}", line, obs, exp));
                    }
                    obs
                }
                Op::Drop(k) => {
                    if self.guards.is_empty() {
                        "noop".into()
                    } else {
                        let i = *k as usize % self.guards.len();
                        let (t, excl, g) = self.guards.remove(i);
                        drop(g);
                        if excl {
                            cx.sh.ex[t as usize] = false;
                        } else {
                            cx.sh.sh[t as usize] -= 1;
                        }
                        format!("dropped {}", t)
                    }
                }
                Op::Get(t) => {
                    let o = with_val!(*t, T => do_get::<T>(self.world, self.table, false));
                    self.check_get(*t, "get", o, cx)
                }
                Op::GetMut(t) => {
                    let o = with_val!(*t, T => do_get::<T>(self.world, self.table, true));
                    self.check_get(*t, "get_mut", o, cx)
                }
                Op::GetLoc(t) => {
                    let o = with_val!(*t, T => do_getloc::<T>(self.table));
                    self.check_get(*t, "get(local)", o, cx)
                }
                Op::Iter => {
                    self.iters.push(ItS { it: It::Sh(table.iter(world)), excl: false, pos: 0, yielded: vec![] });
                    cx.res.masks.insert(cx.sh.mask());
                    "ok".into()
                }
                Op::IterMut => {
                    self.iters.push(ItS { it: It::Ex(table.iter_mut(world)), excl: true, pos: 0, yielded: vec![] });
                    cx.res.masks.insert(cx.sh.mask());
                    "ok".into()
                }
                Op::Next(k) => {
                    if self.iters.is_empty() {
                        "noop".into()
                    } else {
                        let i = *k as usize % self.iters.len();
                        self.step(i, cx)
                    }
                }
                Op::Collect(k) => {
                    if self.iters.is_empty() {
                        "noop".into()
                    } else {
                        let i = *k as usize % self.iters.len();
                        let mut tags: Vec<String> = vec![];
                        let mut moved = false;
                        let ending;
                        let mut calls = 0;
                        loop {
                            let o = self.step(i, cx);
                            calls += 1;
                            if let Some(rest) = o.strip_prefix("item ") {
                                let mut p = rest.split(' ');
                                tags.push(p.next().unwrap_or("?").to_string());
                                moved |= p.next() == Some("moved");
                                if cx.stop || calls > 64 {
                                    ending = "aborted".to_string();
                                    break;
                                }
                            } else if o == "none" {
                                ending = "end".into();
                                if self.iters[i].yielded.len() >= 2 {
                                    cx.count("complete_iterations_with_2+_items");
                                }
                                break;
                            } else {
                                ending = o;
                                break;
                            }
                        }
                        format!("items {}{} {}", if tags.is_empty() { "-".into() } else { tags.join(",") }, if moved { " moved" } else { "" }, ending)
                    }
                }
                Op::DropIt(k) => {
                    if self.iters.is_empty() {
                        "noop".into()
                    } else {
                        let i = *k as usize % self.iters.len();
                        drop(self.iters.remove(i));
                        "ok".into()
                    }
                }
                Op::End | Op::Reg(_) | Op::Ins(_) | Op::Rem(_) => unreachable!("phase boundary inside a phase"),
            };
            cx.model(&line, &obs, "outcome");
            if cx.stop {
                return;
            }
            // borrow flags of every cell: what the real cells say, what the engine's own guards
            // imply, what the model says
            let p = probe(self.world);
            let e = cx.sh.expected_probe();
            if p != e {
                cx.bad("borrow-state", format!("after `{}` the cells are [{}] but the guards alive imply [{}] (iter must borrow shared, iter_mut exclusively, a dropped item / a panicking call must leave nothing behind)", line, p, e));
                return;
            }
            cx.model("meta probe", &p, "borrow-state");
        }
    }
}

fn present_list(sh: &Shadow) -> Vec<usize> {
    (0..NTY).filter(|t| sh.present[*t].is_some()).collect()
}

pub fn eval_case(ops: &[Op], drv: Option<&mut Drv>) -> CaseResult {
    let mut world = World::empty();
    let mut table = Tbl::new();
    let mut cx = Cx {
        drv,
        sh: Shadow { order: vec![], regs: vec![], present: [None; NTY], sh: [0; NTY], ex: [false; NTY], next_stamp: 1 },
        res: CaseResult::default(),
        stop: false,
    };
    cx.model(&format!("meta new {}", BAD_LIST), "ok", "outcome");
    let mut i = 0;
    while i < ops.len() && !cx.stop {
        let op = &ops[i];
        if op.is_mut() {
            let line = op.line();
            cx.count(&format!("op_{}", line.split(' ').nth(1).unwrap_or("")));
            let obs = match op {
                Op::Reg(t) => {
                    let r = catch_unwind(AssertUnwindSafe(|| with_obj!(*t, T => table.register::<T>())));
                    if cx.sh.order.contains(t) {
                        cx.count("repeated_registrations");
                        cx.res.interesting = true;
                    } else {
                        cx.sh.order.push(*t);
                    }
                    cx.sh.regs.push(*t);
                    match r {
                        Ok(()) => "ok".to_string(),
                        Err(p) => {
                            let m = panic_message(&p);
                            cx.bad("unexpected-panic", format!("register of type {} panicked: {:?}", t, m));
                            panic_kind(&m)
                        }
                    }
                }
                Op::Ins(t) => {
                    let stamp = cx.sh.next_stamp;
                    cx.sh.next_stamp += 1;
                    let (addr, st) = with_val!(*t, T => {
                        world.insert(T::make(stamp));
                        let f = world.try_fetch::<T>().expect("just inserted");
                        (&*f as *const T as usize, f.stamp_of())
                    });
                    cx.sh.present[*t as usize] = Some(Cell { addr, stamp: st });
                    "ok".to_string()
                }
                Op::Rem(t) => {
                    let got: Option<u64> = with_val!(*t, T => world.remove::<T>().map(|v| v.stamp_of()));
                    let exp = cx.sh.present[*t as usize].map(|c| c.stamp);
                    if got != exp {
                        cx.bad("harness", format!("remove of type {} returned stamp {:?}, the reference holds {:?}", t, got, exp));
                    }
                    cx.sh.present[*t as usize] = None;
                    if got.is_some() { "some".to_string() } else { "none".to_string() }
                }
                _ => unreachable!(),
            };
            cx.model(&line, &obs, "outcome");
            i += 1;
            continue;
        }
        if *op == Op::End {
            // nothing alive between phases
            cx.count("op_end");
            cx.model("meta end", "ok", "outcome");
            i += 1;
            continue;
        }
        let j = i + ops[i..].iter().position(|o| o.is_mut() || *o == Op::End).unwrap_or(ops.len() - i);
        {
            let mut ph = Phase { world: &world, table: &table, guards: vec![], iters: vec![] };
            ph.run(&ops[i..j], &mut cx);
            cx.res.stats.entry("max_live_guards".into()).and_modify(|m| *m = (*m).max(ph.guards.len() as u64)).or_insert(ph.guards.len() as u64);
            // everything the phase held is dropped here
        }
        cx.sh.sh = [0; NTY];
        cx.sh.ex = [false; NTY];
        if cx.stop {
            break;
        }
        cx.model("meta end", "ok", "outcome");
        let p = probe(&world);
        let e = cx.sh.expected_probe();
        if p != e {
            cx.bad("borrow-state", format!("after every guard, item and iterator was dropped the cells are [{}], expected [{}]", p, e));
            break;
        }
        cx.model("meta probe", &p, "borrow-state");
        i = if j < ops.len() && ops[j] == Op::End {
            cx.count("op_end");
            j + 1
        } else {
            j
        };
    }
    cx.res
}

// ---------------------------------------------------------------------------------------------
// generation

fn gen_case(rng: &mut Rng, long: bool) -> Vec<Op> {
    let mut ops = vec![];
    let mut uni: Vec<u32> = (0..7).filter(|_| rng.chance(70)).collect();
    if uni.len() < 2 {
        uni = vec![0, 3, 5];
    }
    if rng.chance(30) {
        uni.push(7);
    }
    let objs = uni.clone();
    if rng.chance(35) {
        uni.push(8);
    }
    let classic = rng.chance(30);
    let rounds = 1 + rng.below(3);
    for round in 0..rounds {
        let mut muts = vec![];
        let nreg = if round == 0 { rng.below(10) } else { rng.below(4) };
        for _ in 0..nreg {
            muts.push(Op::Reg(*rng.pick(&objs)));
        }
        for &t in &uni {
            if rng.chance(if round == 0 { 65 } else { 25 }) {
                muts.push(Op::Ins(t));
                if rng.chance(10) {
                    muts.push(Op::Ins(t));
                }
            }
            if rng.chance(if round == 0 { 8 } else { 25 }) {
                muts.push(Op::Rem(t));
            }
        }
        rng.shuffle(&mut muts);
        ops.extend(muts);
        if classic {
            // the textbook use: whole iterations on a world without other guards, then lookups
            let mut seq = vec![vec![Op::Iter, Op::Collect(0)], vec![Op::IterMut, Op::Collect(0)]];
            rng.shuffle(&mut seq);
            for s in seq {
                ops.extend(s);
                ops.push(Op::End);
            }
            for &t in &uni {
                if rng.chance(60) {
                    ops.push(match rng.below(3) {
                        0 => Op::Get(t),
                        1 => Op::GetMut(t),
                        _ => Op::GetLoc(t),
                    });
                }
            }
            continue;
        }
        let n = 4 + rng.below(if long { 40 } else { 18 });
        let mut live_iters = 0u32;
        for _ in 0..n {
            let r = rng.below(100);
            let t = *rng.pick(&uni);
            let k = rng.below(4) as u32;
            let op = match r {
                0..=11 => {
                    live_iters += 1;
                    if rng.chance(50) { Op::Iter } else { Op::IterMut }
                }
                12..=53 if live_iters == 0 => {
                    live_iters += 1;
                    if rng.chance(50) { Op::Iter } else { Op::IterMut }
                }
                12..=46 => Op::Next(k),
                47..=53 => Op::Collect(k),
                54..=63 => Op::Fetch(t),
                64..=70 => Op::FetchMut(t),
                71..=80 => Op::Drop(k),
                81..=86 => Op::Get(t),
                87..=91 => Op::GetMut(t),
                92..=94 => Op::GetLoc(t),
                95..=97 => {
                    live_iters = live_iters.saturating_sub(1);
                    Op::DropIt(k)
                }
                _ => {
                    live_iters = 0;
                    Op::End
                }
            };
            ops.push(op);
        }
    }
    ops
}

/// every subset of {Zst, Byte, Big, Aligned, Evil} present × every registration sequence of
/// length ≤ 3 over these five types (repeats included): both iterators to the end, every lookup
fn small_scope(todo: &mut Vec<(String, Vec<Op>)>) {
    let tys = [0u32, 1, 5, 6, 7];
    let mut seqs: Vec<Vec<u32>> = vec![vec![]];
    let mut frontier: Vec<Vec<u32>> = vec![vec![]];
    for _ in 0..3 {
        let mut next = vec![];
        for s in &frontier {
            for &t in &tys {
                let mut s2 = s.clone();
                s2.push(t);
                next.push(s2);
            }
        }
        seqs.extend(next.iter().cloned());
        frontier = next;
    }
    let mut n = 0;
    for mask in 0..32u32 {
        for s in &seqs {
            let mut ops: Vec<Op> = s.iter().map(|t| Op::Reg(*t)).collect();
            for (i, &t) in tys.iter().enumerate() {
                if mask >> i & 1 == 1 {
                    ops.push(Op::Ins(t));
                }
            }
            ops.extend([Op::Iter, Op::Collect(0), Op::End, Op::IterMut, Op::Collect(0), Op::End]);
            for &t in &tys {
                ops.push(Op::Get(t));
                ops.push(Op::GetMut(t));
            }
            n += 1;
            todo.push((format!("small:{}", n), ops));
        }
    }
}

fn shrink(ops: &[Op], pred: &mut dyn FnMut(&[Op]) -> bool) -> Vec<Op> {
    let mut cur = ops.to_vec();
    let mut budget = 600;
    loop {
        let mut changed = false;
        let mut i = cur.len();
        while i > 0 && budget > 0 {
            i -= 1;
            let mut cand = cur.clone();
            cand.remove(i);
            budget -= 1;
            if pred(&cand) {
                cur = cand;
                changed = true;
            }
        }
        if !changed || budget == 0 {
            return cur;
        }
    }
}

pub fn run(args: &Args, rep: &mut Report) {
    let seed = args.num("seed", 1);
    let cases = args.num("cases", 400);
    let long = args.flag("long");
    let mut drv = Drv::spawn(&args.str("driver", "/verif/lean/.lake/build/bin/driver"));
    rep.rule = "histories of register (with repeats) / world insert+remove / get / get_mut / get on a value outside the world / iter / iter_mut / next / whole-loop collect, interleaved with try_fetch / try_fetch_mut guards of the same resources, over 9 types (sizes in `type_sizes`; 7 = wrong CastFrom, 8 = does not implement the trait); distinct = distinct (request, observed answer) histories; non-trivial = an iterator yielded at least one item and the history contains a repeated registration, a registered-but-absent type skipped, or an expected panic (borrow conflict / rejected cast)".into();
    let mut todo: Vec<(String, Vec<Op>)> = vec![];
    if let Some(f) = args.get("replay") {
        let text = std::fs::read_to_string(&f).expect("replay file");
        let lines: Vec<String> = text.lines().map(|s| s.to_string()).collect();
        todo.push((format!("replay:{}", f), Op::parse(&lines)));
    }
    if let Some(dir) = args.get("corpus") {
        if let Ok(rd) = std::fs::read_dir(&dir) {
            let mut files: Vec<_> = rd.filter_map(|e| e.ok()).map(|e| e.path()).filter(|p| p.extension().map(|x| x == "case").unwrap_or(false)).collect();
            files.sort();
            for f in files {
                let text = std::fs::read_to_string(&f).unwrap_or_default();
                let lines: Vec<String> = text.lines().map(|s| s.to_string()).collect();
                todo.push((format!("corpus:{}", f.display()), Op::parse(&lines)));
                rep.count("corpus_cases");
            }
        }
    }
    if args.get("replay").is_none() {
        if args.flag("small-scope") {
            small_scope(&mut todo);
        }
        for c in 0..cases {
            let mut rng = Rng::new(seed, c);
            todo.push((format!("gen:{}:{}", seed, c), gen_case(&mut rng, long)));
        }
    }
    let mut reported: BTreeSet<String> = Default::default();
    let mut masks: BTreeSet<u32> = Default::default();
    for (label, ops) in todo {
        drv.begin_case();
        let res = eval_case(&ops, Some(&mut drv));
        let key = res.history.join("\n");
        rep.case(&key, res.items > 0 && res.interesting);
        rep.traces_validated += 1;
        for (k, v) in &res.stats {
            if k.starts_with("max_") {
                rep.maxi(k, *v);
            } else {
                rep.add(k, *v);
            }
        }
        rep.maxi("max_ops_per_case", ops.len() as u64);
        masks.extend(res.masks.iter().copied());
        if res.items >= 2 && res.interesting {
            rep.sample(Json::obj(vec![("label", Json::s(label.clone())), ("history", Json::Arr(res.history.iter().map(|h| Json::s(h.clone())).collect()))]));
        }
        for (class, what) in &res.impl_v {
            if reported.insert(format!("impl:{}", class)) {
                let cl = class.clone();
                let small = shrink(&ops, &mut |c: &[Op]| eval_case(c, None).impl_v.iter().any(|(q, _)| *q == cl));
                let r2 = eval_case(&small, None);
                let what2 = r2.impl_v.iter().find(|(q, _)| q == class).map(|x| x.1.clone()).unwrap_or_else(|| what.clone());
                rep.violate("C17", "impl", class, format!("{} [{}]", what2, label), case_lines(&small));
            }
        }
        for (aspect, what) in &res.model_v {
            if reported.insert(format!("model:{}", aspect)) {
                let asp = aspect.clone();
                let small = shrink(&ops, &mut |c: &[Op]| {
                    drv.begin_case();
                    eval_case(c, Some(&mut drv)).model_v.iter().any(|(a, _)| *a == asp)
                });
                drv.begin_case();
                let r2 = eval_case(&small, Some(&mut drv));
                let what2 = r2.model_v.iter().find(|(a, _)| a == aspect).map(|x| x.1.clone()).unwrap_or_else(|| what.clone());
                rep.violate(&format!("MODEL:{}", aspect), "model", "", format!("{} [{}]", what2, label), case_lines(&small));
            }
        }
    }
    rep.add("distinct_present_subsets_iterated", masks.len() as u64);
    rep.add("driver_requests", drv.requests);
    rep.extra.push(("type_sizes".into(), Json::Arr(SIZES.iter().map(|s| Json::n(*s as u64)).collect())));
}
