//! Meta engine (C17): histories of `MetaTable::register` / world insert+remove / `get` / `get_mut`
//! / `iter` / `iter_mut` interleaved with ordinary fetches of the same resources, run on the real
//! `shred::MetaTable` with self-reporting implementors, against
//!   * implementation-side oracles (a reference list of first registrations, the set of present
//!     resources with their addresses, the guards the engine itself holds, and what each type's
//!     `CastFrom` does — declared in `types::TYPES` and verified on the casts themselves) — kind
//!     "impl";
//!   * the Lean model `Model/Meta.lean` behind `meta ...` requests of the driver — kind "model".
//!
//! The implementors (`meta/types.rs`): zero-sized / sized / with and without `Drop` / alignments
//! 1..64 / generic, each kind with the lawful cast and with wrong casts of several shapes (offset,
//! another object of the same type, a static, a field, an object of another type, lawful-until-armed).
//! In the unchanged crate (stable variant) `register` never calls the cast: nothing is checked at
//! registration; the address check runs at every `get` / `get_mut` / `next`, compares addresses
//! only, and does not depend on the implementor's size. The table is built either for `dyn Obj` or
//! for `dyn Sub` (a trait with supertraits), chosen by the case.
//!
//! The iterators implement `next` only; every other `Iterator` method a user may call (`nth`,
//! `skip`, `step_by`, `take`, `last`, `count`, `fold`, `for_each`, `collect`, `size_hint`, `zip`,
//! `by_ref` + `next`) is exercised too (`meta nth` / `hint` / `run` / `zip`) and must give what the
//! sequence of `next` calls gives: the oracle reckons it from the list of registered types in
//! first-registration order filtered by presence (`Reck`, `reckon`), the model defines it from its
//! `next` (`advanceBy`, `nth`, `adNext`, `collectVia`, `lastVia`, `countVia`, `zipN`).
//!
//! Case format = the request lines themselves (`meta reg 3`, `meta next 0`, ...). Guards and
//! iterators are addressed by position among the live ones (`k mod n`), so every sub-sequence of
//! a case is again a case (needed for shrinking).
use crate::common::*;
use crate::{meta_with_obj as with_obj, meta_with_val as with_val};
use shred::cell::{AtomicRef, AtomicRefMut};
use shred::{MetaIter, MetaIterMut, MetaTable, Resource, ResourceId, World};
use std::collections::{BTreeMap, BTreeSet};
use std::panic::{catch_unwind, AssertUnwindSafe};

pub mod many;
pub mod types;
use types::*;

/// the trait-object type a table is built for
pub trait Kind: 'static {
    type D: ?Sized + 'static;
    const NAME: &'static str;
    fn obj(d: &Self::D) -> &dyn Obj;
    fn obj_mut(d: &mut Self::D) -> &mut dyn Obj;
    fn register<T: Imp>(t: &mut MetaTable<Self::D>);
    /// the methods of the trait that are not inherited agree with the inherited ones
    fn own_ok(d: &Self::D) -> bool;
}
pub struct KObj;
pub struct KSub;
impl Kind for KObj {
    type D = dyn Obj;
    const NAME: &'static str = "dyn Obj";
    fn obj(d: &Self::D) -> &dyn Obj {
        d
    }
    fn obj_mut(d: &mut Self::D) -> &mut dyn Obj {
        d
    }
    fn register<T: Imp>(t: &mut MetaTable<Self::D>) {
        t.register::<T>()
    }
    fn own_ok(_: &Self::D) -> bool {
        true
    }
}
impl Kind for KSub {
    type D = dyn Sub;
    const NAME: &'static str = "dyn Sub (: Obj + Send + Sync)";
    fn obj(d: &Self::D) -> &dyn Obj {
        d // upcast through the supertrait part of the vtable
    }
    fn obj_mut(d: &mut Self::D) -> &mut dyn Obj {
        d
    }
    fn register<T: Imp>(t: &mut MetaTable<Self::D>) {
        t.register::<T>()
    }
    fn own_ok(d: &Self::D) -> bool {
        d.sub_tag() == d.tag() + 1000
    }
}

fn desc(t: u32) -> String {
    let i = &TYPES[t as usize];
    format!("{} ({}: size {}, align {}{}{}; cast: {})", t, i.name, i.size, i.align, if i.drop { ", Drop" } else { "" }, if i.generic { ", generic" } else { "" }, i.shape)
}

// ---------------------------------------------------------------------------------------------
// operations

/// the adapters of `core::iter` an iteration is driven through
#[derive(Clone, Copy, Debug, PartialEq, Eq)]
pub enum Adapter {
    Plain,
    Skip(u32),
    /// argument > 0
    StepBy(u32),
    Take(u32),
}
impl Adapter {
    fn word(&self) -> String {
        match self {
            Adapter::Plain => "plain".into(),
            Adapter::Skip(n) => format!("skip:{}", n),
            Adapter::StepBy(n) => format!("stepby:{}", n),
            Adapter::Take(n) => format!("take:{}", n),
        }
    }
    fn parse(w: &str) -> Option<Adapter> {
        let mut p = w.split(':');
        let (a, n) = (p.next()?, p.next().map(|x| x.parse::<u32>()));
        match (a, n) {
            ("plain", None) => Some(Adapter::Plain),
            ("skip", Some(Ok(n))) => Some(Adapter::Skip(n)),
            ("stepby", Some(Ok(n))) if n > 0 => Some(Adapter::StepBy(n)),
            ("take", Some(Ok(n))) => Some(Adapter::Take(n)),
            _ => None,
        }
    }
    fn text(&self) -> String {
        match self {
            Adapter::Plain => "".into(),
            Adapter::Skip(n) => format!(".skip({})", n),
            Adapter::StepBy(n) => format!(".step_by({})", n),
            Adapter::Take(n) => format!(".take({})", n),
        }
    }
}
/// the consuming methods
#[derive(Clone, Copy, Debug, PartialEq, Eq)]
pub enum Consumer {
    /// `collect::<Vec<_>>()`
    Collect,
    /// `for_each(|x| v.push(x))` with `v` outside the call: what was pushed survives a panic
    ForEach,
    /// `fold(Vec::new(), |mut v, x| { v.push(x); v })`
    Fold,
    Last,
    Count,
}
impl Consumer {
    fn word(&self) -> &'static str {
        match self {
            Consumer::Collect => "collect",
            Consumer::ForEach => "foreach",
            Consumer::Fold => "fold",
            Consumer::Last => "last",
            Consumer::Count => "count",
        }
    }
    fn parse(w: &str) -> Option<Consumer> {
        [Consumer::Collect, Consumer::ForEach, Consumer::Fold, Consumer::Last, Consumer::Count].into_iter().find(|c| c.word() == w)
    }
    fn text(&self) -> &'static str {
        match self {
            Consumer::Collect => ".collect::<Vec<_>>()",
            Consumer::ForEach => ".for_each(|x| v.push(x))",
            Consumer::Fold => ".fold(Vec::new(), |mut v, x| { v.push(x); v })",
            Consumer::Last => ".last()",
            Consumer::Count => ".count()",
        }
    }
}

#[derive(Clone, Debug, PartialEq, Eq)]
pub enum Op {
    Reg(u32),
    Ins(u32),
    Rem(u32),
    Fetch(u32),
    FetchMut(u32),
    Drop(u32),
    Get(u32),
    GetMut(u32),
    /// `table.get_mut(world.get_mut_raw(id)?)`: the other way to a `&mut dyn Resource` (needs `&mut World`:
    /// nothing may be alive; the model answers what it answers to `getmut`)
    GetRaw(u32),
    GetLoc(u32),
    Iter,
    IterMut,
    Next(u32),
    Collect(u32),
    /// `Iterator::nth(n)` on a live iterator
    Nth(u32, u32),
    /// `size_hint()` of a live iterator
    Hint(u32),
    /// a consuming call through an adapter, on the iterator itself (`own`) or on `by_ref()`
    Run { k: u32, ad: Adapter, co: Consumer, own: bool },
    /// the iterator zipped with a fresh `iter` (false) / `iter_mut` (true), collected
    Zip(u32, bool),
    DropIt(u32),
    End,
    /// the switch the lawful-until-armed casts look at
    Arm(bool),
    /// which trait object the table is for (0 `dyn Obj`, 1 `dyn Sub`); the first one counts
    Trait(u32),
}
impl Op {
    pub fn line(&self) -> String {
        match self {
            Op::Reg(t) => format!("meta reg {}", t),
            Op::Ins(t) => format!("meta ins {}", t),
            Op::Rem(t) => format!("meta rem {}", t),
            Op::Fetch(t) => format!("meta fetch {}", t),
            Op::FetchMut(t) => format!("meta fetchmut {}", t),
            Op::Drop(k) => format!("meta drop {}", k),
            Op::Get(t) => format!("meta get {}", t),
            Op::GetMut(t) => format!("meta getmut {}", t),
            Op::GetRaw(t) => format!("meta getraw {}", t),
            Op::GetLoc(t) => format!("meta getloc {}", t),
            Op::Iter => "meta iter".into(),
            Op::IterMut => "meta itermut".into(),
            Op::Next(k) => format!("meta next {}", k),
            Op::Collect(k) => format!("meta collect {}", k),
            Op::Nth(k, n) => format!("meta nth {} {}", k, n),
            Op::Hint(k) => format!("meta hint {}", k),
            Op::Run { k, ad, co, own } => format!("meta run {} {} {} {}", k, ad.word(), co.word(), *own as u32),
            Op::Zip(k, m) => format!("meta zip {} {}", k, *m as u32),
            Op::DropIt(k) => format!("meta dropit {}", k),
            Op::End => "meta end".into(),
            Op::Arm(b) => format!("meta arm {}", *b as u32),
            Op::Trait(k) => format!("meta trait {}", k),
        }
    }
    pub fn parse(lines: &[String]) -> Vec<Op> {
        let mut v = vec![];
        for l in lines {
            let l = l.trim();
            if l.is_empty() || l.starts_with('#') {
                continue;
            }
            let ws: Vec<&str> = l.split(' ').filter(|w| !w.is_empty()).collect();
            let ws = if ws.first() == Some(&"meta") { &ws[1..] } else { &ws[..] };
            let n = |i: usize| ws.get(i).and_then(|s| s.parse::<u32>().ok());
            let all = NTY as u32 - 1;
            let ty = |i: usize, max: u32| n(i).filter(|t| *t <= max);
            let op = match (ws.first().copied().unwrap_or(""), ws.len()) {
                ("new", _) | ("probe", _) => None,
                ("reg", 2) => ty(1, all).filter(|t| *t != PLAIN).map(Op::Reg),
                ("ins", 2) => ty(1, all).map(Op::Ins),
                ("rem", 2) => ty(1, all).map(Op::Rem),
                ("fetch", 2) => ty(1, all).map(Op::Fetch),
                ("fetchmut", 2) => ty(1, all).map(Op::FetchMut),
                ("drop", 2) => n(1).map(Op::Drop),
                ("get", 2) => ty(1, all).map(Op::Get),
                ("getmut", 2) => ty(1, all).map(Op::GetMut),
                ("getraw", 2) => ty(1, all).map(Op::GetRaw),
                ("getloc", 2) => ty(1, all).map(Op::GetLoc),
                ("arm", 2) => ty(1, 1).map(|b| Op::Arm(b == 1)),
                ("trait", 2) => ty(1, 1).map(Op::Trait),
                ("iter", 1) => Some(Op::Iter),
                ("itermut", 1) => Some(Op::IterMut),
                ("next", 2) => n(1).map(Op::Next),
                ("collect", 2) => n(1).map(Op::Collect),
                ("dropit", 2) => n(1).map(Op::DropIt),
                ("nth", 3) => n(1).and_then(|k| n(2).map(|m| Op::Nth(k, m))),
                ("hint", 2) => n(1).map(Op::Hint),
                ("zip", 3) => n(1).and_then(|k| ty(2, 1).map(|m| Op::Zip(k, m == 1))),
                ("run", 5) => n(1).and_then(|k| {
                    let ad = Adapter::parse(ws[2])?;
                    let co = Consumer::parse(ws[3])?;
                    let own = ty(4, 1)?;
                    Some(Op::Run { k, ad, co, own: own == 1 })
                }),
                ("end", 1) => Some(Op::End),
                _ => panic!("meta engine: cannot parse case line {:?}", l),
            };
            match op {
                Some(op) => v.push(op),
                None if matches!(ws.first().copied(), Some("new") | Some("probe")) => {}
                None => panic!("meta engine: bad argument in case line {:?}", l),
            }
        }
        v
    }
    fn is_mut(&self) -> bool {
        matches!(self, Op::Reg(_) | Op::Ins(_) | Op::Rem(_) | Op::Trait(_) | Op::GetRaw(_))
    }
}

pub fn case_lines(ops: &[Op]) -> Vec<String> {
    let mut v = vec![format!("meta new {}", cast_spec())];
    v.extend(ops.iter().map(|o| o.line()));
    v
}

// ---------------------------------------------------------------------------------------------
// the reference state of the oracles (no model involved)

#[derive(Clone, Copy)]
struct Cell {
    addr: usize,
    stamp: u64,
}
struct Shadow {
    /// first-registration order, once each — the specification of what `tys` should be
    order: Vec<u32>,
    regs: Vec<u32>,
    present: [Option<Cell>; NTY],
    /// guards the engine itself holds
    sh: [u32; NTY],
    ex: [bool; NTY],
    next_stamp: u64,
    /// the switch of the lawful-until-armed casts
    armed: bool,
}
impl Shadow {
    fn conflict(&self, t: usize, excl: bool) -> bool {
        self.ex[t] || (excl && self.sh[t] > 0)
    }
    fn expected_probe(&self) -> String {
        let v: Vec<String> = (0..NTY)
            .filter(|t| self.present[*t].is_some())
            .map(|t| format!("{}:{}", t, if self.ex[t] { "x" } else if self.sh[t] > 0 { "s" } else { "f" }))
            .collect();
        if v.is_empty() {
            "-".into()
        } else {
            v.join(" ")
        }
    }
    fn mask(&self) -> u64 {
        (0..NTY).filter(|t| self.present[*t].is_some()).map(|t| 1u64 << t).sum()
    }
    /// the `CastFrom` of type `t` returns another address right now
    fn moves(&self, t: usize) -> bool {
        moves(t, self.armed)
    }
    /// whose methods an accepted conversion of a `t` runs right now
    fn vt(&self, t: usize) -> u32 {
        vtable_of(t, self.armed)
    }
}

#[derive(Clone, Debug, PartialEq, Eq)]
enum Exp {
    None,
    Item(u32),
    Panic(&'static str),
}

#[derive(Default)]
pub struct CaseResult {
    /// (class, what)
    pub impl_v: Vec<(String, String)>,
    /// (aspect, what)
    pub model_v: Vec<(String, String)>,
    pub stats: BTreeMap<String, u64>,
    pub masks: BTreeSet<u64>,
    pub history: Vec<String>,
    pub items: u64,
    pub interesting: bool,
}

struct Cx<'d> {
    drv: Option<&'d mut Drv>,
    sh: Shadow,
    res: CaseResult,
    stop: bool,
}
impl<'d> Cx<'d> {
    fn count(&mut self, k: &str) {
        *self.res.stats.entry(k.to_string()).or_insert(0) += 1;
    }
    fn bad(&mut self, class: &str, what: String) {
        self.res.impl_v.push((class.to_string(), what));
        self.stop = true;
    }
    /// the real crate did `obs` on request `line`; what does the model say?
    fn model(&mut self, line: &str, obs: &str, aspect: &str) {
        self.res.history.push(format!("{} -> {}", line, obs));
        if let Some(d) = self.drv.as_mut() {
            let ans = d.ask(line);
            if ans != obs {
                self.res.model_v.push((aspect.to_string(), format!("`{}`: the crate answered `{}`, the model `{}`", line, obs, ans)));
            }
        }
    }
}

fn panic_kind(msg: &str) -> String {
    if msg.contains("did not cast") {
        "panic badcast".into()
    } else if msg.contains("already") && msg.contains("borrowed") {
        "panic borrowed".into()
    } else if msg.contains("index out of bounds") {
        "panic index".into()
    } else {
        format!("panic other:{}", msg.replace(' ', "_"))
    }
}

fn probe_one<T: Val>(w: &World) -> Option<char> {
    // SAFETY: the box is only borrowed, never replaced
    let c = unsafe { w.try_fetch_internal(ResourceId::new::<T>()) }?;
    Some(if c.try_borrow_mut().is_ok() {
        'f'
    } else if c.try_borrow().is_ok() {
        's'
    } else {
        'x'
    })
}
fn probe(w: &World) -> String {
    let mut v = vec![];
    for t in 0..NTY as u32 {
        if let Some(s) = with_val!(t, T => probe_one::<T>(w)) {
            v.push(format!("{}:{}", t, s));
        }
    }
    if v.is_empty() {
        "-".into()
    } else {
        v.join(" ")
    }
}

/// the table under test
type Tbl<K> = MetaTable<<K as Kind>::D>;

fn guarded<R, F: FnOnce() -> R>(f: F) -> Result<R, Box<dyn std::any::Any + Send>> {
    catch_unwind(AssertUnwindSafe(f))
}

trait Hold {}
impl<T: ?Sized> Hold for T {}
type Guard<'a> = Box<dyn Hold + 'a>;

fn do_fetch<'a, T: Val>(w: &'a World, excl: bool) -> Result<Option<Guard<'a>>, String> {
    catch_unwind(AssertUnwindSafe(|| {
        if excl {
            w.try_fetch_mut::<T>().map(|g| Box::new(g) as Guard<'a>)
        } else {
            w.try_fetch::<T>().map(|g| Box::new(g) as Guard<'a>)
        }
    }))
    .map_err(|p| panic_message(&p))
}

/// what `get`/`get_mut` on a value of type `T` did
enum GetObs {
    Absent,
    FetchPanic(String),
    None,
    Panic(String),
    /// tag and address reported through the trait object; stamps only if both are right
    Some { tag: u32, same: bool, own: bool, stamp: Option<u64>, after_trait: Option<u64>, after_concrete: Option<u64> },
}

/// (tag, same address, own methods consistent, stamp if it certainly is the value itself)
fn inspect<T: Val, K: Kind>(d: &K::D, want: usize) -> (u32, bool, bool, Option<u64>) {
    let o = K::obj(d);
    let tag = o.tag();
    let same = o.addr() == want;
    let own = K::own_ok(d);
    // only read through the pointer when it certainly is the right value of the right type
    let stamp = if tag == T::TAG && same { Some(o.stamp()) } else { None };
    (tag, same, own, stamp)
}

fn do_get<T: Val, K: Kind>(w: &World, table: &Tbl<K>, excl: bool) -> GetObs {
    if !excl {
        let f = match catch_unwind(AssertUnwindSafe(|| w.try_fetch::<T>())) {
            Err(p) => return GetObs::FetchPanic(panic_message(&p)),
            Ok(None) => return GetObs::Absent,
            Ok(Some(f)) => f,
        };
        let want = &*f as *const T as usize;
        let r: &dyn Resource = &*f;
        match catch_unwind(AssertUnwindSafe(|| table.get(r))) {
            Err(p) => GetObs::Panic(panic_message(&p)),
            Ok(None) => GetObs::None,
            Ok(Some(o)) => {
                let (tag, same, own, stamp) = inspect::<T, K>(o, want);
                GetObs::Some { tag, same, own, stamp, after_trait: None, after_concrete: None }
            }
        }
    } else {
        let mut f = match catch_unwind(AssertUnwindSafe(|| w.try_fetch_mut::<T>())) {
            Err(p) => return GetObs::FetchPanic(panic_message(&p)),
            Ok(None) => return GetObs::Absent,
            Ok(Some(f)) => f,
        };
        let want = &*f as *const T as usize;
        let obs = {
            let r: &mut dyn Resource = &mut *f;
            match guarded(move || table.get_mut(r)) {
                Err(p) => GetObs::Panic(panic_message(&p)),
                Ok(None) => GetObs::None,
                Ok(Some(o)) => {
                    let (tag, same, own, stamp) = inspect::<T, K>(o, want);
                    let mut after_trait = None;
                    if stamp.is_some() {
                        K::obj_mut(o).bump();
                        after_trait = Some(K::obj(o).stamp());
                    }
                    GetObs::Some { tag, same, own, stamp, after_trait, after_concrete: None }
                }
            }
        };
        match obs {
            GetObs::Some { tag, same, own, stamp, after_trait, .. } => GetObs::Some { tag, same, own, stamp, after_trait, after_concrete: Some(f.stamp_of()) },
            o => o,
        }
    }
}

fn do_getraw<T: Val, K: Kind>(w: &mut World, table: &Tbl<K>) -> GetObs {
    let want = match w.try_fetch::<T>() {
        None => return GetObs::Absent,
        Some(f) => &*f as *const T as usize,
    };
    let obs = {
        let r: &mut dyn Resource = match w.get_mut_raw(ResourceId::new::<T>()) {
            None => return GetObs::Absent,
            Some(r) => r,
        };
        match guarded(move || table.get_mut(r)) {
            Err(p) => GetObs::Panic(panic_message(&p)),
            Ok(None) => GetObs::None,
            Ok(Some(o)) => {
                let (tag, same, own, stamp) = inspect::<T, K>(o, want);
                let mut after_trait = None;
                if stamp.is_some() {
                    K::obj_mut(o).bump();
                    after_trait = Some(K::obj(o).stamp());
                }
                GetObs::Some { tag, same, own, stamp, after_trait, after_concrete: None }
            }
        }
    };
    match obs {
        GetObs::Some { tag, same, own, stamp, after_trait, .. } => GetObs::Some { tag, same, own, stamp, after_trait, after_concrete: w.try_fetch::<T>().map(|f| f.stamp_of()) },
        o => o,
    }
}

fn do_getloc<T: Val, K: Kind>(table: &Tbl<K>) -> GetObs {
    let v = Box::new(T::make(77));
    let want = &*v as *const T as usize;
    let r: &dyn Resource = &*v;
    match catch_unwind(AssertUnwindSafe(|| table.get(r))) {
        Err(p) => GetObs::Panic(panic_message(&p)),
        Ok(None) => GetObs::None,
        Ok(Some(o)) => {
            let (tag, same, own, stamp) = inspect::<T, K>(o, want);
            GetObs::Some { tag, same, own, stamp, after_trait: None, after_concrete: None }
        }
    }
}

enum It<'a, K: Kind> {
    Sh(MetaIter<'a, K::D>),
    Ex(MetaIterMut<'a, K::D>),
}
struct ItS<'a, K: Kind> {
    it: It<'a, K>,
    excl: bool,
    /// position in `Shadow::order` the specification says the iterator is at
    pos: usize,
    /// types of the resources whose items it yielded
    yielded: Vec<u32>,
}

/// one real `next()` call: Ok(Some(item)) / Ok(None) / Err(panic)
enum Item<'a, K: Kind> {
    Sh(AtomicRef<'a, K::D>),
    Ex(AtomicRefMut<'a, K::D>),
}
impl<'a, K: Kind> Item<'a, K> {
    fn d(&self) -> &K::D {
        match self {
            Item::Sh(r) => &**r,
            Item::Ex(r) => &**r,
        }
    }
    fn obj(&self) -> &dyn Obj {
        K::obj(self.d())
    }
}

fn real_next<'a, K: Kind>(it: &mut It<'a, K>) -> Result<Option<Item<'a, K>>, String> {
    match it {
        It::Sh(i) => catch_unwind(AssertUnwindSafe(|| i.next())).map(|o| o.map(Item::Sh)),
        It::Ex(i) => catch_unwind(AssertUnwindSafe(|| i.next())).map(|o| o.map(Item::Ex)),
    }
    .map_err(|p| panic_message(&p))
}

/// what the engine sees of an item without reading through it
struct Seen {
    tag: u32,
    addr: usize,
    own: bool,
    /// the address is the one of the resource the item is expected to be (else: the one it claims to be)
    same: bool,
    cell: Option<Cell>,
}
impl Seen {
    fn obs(&self) -> String {
        format!("item {} {}", self.tag, if self.same { "same" } else { "moved" })
    }
}
fn look<K: Kind>(item: &Item<'_, K>, at: Option<u32>, sh: &Shadow) -> Seen {
    let tag = item.obj().tag();
    let addr = item.obj().addr();
    let own = K::own_ok(item.d());
    // the resource the call was to stop at (if any); otherwise the one the object claims to be
    let cell_ty = at.or(if (tag as usize) < NTY { Some(tag) } else { None });
    let cell = cell_ty.and_then(|t| sh.present[t as usize]);
    let same = cell.map(|c| c.addr == addr).unwrap_or(false);
    Seen { tag, addr, own, same, cell }
}

/// `call` returned normally (`did`) where the specification demands the panic `p` at the resource of type `t`
fn must_panic(call: &str, p: &str, t: u32, did: &str, why: &str, cx: &mut Cx) {
    if p == "panic badcast" {
        cx.bad("badcast-not-rejected", format!("{} {} for the resource of type {} whose CastFrom changes the address: it must panic with \"Bug: `CastFrom` did not cast `self`\"{}", call, did, desc(t), why));
    } else {
        cx.bad("borrow-rule", format!("{} {} where it must panic (`{}`) at type {}: cell shared×{} excl={}{}", call, did, p, desc(t), cx.sh.sh.get(t as usize).copied().unwrap_or(0), cx.sh.ex.get(t as usize).copied().unwrap_or(false), why));
    }
}

// ---------------------------------------------------------------------------------------------
// the provided `Iterator` methods: the harness's own reckoning
//
// `MetaIter` / `MetaIterMut` are iterators over L = the registered types in first-registration
// order that are present, from the cursor on. Every provided method is specified by which
// elements of L it examines (borrows, in order: a conflicting or wrong-cast one makes the call
// panic there), which of them it hands out, and which it drops on the way.

/// borrow flags while a call is reckoned: the engine's guards plus what the call keeps so far
struct Reck {
    tsh: [u32; NTY],
    tex: [bool; NTY],
    skipped_absent: bool,
}
enum Pull {
    Item(u32),
    None,
    Panic(&'static str, u32),
}
impl Reck {
    fn new(sh: &Shadow) -> Reck {
        Reck { tsh: sh.sh, tex: sh.ex, skipped_absent: false }
    }
    /// the next `d + 1` elements of L from slot `*pos` on are examined, the last one is handed out
    fn pull(&mut self, sh: &Shadow, pos: &mut usize, excl: bool, d: usize) -> Pull {
        let mut need = d + 1;
        while *pos < sh.order.len() {
            let t = sh.order[*pos] as usize;
            *pos += 1;
            if sh.present[t].is_none() {
                self.skipped_absent = true;
                continue;
            }
            if self.tex[t] || (excl && self.tsh[t] > 0) {
                return Pull::Panic("panic borrowed", t as u32);
            }
            if sh.moves(t) {
                return Pull::Panic("panic badcast", t as u32);
            }
            need -= 1;
            if need == 0 {
                return Pull::Item(t as u32);
            }
        }
        Pull::None
    }
    fn keep(&mut self, t: u32, excl: bool) {
        if excl {
            self.tex[t as usize] = true
        } else {
            self.tsh[t as usize] += 1
        }
    }
    fn release(&mut self, t: u32, excl: bool) {
        if excl {
            self.tex[t as usize] = false
        } else {
            self.tsh[t as usize] -= 1
        }
    }
}
/// `next` of an adapter in terms of L
struct AdState {
    ad: Adapter,
    first: bool,
    left: u32,
}
impl AdState {
    fn new(ad: Adapter) -> AdState {
        AdState { ad, first: true, left: if let Adapter::Take(n) = ad { n } else { 0 } }
    }
    fn pull(&mut self, rk: &mut Reck, sh: &Shadow, pos: &mut usize, excl: bool) -> Pull {
        let first = std::mem::replace(&mut self.first, false);
        match self.ad {
            Adapter::Plain => rk.pull(sh, pos, excl, 0),
            // the first `n` elements are dropped
            Adapter::Skip(n) => rk.pull(sh, pos, excl, if first { n as usize } else { 0 }),
            // the first element, then every `n`-th
            Adapter::StepBy(n) => rk.pull(sh, pos, excl, if first { 0 } else { n as usize - 1 }),
            // after `n` elements the iterator is not asked again
            Adapter::Take(_) => {
                if self.left == 0 {
                    Pull::None
                } else {
                    self.left -= 1;
                    rk.pull(sh, pos, excl, 0)
                }
            }
        }
    }
}
#[derive(Clone, Copy, Debug, PartialEq, Eq)]
enum How {
    Nth(u32),
    Run(Adapter, Consumer, bool),
    Zip(bool),
}
/// what a call must do
struct ExpRun {
    /// the items alive afterwards, in the order they are handed out: (type, exclusive)
    kept: Vec<(u32, bool)>,
    /// (kind, type it happens at)
    panic: Option<(&'static str, u32)>,
    /// number of elements the adapter hands to the consumer
    count: usize,
    /// cursor afterwards
    npos: usize,
}
fn reckon(sh: &Shadow, rk: &mut Reck, pos: usize, excl: bool, how: How) -> ExpRun {
    let mut e = ExpRun { kept: vec![], panic: None, count: 0, npos: pos };
    let mut pos = pos;
    let mut unwind = false;
    match how {
        How::Nth(n) => match rk.pull(sh, &mut pos, excl, n as usize) {
            Pull::Item(t) => e.kept.push((t, excl)),
            Pull::None => {}
            Pull::Panic(p, t) => e.panic = Some((p, t)),
        },
        How::Run(ad, co, _) => {
            let mut st = AdState::new(ad);
            unwind = co != Consumer::ForEach;
            loop {
                match st.pull(rk, sh, &mut pos, excl) {
                    Pull::None => break,
                    Pull::Panic(p, t) => {
                        e.panic = Some((p, t));
                        break;
                    }
                    Pull::Item(t) => {
                        e.count += 1;
                        match co {
                            Consumer::Collect | Consumer::ForEach | Consumer::Fold => e.kept.push((t, excl)),
                            Consumer::Last => e.kept = vec![(t, excl)],
                            Consumer::Count => {}
                        }
                    }
                }
            }
        }
        How::Zip(exclb) => {
            let mut posb = 0;
            loop {
                // `Zip::next`: `let x = a.next()?; let y = b.next()?; Some((x, y))` — `x` is
                // alive while `b` is asked
                let x = match rk.pull(sh, &mut pos, excl, 0) {
                    Pull::None => break,
                    Pull::Panic(p, t) => {
                        e.panic = Some((p, t));
                        break;
                    }
                    Pull::Item(t) => t,
                };
                rk.keep(x, excl);
                match rk.pull(sh, &mut posb, exclb, 0) {
                    Pull::None => {
                        rk.release(x, excl);
                        break;
                    }
                    Pull::Panic(p, t) => {
                        rk.release(x, excl);
                        e.panic = Some((p, t));
                        break;
                    }
                    Pull::Item(y) => {
                        rk.keep(y, exclb);
                        e.kept.push((x, excl));
                        e.kept.push((y, exclb));
                        e.count += 1;
                    }
                }
            }
            // what the pairs hold is already in `rk`; undo it if the call unwinds
            if e.panic.is_some() {
                for (t, x) in e.kept.drain(..) {
                    rk.release(t, x);
                }
            }
            e.npos = pos;
            return e;
        }
    }
    // a panic unwinds through `collect` / `fold` / `last`: the partial result is dropped
    if e.panic.is_some() && unwind {
        e.kept.clear();
    }
    for (t, x) in &e.kept {
        rk.keep(*t, *x);
    }
    e.npos = pos;
    e
}

/// what a real call returned (the items themselves are in the sink)
#[derive(Debug)]
enum Ret {
    Items,
    One(bool),
    Count(usize),
    Pairs,
}
fn consume<'a, K: Kind, X, I: Iterator<Item = X>, W: Fn(X) -> Item<'a, K>>(it: I, wrap: W, co: Consumer, sink: &mut Vec<Item<'a, K>>) -> Ret {
    match co {
        Consumer::Collect => {
            let v: Vec<X> = it.collect();
            sink.extend(v.into_iter().map(wrap));
            Ret::Items
        }
        Consumer::ForEach => {
            it.for_each(|x| sink.push(wrap(x)));
            Ret::Items
        }
        Consumer::Fold => {
            let v = it.fold(Vec::new(), |mut v: Vec<X>, x| {
                v.push(x);
                v
            });
            sink.extend(v.into_iter().map(wrap));
            Ret::Items
        }
        Consumer::Last => {
            let l = it.last();
            let some = l.is_some();
            sink.extend(l.map(wrap));
            Ret::One(some)
        }
        Consumer::Count => Ret::Count(it.count()),
    }
}
fn adapt<'a, K: Kind, X, I: Iterator<Item = X>, W: Fn(X) -> Item<'a, K>>(it: I, wrap: W, ad: Adapter, co: Consumer, sink: &mut Vec<Item<'a, K>>) -> Ret {
    match ad {
        Adapter::Plain => consume::<K, _, _, _>(it, wrap, co, sink),
        Adapter::Skip(n) => consume::<K, _, _, _>(it.skip(n as usize), wrap, co, sink),
        Adapter::StepBy(n) => consume::<K, _, _, _>(it.step_by(n as usize), wrap, co, sink),
        Adapter::Take(n) => consume::<K, _, _, _>(it.take(n as usize), wrap, co, sink),
    }
}
fn zip_collect<'a, K: Kind, X, Y, A: Iterator<Item = X>, B: Iterator<Item = Y>>(a: A, b: B, wa: impl Fn(X) -> Item<'a, K>, wb: impl Fn(Y) -> Item<'a, K>, sink: &mut Vec<Item<'a, K>>) -> Ret {
    let v: Vec<(X, Y)> = a.zip(b).collect();
    for (x, y) in v {
        sink.push(wa(x));
        sink.push(wb(y));
    }
    Ret::Pairs
}

struct Phase<'a, K: Kind> {
    world: &'a World,
    table: &'a Tbl<K>,
    guards: Vec<(u32, bool, Guard<'a>)>,
    iters: Vec<ItS<'a, K>>,
}

/// what the specification demands of the next call on an iterator at `pos`
/// (.., new position, the type whose resource the call stops at)
fn expect_next(sh: &Shadow, pos: usize, excl: bool) -> (Exp, usize, Option<u32>) {
    for k in pos..sh.order.len() {
        let t = sh.order[k] as usize;
        if sh.present[t].is_some() {
            if sh.conflict(t, excl) {
                return (Exp::Panic("panic borrowed"), k + 1, Some(t as u32));
            }
            if sh.moves(t) {
                return (Exp::Panic("panic badcast"), k + 1, Some(t as u32));
            }
            return (Exp::Item(t as u32), k + 1, Some(t as u32));
        }
    }
    (Exp::None, sh.order.len(), None)
}

impl<'a, K: Kind> Phase<'a, K> {
    /// one `next()` on iterator `k`, checked against the specification; returns the canonical
    /// observation ("item <tag> same|moved" | "none" | "panic ..")
    fn step(&mut self, k: usize, cx: &mut Cx) -> String {
        let excl = self.iters[k].excl;
        let pos = self.iters[k].pos;
        let (exp, npos, at) = expect_next(&cx.sh, pos, excl);
        // every type between the old position and the one found (or the end) is registered but absent
        let skipped = if exp == Exp::None { npos - pos.min(npos) } else { npos - 1 - pos };
        if skipped > 0 {
            cx.count("absent_registered_types_skipped");
            cx.res.interesting = true;
        }
        self.iters[k].pos = npos;
        let kind = if excl { "iter_mut" } else { "iter" };
        let real = real_next(&mut self.iters[k].it);
        match real {
            Err(msg) => {
                let obs = panic_kind(&msg);
                cx.count(&format!("next_{}", obs.split(':').next().unwrap().replace(' ', "_")));
                match &exp {
                    Exp::Panic(p) if *p == obs => {
                        cx.res.interesting = true;
                        if obs == "panic badcast" {
                            if let Some(t) = at {
                                cx.count(&format!("rejected_in_{}:{}", kind, shape_key(t)));
                            }
                            if !msg.contains("Bug: `CastFrom` did not cast `self`") {
                                cx.bad("badcast-message", format!("{}.next(): wrong panic message {:?}", kind, msg));
                            }
                        }
                    }
                    Exp::Panic(p) => cx.bad("wrong-panic", format!("{}.next() panicked with {:?}, expected `{}`", kind, msg, p)),
                    Exp::Item(t) => cx.bad("unexpected-panic", format!("{}.next() panicked ({:?}) where it must yield the registered, present, borrowable type {}", kind, msg, t)),
                    Exp::None => cx.bad("unexpected-panic", format!("{}.next() panicked ({:?}) where it must return None", kind, msg)),
                }
                obs
            }
            Ok(None) => {
                cx.count("next_none");
                match &exp {
                    Exp::None => {}
                    Exp::Item(t) => cx.bad("missing", format!("{}.next() returned None but type {} is registered, present and was not yielded yet (yielded so far {:?}, first-registration order {:?})", kind, t, self.iters[k].yielded, cx.sh.order)),
                    Exp::Panic(p) => cx.bad("no-panic", format!("{}.next() returned None, expected `{}`", kind, p)),
                }
                "none".into()
            }
            Ok(Some(item)) => {
                cx.count("next_item");
                cx.res.items += 1;
                let seen = look::<K>(&item, at, &cx.sh);
                let obs = seen.obs();
                let call = format!("{}.next()", kind);
                match &exp {
                    Exp::Item(t) => {
                        let y = std::mem::take(&mut self.iters[k].yielded);
                        let ok = self.accept_item(item, &seen, *t, excl, &y, &call, cx);
                        self.iters[k].yielded = y;
                        if ok {
                            if excl {
                                cx.sh.ex[*t as usize] = true;
                            } else {
                                cx.sh.sh[*t as usize] += 1;
                            }
                            self.iters[k].yielded.push(*t);
                        }
                    }
                    Exp::None => {
                        let class = if self.iters[k].yielded.contains(&seen.tag) { "duplicate" } else { "extra" };
                        cx.bad(class, format!("{} yielded an object with the methods of type {} but every registered present type was already yielded ({:?}); registrations {:?}", call, seen.tag, self.iters[k].yielded, cx.sh.regs));
                    }
                    Exp::Panic(p) => must_panic(&call, p, at.unwrap_or(seen.tag), &format!("yielded an item (methods of type {}, address {})", seen.tag, if seen.same { "of the resource" } else { "of something else" }), "", cx),
                }
                // a suspect object is never touched again, just released
                obs
            }
        }
    }

    /// The checks on one item that, by the specification, is the resource of type `t`, obtained
    /// through `call`: methods of the right type, the trait's own methods consistent, the
    /// resource's address, its value; an exclusive item is written through. On success the item
    /// is kept as a guard (the borrow bookkeeping is the caller's).
    fn accept_item(&mut self, item: Item<'a, K>, seen: &Seen, t: u32, excl: bool, yielded: &[u32], call: &str, cx: &mut Cx) -> bool {
        let tu = t as usize;
        let want = cx.sh.vt(tu);
        let (tag, same, cell) = (seen.tag, seen.same, seen.cell);
        if tag != want {
            let class = if yielded.contains(&tag) { "duplicate" } else { "order-or-vtable" };
            cx.bad(class, format!("{} yielded an object running the methods of type {} (address {}), expected the resource of type {} next, with the methods of type {} (first-registration order {:?}, present {:?}, yielded so far {:?})", call, tag, if same { "of the expected resource" } else { "of something else" }, desc(t), want, cx.sh.order, present_list(&cx.sh), yielded));
            return false;
        }
        if !seen.own {
            cx.bad("supertrait-vtable", format!("{} on a table for {}: the item for type {} answers the trait's own method and the inherited one inconsistently", call, K::NAME, desc(t)));
            return false;
        }
        if !same {
            cx.bad("address", format!("{} yielded type {} at address {:#x}, the resource lives at {:#x}", call, desc(t), seen.addr, cell.map(|c| c.addr).unwrap_or(0)));
            return false;
        }
        let c = cell.unwrap();
        let mut item = item;
        if want == t {
            let st = item.obj().stamp();
            if st != c.stamp {
                cx.bad("value", format!("{}: item of type {} reads stamp {}, the resource holds {}", call, desc(t), st, c.stamp));
                return false;
            } else if let Item::Ex(r) = &mut item {
                // write through the exclusive item; checked at every later read
                K::obj_mut(&mut **r).bump();
                if !is_zst(tu) {
                    cx.sh.present[tu].as_mut().unwrap().stamp += 1;
                }
            }
        } else {
            // same address, another type's methods (declared so): accepted by the address
            // check; nothing is read or written through it
            cx.count("accepted_same_address_other_vtable");
        }
        self.guards.push((t, excl, match item {
            Item::Sh(r) => Box::new(r) as Guard<'a>,
            Item::Ex(r) => Box::new(r) as Guard<'a>,
        }));
        true
    }

    /// One provided method (`how`) on iterator `i`, checked against the reckoning; returns the
    /// canonical observation.
    fn drive(&mut self, i: usize, how: How, cx: &mut Cx) -> String {
        let (table, world): (&'a Tbl<K>, &'a World) = (self.table, self.world);
        let excl = self.iters[i].excl;
        let pos = self.iters[i].pos;
        let kind = if excl { "iter_mut" } else { "iter" };
        let own = matches!(how, How::Run(_, _, true) | How::Zip(_));
        let call = match how {
            How::Nth(n) => format!("{}{}.nth({})", kind, if pos > 0 { " (advanced)" } else { "" }, n),
            How::Run(ad, co, own) => format!("{}{}{}{}{}", kind, if pos > 0 { " (advanced)" } else { "" }, if own { "" } else { ".by_ref()" }, ad.text(), co.text()),
            How::Zip(m) => format!("{}{}.zip({}).collect::<Vec<_>>()", kind, if pos > 0 { " (advanced)" } else { "" }, if m { "iter_mut" } else { "iter" }),
        };
        // the harness's own reckoning
        let mut rk = Reck::new(&cx.sh);
        let exp = reckon(&cx.sh, &mut rk, pos, excl, how);
        let l_before: Vec<u32> = cx.sh.order[pos.min(cx.sh.order.len())..].iter().copied().filter(|t| cx.sh.present[*t as usize].is_some()).collect();
        if rk.skipped_absent {
            cx.count("absent_registered_types_skipped");
            cx.res.interesting = true;
            if !matches!(how, How::Run(Adapter::Plain, _, _) | How::Nth(0)) {
                cx.count("provided_method_over_an_absent_registered_type");
            }
        }
        match how {
            How::Nth(_) => cx.count("via_nth"),
            How::Run(ad, co, own) => cx.count(&format!("via_{}_{}_{}", ad.word().split(':').next().unwrap(), co.word(), if own { "owned" } else { "by_ref" })),
            How::Zip(m) => cx.count(&format!("via_zip_{}_{}", kind, if m { "iter_mut" } else { "iter" })),
        }
        // the real call
        let mut sink: Vec<Item<'a, K>> = vec![];
        let mut yielded: Vec<u32>;
        let real: Result<Ret, String> = {
            let sink = &mut sink;
            if own {
                let its = self.iters.remove(i);
                yielded = its.yielded;
                match (its.it, how) {
                    (It::Sh(it), How::Run(ad, co, _)) => guarded(move || adapt::<K, _, _, _>(it, Item::Sh, ad, co, sink)),
                    (It::Ex(it), How::Run(ad, co, _)) => guarded(move || adapt::<K, _, _, _>(it, Item::Ex, ad, co, sink)),
                    (It::Sh(it), How::Zip(false)) => guarded(move || zip_collect::<K, _, _, _, _>(it, table.iter(world), Item::Sh, Item::Sh, sink)),
                    (It::Sh(it), How::Zip(true)) => guarded(move || zip_collect::<K, _, _, _, _>(it, table.iter_mut(world), Item::Sh, Item::Ex, sink)),
                    (It::Ex(it), How::Zip(false)) => guarded(move || zip_collect::<K, _, _, _, _>(it, table.iter(world), Item::Ex, Item::Sh, sink)),
                    (It::Ex(it), How::Zip(true)) => guarded(move || zip_collect::<K, _, _, _, _>(it, table.iter_mut(world), Item::Ex, Item::Ex, sink)),
                    (_, How::Nth(_)) => unreachable!(),
                }
            } else {
                yielded = self.iters[i].yielded.clone();
                match (&mut self.iters[i].it, how) {
                    (It::Sh(it), How::Nth(n)) => guarded(move || {
                        let x = it.nth(n as usize);
                        let some = x.is_some();
                        sink.extend(x.map(Item::Sh));
                        Ret::One(some)
                    }),
                    (It::Ex(it), How::Nth(n)) => guarded(move || {
                        let x = it.nth(n as usize);
                        let some = x.is_some();
                        sink.extend(x.map(Item::Ex));
                        Ret::One(some)
                    }),
                    (It::Sh(it), How::Run(ad, co, _)) => guarded(move || adapt::<K, _, _, _>(it.by_ref(), Item::Sh, ad, co, sink)),
                    (It::Ex(it), How::Run(ad, co, _)) => guarded(move || adapt::<K, _, _, _>(it.by_ref(), Item::Ex, ad, co, sink)),
                    (_, How::Zip(_)) => unreachable!(),
                }
            }
            .map_err(|p| panic_message(&p))
        };
        if matches!(how, How::Zip(_)) {
            cx.res.masks.insert(cx.sh.mask());
        }
        // what was seen, without reading through anything
        let seen: Vec<Seen> = sink.iter().enumerate().map(|(j, it)| look::<K>(it, exp.kept.get(j).map(|e| e.0), &cx.sh)).collect();
        let moved = seen.iter().any(|s| !s.same);
        let tags = |sep: &str| -> String {
            if seen.is_empty() {
                "-".into()
            } else if sep == ":" {
                seen.chunks(2).map(|c| c.iter().map(|s| s.tag.to_string()).collect::<Vec<_>>().join(":")).collect::<Vec<_>>().join(",")
            } else {
                seen.iter().map(|s| s.tag.to_string()).collect::<Vec<_>>().join(",")
            }
        };
        let obs = match &real {
            Err(m) => {
                let p = panic_kind(m);
                match how {
                    How::Run(_, Consumer::Collect | Consumer::ForEach | Consumer::Fold, _) => format!("items {}{} {}", tags(","), if moved { " moved" } else { "" }, p),
                    How::Zip(_) => format!("pairs {} {}", tags(":"), p),
                    _ => p,
                }
            }
            Ok(Ret::One(false)) => "none".to_string(),
            Ok(Ret::One(true)) => seen.first().map(|s| s.obs()).unwrap_or_else(|| "?".into()),
            Ok(Ret::Count(n)) => format!("count {}", n),
            Ok(Ret::Items) => format!("items {}{} end", tags(","), if moved { " moved" } else { "" }),
            Ok(Ret::Pairs) => format!("pairs {}{} end", tags(":"), if moved { " moved" } else { "" }),
        };
        let spec = format!("from the cursor on, the registered types present are {:?} (first-registration order {:?}, present {:?}); the call must {}", l_before, cx.sh.order, present_list(&cx.sh), match (&exp.panic, how) {
            (Some((p, t)), _) => format!("`{}` at type {}", p, t),
            (None, How::Run(_, Consumer::Count, _)) => format!("return {}", exp.count),
            (None, How::Zip(_)) => format!("yield the pairs {:?}", exp.kept.chunks(2).map(|c| (c[0].0, c[1].0)).collect::<Vec<_>>()),
            (None, How::Nth(_)) | (None, How::Run(_, Consumer::Last, _)) => match exp.kept.first() {
                Some((t, _)) => format!("yield type {}", t),
                None => "return None".to_string(),
            },
            (None, _) => format!("yield the types {:?}", exp.kept.iter().map(|e| e.0).collect::<Vec<_>>()),
        });
        // 1. how the call ended
        match (&real, &exp.panic) {
            (Err(m), Some((p, t))) => {
                let got = panic_kind(m);
                cx.count(&format!("via_{}", got.split(':').next().unwrap().replace(' ', "_")));
                if got == *p {
                    cx.res.interesting = true;
                    if got == "panic badcast" {
                        cx.count(&format!("rejected_in_{}:{}", kind, shape_key(*t)));
                        if !m.contains("Bug: `CastFrom` did not cast `self`") {
                            cx.bad("badcast-message", format!("{}: wrong panic message {:?}", call, m));
                        }
                    }
                } else {
                    cx.bad("wrong-panic", format!("{} panicked with {:?}, expected `{}` at type {}; {}", call, m, p, t, spec));
                }
            }
            (Err(m), None) => cx.bad("unexpected-panic", format!("{} panicked ({:?}); {}", call, m, spec)),
            (Ok(r), Some((p, t))) => must_panic(&call, p, *t, &format!("returned normally ({:?}, objects with the methods of types {:?})", r, seen.iter().map(|s| s.tag).collect::<Vec<_>>()), &format!(" — every element a provided method passes is borrowed by `next`, also the ones it drops; {}", spec), cx),
            (Ok(_), None) => {}
        }
        // 2. what it handed out
        if !cx.stop {
            if let Ok(Ret::Count(n)) = &real {
                if *n != exp.count {
                    cx.bad("count", format!("{} returned {}; {}", call, n, spec));
                }
            }
        }
        if !cx.stop {
            let got: Vec<u32> = seen.iter().map(|s| s.tag).collect();
            let n_exp = exp.kept.len();
            let mut it = sink.into_iter();
            for (j, sn) in seen.iter().enumerate() {
                let item = it.next().unwrap();
                if j >= n_exp {
                    let class = if yielded.contains(&sn.tag) { "duplicate" } else { "extra" };
                    cx.bad(class, format!("{} handed out objects with the methods of types {:?}: the one at position {} must not be there; {}", call, got, j, spec));
                    break;
                }
                let (t, x) = exp.kept[j];
                let ctx = format!("{} [item {} of {:?}; {}]", call, j, got, spec);
                if !self.accept_item(item, sn, t, x, &yielded, &ctx, cx) {
                    break;
                }
                yielded.push(t);
                cx.res.items += 1;
            }
            if !cx.stop && seen.len() < n_exp {
                cx.bad("missing", format!("{} handed out objects with the methods of types {:?} only; {}", call, got, spec));
            }
        } else {
            // suspect objects are never touched again, just released
            drop(sink);
        }
        if !cx.stop {
            cx.sh.sh = rk.tsh;
            cx.sh.ex = rk.tex;
            if exp.panic.is_none() && exp.kept.len() >= 2 {
                cx.count("provided_method_runs_with_2+_items");
            }
        }
        if !own {
            self.iters[i].pos = exp.npos;
            self.iters[i].yielded = yielded;
        }
        obs
    }

    fn check_get(&mut self, t: u32, which: &str, o: GetObs, cx: &mut Cx) -> String {
        let tu = t as usize;
        let excl = which == "get_mut";
        let in_world = which != "get(local)";
        let registered = cx.sh.order.contains(&t);
        // expectation
        if in_world {
            if cx.sh.present[tu].is_none() {
                return match o {
                    GetObs::Absent => "absent".into(),
                    _ => {
                        cx.bad("harness", format!("{} {}: fetched an absent resource", which, t));
                        "?".into()
                    }
                };
            }
            if cx.sh.conflict(tu, excl) {
                return match o {
                    GetObs::FetchPanic(m) => panic_kind(&m),
                    _ => {
                        cx.bad("harness", format!("{} {}: fetch did not panic on a conflicting borrow", which, t));
                        "?".into()
                    }
                };
            }
        }
        let stamp_exp = if in_world { cx.sh.present[tu].unwrap().stamp } else if is_zst(tu) { 0 } else { 77 };
        let moves = tu != PLAIN as usize && cx.sh.moves(tu);
        let want_tag = cx.sh.vt(tu);
        match o {
            GetObs::Absent | GetObs::FetchPanic(_) => {
                cx.bad("harness", format!("{} {}: the fetch before the call failed unexpectedly", which, t));
                "?".into()
            }
            GetObs::None => {
                cx.count("get_none");
                if registered {
                    cx.bad("get-iff", format!("{} on a resource of registered type {} returned None (registrations {:?})", which, t, cx.sh.regs));
                }
                "none".into()
            }
            GetObs::Panic(m) => {
                let obs = panic_kind(&m);
                cx.count("get_panic");
                if registered && moves && obs == "panic badcast" {
                    cx.res.interesting = true;
                    cx.count(&format!("rejected_in_{}:{}", which.replace("(local)", ""), shape_key(t)));
                    if !m.contains("Bug: `CastFrom` did not cast `self`") {
                        cx.bad("badcast-message", format!("{}: wrong panic message {:?}", which, m));
                    }
                } else {
                    cx.bad("unexpected-panic", format!("{} on type {} panicked: {:?} (registered: {}, its cast changes the address: {})", which, desc(t), m, registered, moves));
                }
                obs
            }
            GetObs::Some { tag, same, own, stamp, after_trait, after_concrete } => {
                cx.count("get_some");
                let obs = format!("some {} {}", tag, if same { "same" } else { "moved" });
                if !registered {
                    cx.bad("get-iff", format!("{} on a resource of type {} returned Some, but that type was never registered (registrations {:?})", which, desc(t), cx.sh.regs));
                } else if moves {
                    cx.bad("badcast-not-rejected", format!("{} on a resource of type {} returned a reference (methods of type {}, address {}) although its CastFrom changes the address: it must panic with \"Bug: `CastFrom` did not cast `self`\"", which, desc(t), tag, if same { "unchanged" } else { "of something else" }));
                } else if tag != want_tag {
                    cx.bad("order-or-vtable", format!("{} on a resource of type {} returned an object whose methods are those of type {}, expected those of type {}", which, desc(t), tag, want_tag));
                } else if !own {
                    cx.bad("supertrait-vtable", format!("{} on a table for {}: the object for type {} answers the trait's own method and the inherited one inconsistently", which, K::NAME, desc(t)));
                } else if !same {
                    cx.bad("address", format!("{} on type {} returned an object at another address", which, desc(t)));
                } else if want_tag != t {
                    // same address, another type's methods (declared so): nothing read or written
                    cx.count("accepted_same_address_other_vtable");
                } else if stamp != Some(stamp_exp) {
                    cx.bad("value", format!("{} on type {}: object reads stamp {:?}, the resource holds {}", which, desc(t), stamp, stamp_exp));
                } else if excl {
                    let want = if is_zst(tu) { 0 } else { stamp_exp + 1 };
                    if after_trait != Some(want) || after_concrete != Some(want) {
                        cx.bad("value", format!("get_mut on type {}: after bump() through the trait object it reads {:?}, the resource itself {:?}, expected {}", t, after_trait, after_concrete, want));
                    } else {
                        cx.sh.present[tu].as_mut().unwrap().stamp = want;
                    }
                }
                obs
            }
        }
    }

    fn run(&mut self, ops: &[Op], cx: &mut Cx) {
        let (table, world): (&'a Tbl<K>, &'a World) = (self.table, self.world);
        for op in ops {
            if cx.stop {
                return;
            }
            let line = op.line();
            cx.count(&format!("op_{}", line.split(' ').nth(1).unwrap_or("")));
            let obs: String = match op {
                Op::Fetch(t) | Op::FetchMut(t) => {
                    let excl = matches!(op, Op::FetchMut(_));
                    let tu = *t as usize;
                    let r = with_val!(*t, T => do_fetch::<T>(self.world, excl));
                    // the fetches themselves are C08's business; here they only have to agree
                    // with the reference so that the meta oracles stand on firm ground
                    let exp = if cx.sh.present[tu].is_none() { "none" } else if cx.sh.conflict(tu, excl) { "panic borrowed" } else { "guard" };
                    let obs = match r {
                        Ok(Some(g)) => {
                            self.guards.push((*t, excl, g));
                            if exp == "guard" {
                                if excl {
                                    cx.sh.ex[tu] = true
                                } else {
                                    cx.sh.sh[tu] += 1
                                }
                            }
                            "guard".to_string()
                        }
                        Ok(None) => "none".into(),
                        Err(m) => panic_kind(&m),
                    };
                    if obs != exp {
                        cx.bad("harness", format!("`{}` gave {} where the reference expects {}", line, obs, exp));
                    }
                    obs
                }
                Op::Drop(k) => {
                    if self.guards.is_empty() {
                        "noop".into()
                    } else {
                        let i = *k as usize % self.guards.len();
                        let (t, excl, g) = self.guards.remove(i);
                        drop(g);
                        if excl {
                            cx.sh.ex[t as usize] = false;
                        } else {
                            cx.sh.sh[t as usize] -= 1;
                        }
                        format!("dropped {}", t)
                    }
                }
                Op::Get(t) => {
                    let o = with_val!(*t, T => do_get::<T, K>(self.world, self.table, false));
                    self.check_get(*t, "get", o, cx)
                }
                Op::GetMut(t) => {
                    let o = with_val!(*t, T => do_get::<T, K>(self.world, self.table, true));
                    self.check_get(*t, "get_mut", o, cx)
                }
                Op::GetLoc(t) => {
                    let o = with_val!(*t, T => do_getloc::<T, K>(self.table));
                    self.check_get(*t, "get(local)", o, cx)
                }
                Op::Iter => {
                    self.iters.push(ItS { it: It::Sh(table.iter(world)), excl: false, pos: 0, yielded: vec![] });
                    cx.res.masks.insert(cx.sh.mask());
                    "ok".into()
                }
                Op::IterMut => {
                    self.iters.push(ItS { it: It::Ex(table.iter_mut(world)), excl: true, pos: 0, yielded: vec![] });
                    cx.res.masks.insert(cx.sh.mask());
                    "ok".into()
                }
                Op::Next(k) => {
                    if self.iters.is_empty() {
                        "noop".into()
                    } else {
                        let i = *k as usize % self.iters.len();
                        self.step(i, cx)
                    }
                }
                Op::Collect(k) => {
                    if self.iters.is_empty() {
                        "noop".into()
                    } else {
                        let i = *k as usize % self.iters.len();
                        let mut tags: Vec<String> = vec![];
                        let mut moved = false;
                        let ending;
                        let mut calls = 0;
                        loop {
                            let o = self.step(i, cx);
                            calls += 1;
                            if let Some(rest) = o.strip_prefix("item ") {
                                let mut p = rest.split(' ');
                                tags.push(p.next().unwrap_or("?").to_string());
                                moved |= p.next() == Some("moved");
                                if cx.stop || calls > 64 {
                                    ending = "aborted".to_string();
                                    break;
                                }
                            } else if o == "none" {
                                ending = "end".into();
                                if self.iters[i].yielded.len() >= 2 {
                                    cx.count("complete_iterations_with_2+_items");
                                }
                                break;
                            } else {
                                ending = o;
                                break;
                            }
                        }
                        format!("items {}{} {}", if tags.is_empty() { "-".into() } else { tags.join(",") }, if moved { " moved" } else { "" }, ending)
                    }
                }
                Op::Nth(k, n) => {
                    if self.iters.is_empty() {
                        "noop".into()
                    } else {
                        let i = *k as usize % self.iters.len();
                        self.drive(i, How::Nth(*n), cx)
                    }
                }
                Op::Run { k, ad, co, own } => {
                    if self.iters.is_empty() {
                        "noop".into()
                    } else {
                        let i = *k as usize % self.iters.len();
                        self.drive(i, How::Run(*ad, *co, *own), cx)
                    }
                }
                Op::Zip(k, m) => {
                    if self.iters.is_empty() {
                        "noop".into()
                    } else {
                        let i = *k as usize % self.iters.len();
                        self.drive(i, How::Zip(*m), cx)
                    }
                }
                Op::Hint(k) => {
                    if self.iters.is_empty() {
                        "noop".into()
                    } else {
                        let i = *k as usize % self.iters.len();
                        let (lo, hi) = match &self.iters[i].it {
                            It::Sh(it) => it.size_hint(),
                            It::Ex(it) => it.size_hint(),
                        };
                        // the number of items that follow: the registered types from the cursor on that are present
                        let pos = self.iters[i].pos.min(cx.sh.order.len());
                        let r = cx.sh.order[pos..].iter().filter(|t| cx.sh.present[**t as usize].is_some()).count();
                        if hi.is_some() {
                            cx.count("size_hint_with_upper_bound");
                        }
                        if lo <= r && hi.map(|h| r <= h).unwrap_or(true) {
                            "hint ok".into()
                        } else {
                            cx.bad("size-hint", format!("{}.size_hint() = ({}, {:?}) but {} items follow (first-registration order {:?}, cursor at slot {}, present {:?})", if self.iters[i].excl { "iter_mut" } else { "iter" }, lo, hi, r, cx.sh.order, pos, present_list(&cx.sh)));
                            "hint bad".into()
                        }
                    }
                }
                Op::DropIt(k) => {
                    if self.iters.is_empty() {
                        "noop".into()
                    } else {
                        let i = *k as usize % self.iters.len();
                        drop(self.iters.remove(i));
                        "ok".into()
                    }
                }
                Op::Arm(b) => {
                    arm(*b);
                    cx.sh.armed = *b;
                    "ok".into()
                }
                Op::End | Op::Reg(_) | Op::Ins(_) | Op::Rem(_) | Op::Trait(_) | Op::GetRaw(_) => unreachable!("phase boundary inside a phase"),
            };
            cx.model(&line, &obs, "outcome");
            if cx.stop {
                return;
            }
            // borrow flags of every cell: what the real cells say, what the engine's own guards
            // imply, what the model says
            let p = probe(self.world);
            let e = cx.sh.expected_probe();
            if p != e {
                cx.bad("borrow-state", format!("after `{}` the cells are [{}] but the guards alive imply [{}] (iter must borrow shared, iter_mut exclusively, a dropped item / a panicking call must leave nothing behind)", line, p, e));
                return;
            }
            cx.model("meta probe", &p, "borrow-state");
        }
    }
}

fn present_list(sh: &Shadow) -> Vec<usize> {
    (0..NTY).filter(|t| sh.present[*t].is_some()).collect()
}

/// the first `meta trait` line of a case says which trait object its table is for
pub fn eval_case(ops: &[Op], drv: Option<&mut Drv>) -> CaseResult {
    let kind = ops.iter().find_map(|o| if let Op::Trait(k) = o { Some(*k) } else { None }).unwrap_or(0);
    if kind == 1 {
        eval_kind::<KSub>(ops, drv)
    } else {
        eval_kind::<KObj>(ops, drv)
    }
}

fn shape_key(t: u32) -> String {
    let i = &TYPES[t as usize];
    let shape = match i.shape.split(' ').next().unwrap_or("") {
        "other" => "twin",
        "object" => "decoy",
        "zero-sized" if i.shape.contains("field") => "field",
        "zero-sized" => "decoy",
        "lawful," => "switch",
        w => w,
    };
    format!("{}{}{}:{}", if i.size == 0 { "zst" } else { "sized" }, if i.drop { "+drop" } else { "" }, if i.generic { "+generic" } else { "" }, shape)
}

fn eval_kind<K: Kind>(ops: &[Op], drv: Option<&mut Drv>) -> CaseResult {
    static CHECKED: std::sync::Once = std::sync::Once::new();
    CHECKED.call_once(table_selfcheck);
    arm(false);
    let live_before = live();
    let mut world = World::empty();
    let mut table = Tbl::<K>::new();
    let mut cx = Cx {
        drv,
        sh: Shadow { order: vec![], regs: vec![], present: [None; NTY], sh: [0; NTY], ex: [false; NTY], next_stamp: 1, armed: false },
        res: CaseResult::default(),
        stop: false,
    };
    cx.model(&format!("meta new {}", cast_spec()), "ok", "outcome");
    let mut i = 0;
    while i < ops.len() && !cx.stop {
        let op = &ops[i];
        if op.is_mut() {
            let line = op.line();
            cx.count(&format!("op_{}", line.split(' ').nth(1).unwrap_or("")));
            let obs = match op {
                Op::Trait(_) => "ok".to_string(),
                Op::Reg(t) => {
                    // the stable `register` never calls the cast: no type is rejected here
                    let r = catch_unwind(AssertUnwindSafe(|| with_obj!(*t, T => K::register::<T>(&mut table))));
                    if TYPES[*t as usize].kind != CastKind::Lawful {
                        cx.count(&format!("registered:{}", shape_key(*t)));
                    }
                    if cx.sh.order.contains(t) {
                        cx.count("repeated_registrations");
                        cx.res.interesting = true;
                    } else {
                        cx.sh.order.push(*t);
                    }
                    cx.sh.regs.push(*t);
                    match r {
                        Ok(()) => "ok".to_string(),
                        Err(p) => {
                            let m = panic_message(&p);
                            cx.bad("unexpected-panic", format!("register of type {} panicked: {:?}", desc(*t), m));
                            panic_kind(&m)
                        }
                    }
                }
                Op::GetRaw(t) => {
                    let o = with_val!(*t, T => do_getraw::<T, K>(&mut world, &table));
                    let mut ph: Phase<'_, K> = Phase { world: &world, table: &table, guards: vec![], iters: vec![] };
                    ph.check_get(*t, "get_mut", o, &mut cx)
                }
                Op::Ins(t) => {
                    let stamp = cx.sh.next_stamp;
                    cx.sh.next_stamp += 1;
                    let (addr, st) = with_val!(*t, T => {
                        world.insert(T::make(stamp));
                        let f = world.try_fetch::<T>().expect("just inserted");
                        (&*f as *const T as usize, f.stamp_of())
                    });
                    cx.sh.present[*t as usize] = Some(Cell { addr, stamp: st });
                    "ok".to_string()
                }
                Op::Rem(t) => {
                    let got: Option<u64> = with_val!(*t, T => world.remove::<T>().map(|v| v.stamp_of()));
                    let exp = cx.sh.present[*t as usize].map(|c| c.stamp);
                    if got != exp {
                        cx.bad("harness", format!("remove of type {} returned stamp {:?}, the reference holds {:?}", t, got, exp));
                    }
                    cx.sh.present[*t as usize] = None;
                    if got.is_some() { "some".to_string() } else { "none".to_string() }
                }
                _ => unreachable!(),
            };
            cx.model(&line.replace("meta getraw", "meta getmut"), &obs, "outcome");
            i += 1;
            continue;
        }
        if *op == Op::End {
            // nothing alive between phases
            cx.count("op_end");
            cx.model("meta end", "ok", "outcome");
            i += 1;
            continue;
        }
        let j = i + ops[i..].iter().position(|o| o.is_mut() || *o == Op::End).unwrap_or(ops.len() - i);
        {
            let mut ph: Phase<'_, K> = Phase { world: &world, table: &table, guards: vec![], iters: vec![] };
            ph.run(&ops[i..j], &mut cx);
            cx.res.stats.entry("max_live_guards".into()).and_modify(|m| *m = (*m).max(ph.guards.len() as u64)).or_insert(ph.guards.len() as u64);
            // everything the phase held is dropped here
        }
        cx.sh.sh = [0; NTY];
        cx.sh.ex = [false; NTY];
        if cx.stop {
            break;
        }
        cx.model("meta end", "ok", "outcome");
        let p = probe(&world);
        let e = cx.sh.expected_probe();
        if p != e {
            cx.bad("borrow-state", format!("after every guard, item and iterator was dropped the cells are [{}], expected [{}]", p, e));
            break;
        }
        cx.model("meta probe", &p, "borrow-state");
        i = if j < ops.len() && ops[j] == Op::End {
            cx.count("op_end");
            j + 1
        } else {
            j
        };
    }
    arm(false);
    drop(table);
    drop(world);
    if !cx.stop && live() != live_before {
        cx.bad("drop-count", format!("{} values of types with Drop are alive after the world was dropped (0 expected): a conversion or an iterator dropped or leaked a resource", live() - live_before));
    }
    cx.res
}

// ---------------------------------------------------------------------------------------------
// generation

/// implementors with the lawful cast
const GOOD: [u32; 15] = [0, 1, 2, 3, 4, 5, 6, 9, 10, 11, 12, 13, 14, 15, 16];
fn wrong_types() -> Vec<u32> {
    (0..NTY as u32).filter(|t| TYPES[*t as usize].kind != CastKind::Lawful).collect()
}

fn gen_run(rng: &mut Rng, k: u32) -> Op {
    let ad = match rng.below(10) {
        0..=2 => Adapter::Plain,
        3..=5 => Adapter::Skip(rng.below(4) as u32),
        6..=7 => Adapter::StepBy(1 + rng.below(3) as u32),
        _ => Adapter::Take(rng.below(4) as u32),
    };
    let co = *rng.pick(&[Consumer::Collect, Consumer::Collect, Consumer::ForEach, Consumer::Fold, Consumer::Last, Consumer::Count]);
    Op::Run { k, ad, co, own: rng.chance(40) }
}

/// Every subset of `tys` present, `tys[0]` and `tys[1]` registered twice: both iterators driven
/// through every provided method (`nth`, `skip`, `step_by`, `take`, `last`, `count`, `fold`,
/// `for_each`, `collect`, `size_hint`, `zip`, `by_ref` + `next`), on a free world and with a
/// guard alive; then one type removed / another inserted and the iterations repeated. Run in
/// every tier.
fn drive_scope(todo: &mut Vec<(String, Vec<Op>)>, name: &str, tys: &[u32], trait_kind: u32) {
    let n = tys.len();
    for mask in 0..1u32 << n {
        for itop in [Op::Iter, Op::IterMut] {
            let mut ops = if trait_kind == 1 { vec![Op::Trait(1)] } else { vec![] };
            // first-registration order = tys, with repeats
            ops.extend([Op::Reg(tys[0]), Op::Reg(tys[1]), Op::Reg(tys[0])]);
            for &t in &tys[2..] {
                ops.push(Op::Reg(t));
                ops.push(Op::Reg(tys[1]));
            }
            for (i, &t) in tys.iter().enumerate() {
                if mask >> i & 1 == 1 {
                    ops.push(Op::Ins(t));
                }
            }
            let run = |ad, co, own| Op::Run { k: 0, ad, co, own };
            let scripts = |ops: &mut Vec<Op>, full: bool| {
                for m in 0..=n as u32 {
                    // nth from the start, then on: the iterator goes on where nth stopped
                    ops.extend([itop.clone(), Op::Hint(0), Op::Nth(0, m), Op::Hint(0), Op::Nth(0, 0), Op::Next(0), Op::End]);
                }
                ops.extend([itop.clone(), Op::Next(0), Op::Nth(0, 1), Op::Nth(0, 1), Op::End]);
                for m in 1..n as u32 {
                    ops.extend([itop.clone(), run(Adapter::Skip(m), Consumer::Collect, true), Op::End]);
                    ops.extend([itop.clone(), run(Adapter::StepBy(m), if m % 2 == 1 { Consumer::ForEach } else { Consumer::Collect }, m % 2 == 0), Op::End]);
                    ops.extend([itop.clone(), run(Adapter::Take(m), Consumer::Collect, false), Op::Hint(0), Op::Next(0), run(Adapter::Plain, Consumer::Last, true), Op::End]);
                }
                ops.extend([itop.clone(), run(Adapter::Plain, Consumer::Count, true), Op::End]);
                ops.extend([itop.clone(), run(Adapter::Plain, Consumer::Fold, true), Op::End]);
                ops.extend([itop.clone(), run(Adapter::Plain, Consumer::Collect, false), Op::Next(0), Op::End]);
                ops.extend([itop.clone(), run(Adapter::Skip(1), Consumer::Last, true), Op::End]);
                ops.extend([itop.clone(), Op::Next(0), run(Adapter::Skip(1), Consumer::Count, false), Op::Hint(0), Op::Next(0), Op::End]);
                ops.extend([itop.clone(), run(Adapter::StepBy(2), Consumer::Last, false), Op::Next(0), Op::End]);
                ops.extend([itop.clone(), run(Adapter::Take(2), Consumer::Count, false), run(Adapter::StepBy(2), Consumer::Fold, false), Op::End]);
                ops.extend([itop.clone(), Op::Zip(0, false), Op::End]);
                if full {
                    ops.extend([itop.clone(), Op::Zip(0, true), Op::End]);
                    ops.extend([itop.clone(), Op::Next(0), Op::Zip(0, false), Op::End]);
                    // a guard alive: shared (legal for `iter`), exclusive (every call that has to
                    // pass the resource panics there, and leaves nothing behind)
                    ops.extend([Op::Fetch(tys[1]), itop.clone(), Op::Nth(0, 2), Op::Next(0), Op::End]);
                    ops.extend([Op::Fetch(tys[0]), itop.clone(), run(Adapter::StepBy(2), Consumer::Collect, true), Op::End]);
                    ops.extend([Op::FetchMut(tys[2]), itop.clone(), Op::Nth(0, 1), Op::Next(0), Op::End]);
                    ops.extend([Op::FetchMut(tys[2]), itop.clone(), run(Adapter::Skip(1), Consumer::ForEach, false), Op::Next(0), Op::End]);
                    ops.extend([Op::FetchMut(tys[n - 1]), itop.clone(), run(Adapter::Skip(2), Consumer::Collect, false), Op::Drop(0), Op::Next(0), Op::End]);
                }
            };
            scripts(&mut ops, true);
            // removal and re-insertion between iterations
            ops.extend([Op::Rem(tys[1]), Op::Ins(tys[n - 1]), Op::Reg(tys[n - 1])]);
            scripts(&mut ops, false);
            ops.extend([Op::Ins(tys[1]), Op::Rem(tys[0])]);
            ops.extend([itop.clone(), Op::Nth(0, 1), Op::End, itop.clone(), run(Adapter::StepBy(2), Consumer::Collect, true), Op::End, itop.clone(), run(Adapter::Skip(1), Consumer::Collect, true), Op::End]);
            todo.push((format!("drive:{}:{}:{}:{}", name, trait_kind, mask, if itop == Op::Iter { "iter" } else { "iter_mut" }), ops));
        }
    }
}

fn gen_case(rng: &mut Rng, long: bool) -> Vec<Op> {
    let mut ops = vec![];
    if rng.chance(25) {
        ops.push(Op::Trait(1));
    }
    // one case in seven uses (nearly) every lawful type and registers many of them: tables with
    // more than a handful of entries
    let wide = rng.chance(14);
    let mut uni: Vec<u32> = GOOD.iter().copied().filter(|_| rng.chance(if wide { 90 } else { 30 })).collect();
    if uni.len() < 2 {
        uni = vec![0, 3, 5];
    }
    let wrong = wrong_types();
    let nwrong = match rng.below(100) {
        0..=44 => 0,
        45..=74 => 1,
        75..=92 => 2,
        _ => 4,
    };
    for _ in 0..nwrong {
        let t = *rng.pick(&wrong);
        if !uni.contains(&t) {
            uni.push(t);
        }
    }
    rng.shuffle(&mut uni);
    let has_switch = uni.iter().any(|t| TYPES[*t as usize].kind == CastKind::Switch);
    let objs = uni.clone();
    if rng.chance(35) {
        uni.push(PLAIN);
    }
    let classic = rng.chance(30);
    let driven = !classic && rng.chance(30);
    let rounds = 1 + rng.below(3);
    for round in 0..rounds {
        let mut muts = vec![];
        let nreg = if round == 0 { if wide { 12 + rng.below(14) } else { rng.below(10) } } else { rng.below(4) };
        for _ in 0..nreg {
            muts.push(Op::Reg(*rng.pick(&objs)));
        }
        for &t in &uni {
            if rng.chance(if round == 0 { 65 } else { 25 }) {
                muts.push(Op::Ins(t));
                if rng.chance(10) {
                    muts.push(Op::Ins(t));
                }
            }
            if rng.chance(if round == 0 { 8 } else { 25 }) {
                muts.push(Op::Rem(t));
            }
        }
        rng.shuffle(&mut muts);
        ops.extend(muts);
        if driven {
            // whole iterations through the provided methods, on a world without other guards or
            // with one guard alive; the iterator is used on (`next`) where it survives the call
            for _ in 0..2 + rng.below(3) {
                if has_switch && rng.chance(20) {
                    ops.push(Op::Arm(rng.chance(50)));
                }
                if rng.chance(25) {
                    let t = *rng.pick(&uni);
                    ops.push(if rng.chance(70) { Op::Fetch(t) } else { Op::FetchMut(t) });
                }
                ops.push(if rng.chance(50) { Op::Iter } else { Op::IterMut });
                for _ in 0..rng.below(3) {
                    ops.push(match rng.below(4) {
                        0 => Op::Next(0),
                        1 => Op::Hint(0),
                        _ => Op::Nth(0, rng.below(4) as u32),
                    });
                }
                if rng.chance(15) {
                    ops.push(Op::Zip(0, rng.chance(30)));
                } else {
                    let r = gen_run(rng, 0);
                    let stays = matches!(r, Op::Run { own: false, .. });
                    ops.push(r);
                    if stays {
                        ops.push(if rng.chance(50) { Op::Next(0) } else { gen_run(rng, 0) });
                    }
                }
                ops.push(Op::End);
            }
            continue;
        }
        if classic {
            // the textbook use: whole iterations on a world without other guards, then lookups
            let mut seq = vec![vec![Op::Iter, Op::Collect(0)], vec![Op::IterMut, Op::Collect(0)]];
            rng.shuffle(&mut seq);
            for s in seq {
                if has_switch && rng.chance(30) {
                    ops.push(Op::Arm(rng.chance(60)));
                }
                ops.extend(s);
                ops.push(Op::End);
            }
            for &t in &uni {
                if has_switch && rng.chance(15) {
                    ops.push(Op::Arm(rng.chance(50)));
                }
                if rng.chance(60) {
                    ops.push(match rng.below(3) {
                        0 => Op::Get(t),
                        1 => Op::GetMut(t),
                        _ => Op::GetLoc(t),
                    });
                }
            }
            continue;
        }
        let n = 4 + rng.below(if long { 40 } else { 18 });
        let mut live_iters = 0u32;
        for _ in 0..n {
            if has_switch && rng.chance(8) {
                ops.push(Op::Arm(rng.chance(50)));
            }
            let r = rng.below(100);
            let t = *rng.pick(&uni);
            let k = rng.below(4) as u32;
            let op = match r {
                0..=11 => {
                    live_iters += 1;
                    if rng.chance(50) { Op::Iter } else { Op::IterMut }
                }
                12..=53 if live_iters == 0 => {
                    live_iters += 1;
                    if rng.chance(50) { Op::Iter } else { Op::IterMut }
                }
                12..=33 => Op::Next(k),
                34..=39 => Op::Nth(k, rng.below(4) as u32),
                40..=45 => gen_run(rng, k),
                46 => Op::Hint(k),
                47..=52 => Op::Collect(k),
                53 => {
                    live_iters = live_iters.saturating_sub(1);
                    Op::Zip(k, rng.chance(30))
                }
                54..=63 => Op::Fetch(t),
                64..=70 => Op::FetchMut(t),
                71..=80 => Op::Drop(k),
                81..=86 => Op::Get(t),
                87..=89 => Op::GetMut(t),
                90..=91 => Op::GetRaw(t),
                92..=94 => Op::GetLoc(t),
                95..=97 => {
                    live_iters = live_iters.saturating_sub(1);
                    Op::DropIt(k)
                }
                _ => {
                    live_iters = 0;
                    Op::End
                }
            };
            ops.push(op);
        }
    }
    ops
}

/// For every type, for both trait objects: alone and between two lawful types, every operation,
/// with the switch off and on. Run in every tier: each kind of implementor × each shape of cast ×
/// register / get / get_mut / get outside the world / iter / iter_mut is met whatever the seed.
fn systematic(todo: &mut Vec<(String, Vec<Op>)>) {
    for kind in 0..2u32 {
        for t in 0..NTY as u32 {
            let head = if kind == 1 { vec![Op::Trait(1)] } else { vec![] };
            let lookups = [Op::Get(t), Op::GetMut(t), Op::GetRaw(t), Op::GetLoc(t)];
            let loops = [Op::Iter, Op::Collect(0), Op::End, Op::IterMut, Op::Collect(0), Op::End];
            // alone
            let mut a = head.clone();
            if t != PLAIN {
                a.push(Op::Reg(t));
            }
            a.push(Op::Ins(t));
            for armed in [false, true] {
                a.push(Op::Arm(armed));
                a.extend(lookups.iter().cloned());
                a.extend(loops.iter().cloned());
            }
            a.extend([Op::Arm(false), Op::Get(t)]);
            todo.push((format!("sys:{}:alone:{}", kind, t), a));
            if t == PLAIN {
                continue;
            }
            // between two lawful types, registered twice, stepping past the rejected one; then
            // removed and iterated again
            let (l, r) = if t == 3 || t == 1 { (4, 2) } else { (3, 1) };
            let mut b = head.clone();
            b.extend([Op::Reg(l), Op::Reg(t), Op::Reg(r), Op::Reg(t), Op::Ins(r), Op::Ins(t), Op::Ins(l)]);
            for armed in [false, true] {
                b.push(Op::Arm(armed));
                for it in [Op::Iter, Op::IterMut] {
                    b.extend([it, Op::Next(0), Op::Next(0), Op::Next(0), Op::Next(0), Op::End]);
                }
            }
            b.extend([Op::Rem(t), Op::Iter, Op::Collect(0), Op::End, Op::Ins(t), Op::Arm(true), Op::IterMut, Op::Collect(0), Op::GetLoc(t), Op::End]);
            todo.push((format!("sys:{}:between:{}", kind, t), b));
        }
    }
}

/// every subset of `tys` present × every registration sequence of length ≤ 3 over these types
/// (repeats included): both iterators to the end, every lookup
fn small_scope(todo: &mut Vec<(String, Vec<Op>)>, name: &str, tys: [u32; 5], armed: bool) {
    let mut seqs: Vec<Vec<u32>> = vec![vec![]];
    let mut frontier: Vec<Vec<u32>> = vec![vec![]];
    for _ in 0..3 {
        let mut next = vec![];
        for s in &frontier {
            for &t in &tys {
                let mut s2 = s.clone();
                s2.push(t);
                next.push(s2);
            }
        }
        seqs.extend(next.iter().cloned());
        frontier = next;
    }
    let mut n = 0;
    for mask in 0..32u32 {
        for s in &seqs {
            let mut ops: Vec<Op> = s.iter().map(|t| Op::Reg(*t)).collect();
            for (i, &t) in tys.iter().enumerate() {
                if mask >> i & 1 == 1 {
                    ops.push(Op::Ins(t));
                }
            }
            if armed {
                ops.push(Op::Arm(true));
            }
            ops.extend([Op::Iter, Op::Collect(0), Op::End, Op::IterMut, Op::Collect(0), Op::End]);
            for &t in &tys {
                ops.push(Op::Get(t));
                ops.push(Op::GetMut(t));
            }
            n += 1;
            todo.push((format!("small:{}:{}", name, n), ops));
        }
    }
}

fn shrink(ops: &[Op], pred: &mut dyn FnMut(&[Op]) -> bool) -> Vec<Op> {
    let mut cur = ops.to_vec();
    let mut budget = 600;
    loop {
        let mut changed = false;
        let mut i = cur.len();
        while i > 0 && budget > 0 {
            i -= 1;
            let mut cand = cur.clone();
            cand.remove(i);
            budget -= 1;
            if pred(&cand) {
                cur = cand;
                changed = true;
            }
        }
        if !changed || budget == 0 {
            return cur;
        }
    }
}

pub fn run(args: &Args, rep: &mut Report) {
    let seed = args.num("seed", 1);
    let cases = args.num("cases", 400);
    let long = args.flag("long");
    let mut drv = Drv::spawn(&args.str("driver", "/verif/lean/.lake/build/bin/driver"));
    rep.rule = "histories of register (with repeats) / world insert+remove / get / get_mut / get on a value outside the world / iter / iter_mut / next / whole-loop collect / the provided Iterator methods (nth, size_hint, and skip / step_by / take / the iterator itself consumed by collect / for_each / fold / last / count, on the iterator or on by_ref() of it and then used on; zip with a fresh iter / iter_mut), interleaved with try_fetch / try_fetch_mut guards of the same resources, over 40 types (listed in `types`: zero-sized / sized / Drop / aligned / generic implementors, each kind with the lawful CastFrom and with wrong ones — offset, another object of the same type, a static, a field, an object of another type, lawful until a switch is armed; 8 = does not implement the trait), on a table for `dyn Obj` or for a trait with supertraits; besides the random histories, for every type and both traits two fixed histories exercise register / get / get_mut / get outside the world / iter / iter_mut with the switch off and on; for every subset present of 4 types (two of them registered repeatedly) both iterators are driven through every provided method from the start and from later cursors, on a free world and with a shared / an exclusive guard alive, before and after a removal and a re-insertion — the expected result of each call is reckoned from the list of registered types in first-registration order filtered by presence; distinct = distinct (request, observed answer) histories; non-trivial = an iterator yielded at least one item and the history contains a repeated registration, a registered-but-absent type skipped, or an expected panic (borrow conflict / rejected cast)".into();
    let mut todo: Vec<(String, Vec<Op>)> = vec![];
    // histories over hundreds of implementing types (their own little evaluator, same protocol)
    let mut many_todo: Vec<(String, Vec<String>)> = vec![];
    if let Some(f) = args.get("replay") {
        let text = std::fs::read_to_string(&f).expect("replay file");
        let lines: Vec<String> = text.lines().map(|s| s.to_string()).collect();
        if lines.first().map(|l| l.trim() == "many").unwrap_or(false) {
            many_todo.push((format!("replay:{}", f), lines));
        } else {
            todo.push((format!("replay:{}", f), Op::parse(&lines)));
        }
    } else {
        for c in 0..args.num("many-cases", 3) {
            let mut rng = Rng::new(seed ^ 0x3a9f, c);
            many_todo.push((format!("many:{}:{}", seed, c), many::gen(&mut rng)));
        }
    }
    for (label, lines) in many_todo {
        drv.begin_case();
        let (bad, model) = many::eval(&lines, Some(&mut drv));
        rep.case(&lines.join("\n"), true);
        rep.count("histories_over_more_than_256_types");
        rep.maxi("max_types_registered_in_one_table", lines.iter().filter(|l| l.starts_with("meta reg")).count() as u64);
        if let Some(b) = bad.first() {
            rep.violate("C17", "impl", "many", format!("{} [{}]", b, label), lines.clone());
        }
        if let Some(m) = model.first() {
            rep.violate("MODEL:many", "model", "", format!("{} [{}]", m, label), lines.clone());
        }
    }
    if let Some(dir) = args.get("corpus") {
        if let Ok(rd) = std::fs::read_dir(&dir) {
            let mut files: Vec<_> = rd.filter_map(|e| e.ok()).map(|e| e.path()).filter(|p| p.extension().map(|x| x == "case").unwrap_or(false)).collect();
            files.sort();
            for f in files {
                let text = std::fs::read_to_string(&f).unwrap_or_default();
                let lines: Vec<String> = text.lines().map(|s| s.to_string()).collect();
                todo.push((format!("corpus:{}", f.display()), Op::parse(&lines)));
                rep.count("corpus_cases");
            }
        }
    }
    if args.get("replay").is_none() {
        systematic(&mut todo);
        // {Zst, Word, Big, Gen<u8>}: every presence subset, every provided method
        drive_scope(&mut todo, "a", &[0, 3, 5, 13], 0);
        if args.flag("small-scope") {
            // {Zst, Byte, Big, Aligned, Evil}
            small_scope(&mut todo, "a", [0, 1, 5, 6, 7], false);
            // {ZstTwin, Field0, ZstDecoy, WordSw, Gen<u8>} with the switch on
            small_scope(&mut todo, "b", [22, 28, 32, 38, 13], true);
            // {ZstOff, ZstStat, DropTwin, ZstA64, ZstSw}
            small_scope(&mut todo, "c", [17, 26, 24, 9, 39], false);
            // {Byte, ZstA64, DropW, Aligned, Mid}, {ZstDrop, Half, Packed, Zst, Word} on the table for `dyn Sub`
            drive_scope(&mut todo, "b", &[1, 9, 11, 6, 4], 0);
            drive_scope(&mut todo, "c", &[10, 2, 12, 0, 3], 1);
        }
        for c in 0..cases {
            let mut rng = Rng::new(seed, c);
            todo.push((format!("gen:{}:{}", seed, c), gen_case(&mut rng, long)));
        }
    }
    let mut reported: BTreeSet<String> = Default::default();
    let mut masks: BTreeSet<u64> = Default::default();
    for (label, ops) in todo {
        mark_current(&case_lines(&ops));
        drv.begin_case();
        let res = eval_case(&ops, Some(&mut drv));
        let key = res.history.join("\n");
        rep.case(&key, res.items > 0 && res.interesting);
        rep.traces_validated += 1;
        for (k, v) in &res.stats {
            if k.starts_with("max_") {
                rep.maxi(k, *v);
            } else {
                rep.add(k, *v);
            }
        }
        rep.maxi("max_ops_per_case", ops.len() as u64);
        masks.extend(res.masks.iter().copied());
        if res.items >= 2 && res.interesting {
            rep.sample(Json::obj(vec![("label", Json::s(label.clone())), ("history", Json::Arr(res.history.iter().map(|h| Json::s(h.clone())).collect()))]));
        }
        for (class, what) in &res.impl_v {
            if reported.insert(format!("impl:{}", class)) {
                let cl = class.clone();
                let small = shrink(&ops, &mut |c: &[Op]| eval_case(c, None).impl_v.iter().any(|(q, _)| *q == cl));
                let r2 = eval_case(&small, None);
                let what2 = r2.impl_v.iter().find(|(q, _)| q == class).map(|x| x.1.clone()).unwrap_or_else(|| what.clone());
                rep.violate("C17", "impl", class, format!("{} [{}]", what2, label), case_lines(&small));
            }
        }
        for (aspect, what) in &res.model_v {
            if reported.insert(format!("model:{}", aspect)) {
                let asp = aspect.clone();
                let small = shrink(&ops, &mut |c: &[Op]| {
                    drv.begin_case();
                    eval_case(c, Some(&mut drv)).model_v.iter().any(|(a, _)| *a == asp)
                });
                drv.begin_case();
                let r2 = eval_case(&small, Some(&mut drv));
                let what2 = r2.model_v.iter().find(|(a, _)| a == aspect).map(|x| x.1.clone()).unwrap_or_else(|| what.clone());
                rep.violate(&format!("MODEL:{}", aspect), "model", "", format!("{} [{}]", what2, label), case_lines(&small));
            }
        }
    }
    rep.add("distinct_present_subsets_iterated", masks.len() as u64);
    rep.add("driver_requests", drv.requests);
    rep.extra.push(("type_sizes".into(), Json::Arr(TYPES.iter().map(|i| Json::n(i.size as u64)).collect())));
    rep.extra.push(("types".into(), Json::Arr((0..NTY as u32).map(|t| Json::s(desc(t))).collect())));
}
