//! Generated part of the rendezvous engine (C11).
//!
//! A *case* is a configuration line (`rdv exec=… caller=… entry=… pool=… env=… inner=… wpos=… reps=…`)
//! followed by registration lines (the same lines the Lean driver reads). The registrations are
//! built on the real `DispatcherBuilder` with systems that can be told to wait, with a deadline,
//! until one system of every group of a chosen stage is inside `run`; the stage shapes come from
//! the implementation's own plan (`verif_shape` hooks + one sequential identification run). Every
//! stage of every dispatcher of the case (top level, batches, nested batches) that has at least
//! two groups is the target of one experiment of `reps` dispatches.
//!
//! `exec=async` cases may drive the `AsyncDispatcher` with a *sequence of calls* per repetition
//! (`script=ddrdw`: dispatch / wait / wait_without_tl / running / world, then a final wait) and hold
//! the first system of the first stage inside `run` for `delay` ms while the experiment is on a
//! later stage — so that a job which a later `dispatch()` put on the pool has certainly been picked
//! up when the wide stage starts (`gen_seq_case`; see `notes/C11.md`).
//!
//! The real side of a case runs in a **child process** of this binary (`rendezvous --child`)
//! started with `RAYON_NUM_THREADS` = the case's `env`, because that variable (or the number of
//! cores) is what sizes a default pool; the parent owns the Lean driver, generates the cases,
//! compares and reports. A child that does not answer in time is killed and reported.
use crate::build::*;
use crate::common::*;
use crate::engines::plan::shrink;
use crate::gen::*;
use crate::sys::*;
use shred::*;
use std::collections::{BTreeMap, BTreeSet};
use std::io::{BufRead, BufReader, Write as IoWrite};
use std::panic::{catch_unwind, AssertUnwindSafe};
use std::process::{Child, ChildStdin, Command, Stdio};
use std::sync::atomic::{AtomicU64, AtomicUsize, Ordering::SeqCst};
use std::sync::mpsc::{channel, Receiver};
use std::sync::{Arc, Condvar, Mutex};
use std::time::{Duration, Instant};

// ---------------------------------------------------------------------------------------------
// configuration line
// ---------------------------------------------------------------------------------------------

#[derive(Clone, Debug, PartialEq)]
pub enum PoolCfg {
    /// no `add_pool`: `build` creates the pool
    Default,
    /// `add_pool(p threads)` before the registrations
    User(usize),
    /// `add_pool(p threads)` after the last registration (the batches were built before it)
    Late(usize),
}

#[derive(Clone, Debug, PartialEq)]
pub struct RCfg {
    /// "sync" (`build`) | "async" (`build_async`)
    pub exec: String,
    /// who calls dispatch: "main" | "foreign" (a worker of an unrelated one-thread pool) | "own" (a worker of the dispatcher's own user-supplied pool)
    pub caller: String,
    /// "dispatch" | "par" (`dispatch_par`) | "runnow" (`RunNow::run_now`)
    pub entry: String,
    pub pool: PoolCfg,
    /// RAYON_NUM_THREADS of the process the case runs in
    pub env: usize,
    /// batch tag → size of a pool given to the batch's own builder with `add_pool` before its registrations
    pub inner: BTreeMap<usize, usize>,
    /// which member of a group waits: 0 first, 1 last, 2 middle
    pub wpos: u8,
    pub reps: usize,
    /// demonstration only (never generated): let the waiter sit behind a batch of its own group
    pub wafter: bool,
    /// `exec=async` only: the calls made on the `AsyncDispatcher` per repetition, one letter each —
    /// `d` dispatch, `w` wait, `n` wait_without_tl, `r` running, `o` world — followed by a final
    /// `wait`. Empty = `dispatch(); wait();`.
    pub script: String,
    /// milliseconds the first system of the top-level dispatcher's first stage stays inside `run`
    /// while the experiment is on a later stage (so that whatever was queued on the pool meanwhile has
    /// certainly been picked up when the wide stage starts)
    pub delay: u64,
}
impl RCfg {
    pub fn line(&self) -> String {
        let pool = match self.pool {
            PoolCfg::Default => "default".to_string(),
            PoolCfg::User(p) => format!("user:{}", p),
            PoolCfg::Late(p) => format!("late:{}", p),
        };
        let inner = if self.inner.is_empty() { "-".to_string() } else { self.inner.iter().map(|(k, v)| format!("{}:{}", k, v)).collect::<Vec<_>>().join(",") };
        let mut l = format!("rdv exec={} caller={} entry={} pool={} env={} inner={} wpos={} reps={}{}", self.exec, self.caller, self.entry, pool, self.env, inner, self.wpos, self.reps, if self.wafter { " wafter=1" } else { "" });
        if !self.script.is_empty() {
            l.push_str(&format!(" script={}", self.script));
        }
        if self.delay > 0 {
            l.push_str(&format!(" delay={}", self.delay));
        }
        l
    }
    pub fn parse(l: &str) -> Option<RCfg> {
        let mut p = l.split_whitespace();
        if p.next()? != "rdv" {
            return None;
        }
        let mut c = RCfg { exec: "sync".into(), caller: "main".into(), entry: "dispatch".into(), pool: PoolCfg::Default, env: 4, inner: BTreeMap::new(), wpos: 0, reps: 1, wafter: false, script: String::new(), delay: 0 };
        for kv in p {
            let (k, v) = kv.split_once('=')?;
            match k {
                "exec" => c.exec = v.into(),
                "caller" => c.caller = v.into(),
                "entry" => c.entry = v.into(),
                "pool" => {
                    c.pool = if v == "default" {
                        PoolCfg::Default
                    } else if let Some(x) = v.strip_prefix("user:") {
                        PoolCfg::User(x.parse().ok()?)
                    } else if let Some(x) = v.strip_prefix("late:") {
                        PoolCfg::Late(x.parse().ok()?)
                    } else {
                        return None;
                    }
                }
                "env" => c.env = v.parse().ok()?,
                "inner" => {
                    if v != "-" {
                        for e in v.split(',') {
                            let (a, b) = e.split_once(':')?;
                            c.inner.insert(a.parse().ok()?, b.parse().ok()?);
                        }
                    }
                }
                "wpos" => c.wpos = v.parse().ok()?,
                "reps" => c.reps = v.parse().ok()?,
                "wafter" => c.wafter = v == "1",
                "script" => c.script = v.into(),
                "delay" => c.delay = v.parse().ok()?,
                _ => return None,
            }
        }
        if c.env == 0 || c.reps == 0 {
            return None;
        }
        if !c.script.is_empty() && (c.exec != "async" || c.caller != "main" || !c.script.contains('d') || c.script.chars().any(|x| !"dwnro".contains(x))) {
            return None;
        }
        Some(c)
    }
    /// `dispatch()` calls per repetition
    pub fn dispatches(&self) -> usize {
        if self.script.is_empty() {
            1
        } else {
            self.script.chars().filter(|c| *c == 'd').count()
        }
    }
    /// `dispatch()` calls that follow another one with no blocking call (`wait`, `wait_without_tl`, `world`) in between
    pub fn back_to_back(&self) -> usize {
        let mut n = 0;
        let mut open = false;
        for c in self.script.chars() {
            match c {
                'd' => {
                    if open {
                        n += 1;
                    }
                    open = true;
                }
                'r' => {}
                _ => open = false,
            }
        }
        n
    }
    pub fn top_pool(&self) -> usize {
        match self.pool {
            PoolCfg::Default => self.env,
            PoolCfg::User(p) | PoolCfg::Late(p) => p,
        }
    }
}

/// tags of the batches enclosing each registration (outermost first) and the `n` of every batch
fn paths(ops: &[Op], path: &[usize], out: &mut BTreeMap<usize, Vec<usize>>, ns: &mut BTreeMap<usize, usize>) {
    for op in ops {
        match op {
            Op::Sys { tag, .. } | Op::Tl { tag, .. } => {
                out.insert(*tag, path.to_vec());
            }
            Op::Batch { tag, n, inner, .. } => {
                out.insert(*tag, path.to_vec());
                ns.insert(*tag, *n);
                let mut p = path.to_vec();
                p.push(*tag);
                paths(inner, &p, out, ns);
            }
            Op::Barrier => {}
        }
    }
}

/// The smallest pool among all pools a dispatcher could conceivably be meant to run on — the
/// top-level pool, the default pool (for anything nested deeper than one level) and every pool
/// given to an enclosing batch builder or to the batch's own builder. If a stage is no wider than
/// this, *no* reading of "the pool" excuses a failed rendezvous. `key_path` = enclosing batches of
/// the dispatcher's systems (empty = top level).
pub fn min_pool(cfg: &RCfg, key_path: &[usize]) -> usize {
    let mut m = cfg.top_pool();
    if key_path.len() >= 2 {
        m = m.min(cfg.env);
    }
    for b in key_path {
        if let Some(p) = cfg.inner.get(b) {
            m = m.min(*p);
        }
    }
    m
}

// ---------------------------------------------------------------------------------------------
// systems
// ---------------------------------------------------------------------------------------------

struct RdvSt {
    active: bool,
    waiters: BTreeSet<usize>,
    want: u64,
    count: u64,
    met: u64,
    aborted: bool,
    /// tag → sizes of the pools whose workers ran the system
    obs: BTreeMap<usize, BTreeSet<usize>>,
    off_pool: BTreeSet<usize>,
}
pub struct Rdv {
    st: Mutex<RdvSt>,
    cv: Condvar,
    deadline_ms: AtomicU64,
    /// tag of the system that sleeps `delay_ms` inside `run` (`usize::MAX` = none)
    delayer: AtomicUsize,
    delay_ms: AtomicU64,
}
impl Rdv {
    fn new() -> Arc<Rdv> {
        Arc::new(Rdv {
            st: Mutex::new(RdvSt { active: false, waiters: BTreeSet::new(), want: 0, count: 0, met: 0, aborted: false, obs: BTreeMap::new(), off_pool: BTreeSet::new() }),
            cv: Condvar::new(),
            deadline_ms: AtomicU64::new(1000),
            delayer: AtomicUsize::new(usize::MAX),
            delay_ms: AtomicU64::new(0),
        })
    }
    fn set_target(&self, waiters: BTreeSet<usize>, deadline_ms: u64) {
        let mut g = self.st.lock().unwrap();
        g.want = waiters.len() as u64;
        g.waiters = waiters;
        g.count = 0;
        g.met = 0;
        g.aborted = false;
        g.active = true;
        self.deadline_ms.store(deadline_ms, SeqCst);
    }
    fn clear_target(&self) -> (u64, bool) {
        let mut g = self.st.lock().unwrap();
        g.active = false;
        self.delayer.store(usize::MAX, SeqCst);
        (g.met, g.aborted)
    }
    fn aborted(&self) -> bool {
        self.st.lock().unwrap().aborted
    }
    /// called from inside `run`: on which pool am I, and — if I am a waiter of the current target —
    /// wait until one system of every group of the target stage has arrived in this round.
    /// Arrivals are numbered; round r is complete when (r+1)·want have arrived. A stage execution
    /// ends before the next one begins, so rounds never mix.
    fn arrive(&self, tag: usize) {
        if self.delayer.load(SeqCst) == tag && !self.aborted() {
            std::thread::sleep(Duration::from_millis(self.delay_ms.load(SeqCst)));
        }
        let on = rayon::current_thread_index().is_some();
        let size = if on { rayon::current_num_threads() } else { 0 };
        let mut g = self.st.lock().unwrap();
        if on {
            g.obs.entry(tag).or_default().insert(size);
        } else {
            g.off_pool.insert(tag);
        }
        if !g.active || g.aborted || !g.waiters.contains(&tag) {
            return;
        }
        let ticket = g.count;
        g.count += 1;
        let target = (ticket / g.want + 1) * g.want;
        self.cv.notify_all();
        let deadline = Instant::now() + Duration::from_millis(self.deadline_ms.load(SeqCst));
        while g.count < target && !g.aborted {
            let now = Instant::now();
            if now >= deadline {
                g.aborted = true;
                self.cv.notify_all();
                return;
            }
            g = self.cv.wait_timeout(g, deadline - now).unwrap().0;
        }
        if g.count >= target {
            g.met += 1;
        }
    }
}

pub struct RSys {
    acc: Acc,
    time: RunningTime,
    rdv: Arc<Rdv>,
}
impl<'a> System<'a> for RSys {
    type SystemData = Data<'a>;
    fn run(&mut self, mut d: Data<'a>) {
        if d.shared.ident.load(SeqCst) {
            return;
        }
        // really use what was fetched
        let mut sum = 0u64;
        for g in &d.reads {
            sum = sum.wrapping_add(g.get());
        }
        for g in d.writes.iter_mut() {
            let v = g.get();
            g.set(v.wrapping_add(sum).wrapping_add(1));
        }
        self.rdv.arrive(d.tag);
    }
    fn running_time(&self) -> RunningTime {
        self.time
    }
    fn accessor<'b>(&'b self) -> AccessorCow<'a, 'b, Self> {
        AccessorCow::Ref(&self.acc)
    }
}

struct RCtlCore {
    tag: usize,
    n: usize,
    t: u8,
    shared: Arc<Shared>,
    path: Path,
    iter: Arc<AtomicUsize>,
    rdv: Arc<Rdv>,
}
impl RCtlCore {
    fn go<'a, 'b>(&mut self, w: &World, d: &mut Dispatcher<'a, 'b>) {
        let inst = inst_of(&self.path, self.tag);
        self.shared.push('F', inst.clone());
        self.shared.shapes.lock().unwrap().insert(self.tag, d.verif_shape());
        if self.shared.ident.load(SeqCst) {
            self.iter.store(0, SeqCst);
            d.dispatch_seq(w);
            d.dispatch_thread_local(w);
        } else {
            // the controller is a system of its group: it is inside `run` from here on
            self.rdv.arrive(self.tag);
            for i in 0..self.n {
                self.iter.store(i, SeqCst);
                d.dispatch(w);
            }
        }
        self.shared.push('D', inst);
    }
}
/// this engine has its own controllers for the first six kinds of declared data only
fn six_ctl(ops: &[Op]) -> Vec<Op> {
    ops.iter()
        .map(|o| match o {
            Op::Batch { tag, name, deps, ctl, t, n, inner } => Op::Batch { tag: *tag, name: name.clone(), deps: deps.clone(), ctl: *ctl % 6, t: *t, n: *n, inner: six_ctl(inner) },
            o => o.clone(),
        })
        .collect()
}

macro_rules! rctl {
    ($n:ident, $d:ty) => {
        struct $n(RCtlCore);
        impl<'a, 'b, 'c> BatchController<'a, 'b, 'c> for $n {
            type BatchSystemData = $d;
            fn run(&mut self, w: &'c World, d: &mut Dispatcher<'a, 'b>) {
                {
                    let _data: $d = w.system_data();
                }
                self.0.go(w, d);
            }
            fn running_time(&self) -> RunningTime {
                rt(self.0.t)
            }
        }
    };
}
rctl!(RCtl0, ());
rctl!(RCtl1, Read<'c, R<0>>);
rctl!(RCtl2, Write<'c, R<1>>);
rctl!(RCtl3, (Read<'c, R<2>>, Write<'c, R<0>>));
rctl!(RCtl4, Option<Read<'c, R<3>>>);
rctl!(RCtl5, WriteExpect<'c, R<4>>);

struct RBuild {
    shared: Arc<Shared>,
    rdv: Arc<Rdv>,
    built: Built,
}
fn empty_built() -> Built {
    Built { builder: None, infos: BTreeMap::new(), order: BTreeMap::new(), model_layouts: BTreeMap::new(), model_debug: BTreeMap::new(), real_debug: BTreeMap::new(), real_debug_specs: BTreeMap::new(), diffs: vec![], qdiffs: vec![], iters: BTreeMap::new() }
}
impl RBuild {
    fn info(&mut self, tag: usize, name: &str, t: u8, is_batch: bool, is_tl: bool, parent: Option<usize>) {
        self.built.infos.insert(tag, Info { tag, name: name.into(), deps: vec![], r: vec![], w: vec![], t, is_batch, is_tl, placed: true, epoch: 0, outcome: "placed".into(), parent, id: 0 });
        self.built.order.entry(parent).or_default().push(tag);
    }
    fn reg(&mut self, b: &mut Builder, ops: &[Op], cfg: &RCfg, parent: Option<usize>, path: &Path) {
        for op in ops {
            match op {
                Op::Barrier => b.add_barrier(),
                Op::Tl { tag, r, w } => {
                    let sys = RSys { acc: Acc { tag: *tag, decl_r: r.clone(), decl_w: w.clone(), shared: self.shared.clone(), path: path.clone(), borrow: true }, time: rt(3), rdv: self.rdv.clone() };
                    b.add_thread_local(sys);
                    self.info(*tag, "", 3, false, true, parent);
                }
                Op::Sys { tag, name, deps, r, w, t } => {
                    let sys = RSys { acc: Acc { tag: *tag, decl_r: r.clone(), decl_w: w.clone(), shared: self.shared.clone(), path: path.clone(), borrow: true }, time: rt(*t), rdv: self.rdv.clone() };
                    let dr: Vec<&str> = deps.iter().map(|s| s.as_str()).collect();
                    b.add(sys, name, &dr);
                    self.info(*tag, name, *t, false, false, parent);
                }
                Op::Batch { tag, name, deps, ctl, t, n, inner } => {
                    let mut ib: Builder = DispatcherBuilder::new();
                    if let Some(p) = cfg.inner.get(tag) {
                        ib.add_pool(make_pool(*p));
                    }
                    let iter = Arc::new(AtomicUsize::new(0));
                    let mut ipath = path.clone();
                    ipath.push((*tag, iter.clone()));
                    self.reg(&mut ib, inner, cfg, Some(*tag), &ipath);
                    let core = RCtlCore { tag: *tag, n: *n, t: *t, shared: self.shared.clone(), path: path.clone(), iter, rdv: self.rdv.clone() };
                    let dr: Vec<&str> = deps.iter().map(|s| s.as_str()).collect();
                    match ctl {
                        0 => b.add_batch(RCtl0(core), ib, name, &dr),
                        1 => b.add_batch(RCtl1(core), ib, name, &dr),
                        2 => b.add_batch(RCtl2(core), ib, name, &dr),
                        3 => b.add_batch(RCtl3(core), ib, name, &dr),
                        4 => b.add_batch(RCtl4(core), ib, name, &dr),
                        _ => b.add_batch(RCtl5(core), ib, name, &dr),
                    }
                    self.info(*tag, name, *t, true, false, parent);
                }
            }
        }
    }
    /// the builder as configured, ready for `build` / `build_async`; also the user-supplied top-level pool
    fn builder(&mut self, ops: &[Op], cfg: &RCfg) -> (Builder, Option<Pool>) {
        self.built = empty_built();
        let mut b: Builder = DispatcherBuilder::new();
        let mut user = None;
        if let PoolCfg::User(p) = cfg.pool {
            let tp = make_pool(p);
            b.add_pool(tp.clone());
            user = Some(tp);
        }
        self.reg(&mut b, ops, cfg, None, &vec![]);
        if let PoolCfg::Late(p) = cfg.pool {
            let tp = make_pool(p);
            b.add_pool(tp.clone());
            user = Some(tp);
        }
        (b, user)
    }
}

// ---------------------------------------------------------------------------------------------
// the real side of one case (runs in the child process)
// ---------------------------------------------------------------------------------------------

struct Target {
    key: Option<usize>,
    stage: usize,
    groups: Vec<Vec<usize>>,
    execs: usize,
}
fn targets(lay: &Layout, key: Option<usize>, mult: usize, ns: &BTreeMap<usize, usize>, out: &mut Vec<Target>) {
    for (si, st) in lay.stages.iter().enumerate() {
        if st.len() >= 2 && mult > 0 {
            out.push(Target { key, stage: si, groups: st.clone(), execs: mult });
        }
    }
    for (tag, inner) in &lay.inner {
        targets(inner, Some(*tag), mult * ns.get(tag).cloned().unwrap_or(0), ns, out);
    }
}
fn layout_lines(lay: &Layout, key: Option<usize>, out: &mut Vec<String>) {
    out.push(format!("layout {} {} tl={}", key.map(|k| k.to_string()).unwrap_or_else(|| "top".into()), show_nested(&lay.stages), lay.tl.len()));
    for (tag, inner) in &lay.inner {
        layout_lines(inner, Some(*tag), out);
    }
}

enum Runner {
    Sync(Dispatcher<'static, 'static>),
    Send(SendDispatcher<'static>),
    Async(AsyncDispatcher<'static, World>),
}

pub fn exec_case(cfg: &RCfg, ops: &[Op], deadline_ms: u64, short_ms: u64) -> Vec<String> {
    let mut out = vec![];
    let shared = Shared::new(Op::max_tag(ops) + 1);
    let rdv = Rdv::new();
    let mut rb = RBuild { shared: shared.clone(), rdv: rdv.clone(), built: empty_built() };
    let (mut tagpath, mut ns) = (BTreeMap::new(), BTreeMap::new());
    paths(ops, &[], &mut tagpath, &mut ns);
    // the plan: hooks + one sequential identification run on a `build()` dispatcher — built, used and
    // dropped on a helper thread, so that the dispatcher the experiment runs on is the first one the
    // experiment's own thread ever builds (what `build` does may depend on the building thread)
    let ident: Result<(usize, Layout), String> = std::thread::scope(|sc| {
        sc.spawn(|| {
            let mut rb0 = RBuild { shared: shared.clone(), rdv: rdv.clone(), built: empty_built() };
            let (b0, _user0) = rb0.builder(ops, cfg);
            let mut d0 = b0.build();
            let mt = d0.max_threads();
            identify(&mut d0, &shared, &rb0.built).map(|l| (mt, l))
        })
        .join()
        .unwrap_or_else(|_| Err("the identification run panicked".into()))
    });
    let (mt0, lay) = match ident {
        Ok(x) => x,
        Err(e) => {
            out.push(format!("error identification: {}", e));
            return out;
        }
    };
    out.push(format!("maxthreads {}", mt0));
    let (b, user) = rb.builder(ops, cfg);
    layout_lines(&lay, None, &mut out);
    let mut tg = vec![];
    targets(&lay, None, cfg.reps * cfg.dispatches(), &ns, &mut tg);
    let has_tl = !lay.tl.is_empty();
    let world = full_world();
    let foreign = if cfg.caller == "foreign" { Some(make_pool(1)) } else { None };
    let mut user = user;
    let mut runner = if cfg.exec == "async" {
        Runner::Async(b.build_async(full_world()))
    } else if cfg.caller == "main" || has_tl {
        Runner::Sync(b.build())
    } else {
        match b.build().try_into_sendable() {
            Ok(sd) => Runner::Send(sd),
            Err(d) => Runner::Sync(d),
        }
    };
    {
        let mut g = rdv.st.lock().unwrap();
        g.obs.clear();
        g.off_pool.clear();
    }
    for t in &tg {
        let key_path: Vec<usize> = match t.key {
            None => vec![],
            Some(k) => {
                let mut p = tagpath.get(&k).cloned().unwrap_or_default();
                p.push(k);
                p
            }
        };
        let minp = min_pool(cfg, &key_path);
        let w = t.groups.len();
        let dl = if w <= minp { deadline_ms } else { short_ms };
        // One waiting system per group. A batch controller is a system of its group and waits
        // before it dispatches its inner systems. The waiter never comes *after* a batch in its
        // group: while a worker waits for the inner stage of a batch to finish, rayon lets it run
        // other pending jobs of the outer stage on top of its stack (`join` pops the local deque),
        // so a sibling group's waiter can end up blocking above the very continuation that
        // holds this group's waiter — that is rayon's nested-blocking behaviour, not a
        // serialisation by the dispatcher, and it is outside what C11 promises ("nothing else
        // occupies the pool").
        let waiters: BTreeSet<usize> = t
            .groups
            .iter()
            .map(|g| {
                let want = match cfg.wpos {
                    0 => 0,
                    1 => g.len() - 1,
                    _ => g.len() / 2,
                };
                let first_batch = g.iter().position(|x| rb.built.infos.get(x).map(|i| i.is_batch).unwrap_or(false)).unwrap_or(usize::MAX);
                if cfg.wafter {
                    g[want]
                } else {
                    g[want.min(first_batch)]
                }
            })
            .collect();
        rdv.set_target(waiters, dl);
        // the stage of the top-level dispatcher this experiment happens in (or under); if it is not
        // the first one, the first system of the first stage takes `delay` ms
        let top_stage = match key_path.first() {
            None => t.stage,
            Some(outer) => lay.stages.iter().position(|st| st.iter().flatten().any(|x| x == outer)).unwrap_or(0),
        };
        let delayer = if cfg.delay > 0 && top_stage >= 1 { lay.stages.first().and_then(|st| st.first()).and_then(|g| g.first()).cloned() } else { None };
        if let Some(dt) = delayer {
            rdv.delay_ms.store(cfg.delay, SeqCst);
            rdv.delayer.store(dt, SeqCst);
        }
        let t0 = Instant::now();
        for _ in 0..cfg.reps {
            match &mut runner {
                Runner::Sync(d) => match cfg.entry.as_str() {
                    "par" => {
                        d.dispatch_par(&world);
                        d.dispatch_thread_local(&world);
                    }
                    "runnow" => RunNow::run_now(d, &world),
                    _ => d.dispatch(&world),
                },
                Runner::Send(sd) => {
                    let wr = &world;
                    let entry = cfg.entry.as_str();
                    let mut call = move || match entry {
                        "par" => sd.dispatch_par(wr),
                        "runnow" => RunNow::run_now(sd, wr),
                        _ => sd.dispatch(wr),
                    };
                    match (cfg.caller.as_str(), &foreign, &user) {
                        ("foreign", Some(f), _) => f.install(call),
                        ("own", _, Some(u)) => u.install(call),
                        _ => call(),
                    }
                }
                Runner::Async(ad) => {
                    if cfg.script.is_empty() {
                        ad.dispatch();
                        ad.wait();
                    } else {
                        for c in cfg.script.chars() {
                            match c {
                                'd' => ad.dispatch(),
                                'w' => ad.wait(),
                                'n' => ad.wait_without_tl(),
                                'r' => {
                                    let _ = ad.running();
                                }
                                _ => {
                                    let _ = ad.world();
                                }
                            }
                        }
                        // nothing is in flight when the next experiment is set up
                        ad.wait();
                    }
                }
            }
            if rdv.aborted() {
                break;
            }
        }
        let ms = t0.elapsed().as_millis();
        let (met, aborted) = rdv.clear_target();
        shared.take_log();
        out.push(format!(
            "target {} {} {} {} {} {} {} {} {} {}",
            t.key.map(|k| k.to_string()).unwrap_or_else(|| "top".into()),
            t.stage,
            w,
            t.execs,
            met,
            if aborted { 1 } else { 0 },
            ms,
            minp,
            dl,
            delayer.map(|d| d.to_string()).unwrap_or_else(|| "-".into())
        ));
        if aborted && w <= minp {
            // an unexcused failure: the case is decided
            break;
        }
    }
    // which pools ran the systems of each builder
    let g = rdv.st.lock().unwrap();
    let mut per: BTreeMap<Option<usize>, (BTreeSet<usize>, usize)> = BTreeMap::new();
    for (tag, sizes) in &g.obs {
        let parent = rb.built.infos.get(tag).and_then(|i| i.parent);
        if rb.built.infos.get(tag).map(|i| i.is_tl).unwrap_or(false) {
            continue;
        }
        per.entry(parent).or_default().0.extend(sizes.iter().cloned());
    }
    for tag in &g.off_pool {
        if rb.built.infos.get(tag).map(|i| i.is_tl).unwrap_or(false) {
            continue;
        }
        let parent = rb.built.infos.get(tag).and_then(|i| i.parent);
        per.entry(parent).or_default().1 += 1;
    }
    for (k, (sizes, off)) in per {
        out.push(format!("obs {} {} {}", k.map(|k| k.to_string()).unwrap_or_else(|| "top".into()), if sizes.is_empty() { "-".to_string() } else { sizes.iter().map(|x| x.to_string()).collect::<Vec<_>>().join(",") }, off));
    }
    out
}

/// `rendezvous --child`: cases on stdin (`case`, configuration line, registration lines,
/// `go <deadline ms> <short deadline ms>`), result lines and `end` on stdout
pub fn child_main() -> ! {
    let stdin = std::io::stdin();
    let stdout = std::io::stdout();
    let mut lines: Vec<String> = vec![];
    for l in stdin.lock().lines() {
        let l = match l {
            Ok(l) => l,
            Err(_) => break,
        };
        if l == "case" {
            lines.clear();
        } else if let Some(rest) = l.strip_prefix("go ") {
            let mut p = rest.split_whitespace();
            let deadline: u64 = p.next().and_then(|x| x.parse().ok()).unwrap_or(4000);
            let short: u64 = p.next().and_then(|x| x.parse().ok()).unwrap_or(300);
            let res = match lines.first().and_then(|l| RCfg::parse(l)) {
                None => vec!["error bad configuration line".to_string()],
                Some(cfg) => {
                    let ops = six_ctl(&Op::parse(&lines[1..]));
                    match catch_unwind(AssertUnwindSafe(|| exec_case(&cfg, &ops, deadline, short))) {
                        Ok(v) => v,
                        Err(p) => vec![format!("error panic: {}", panic_message(&p).replace('\n', " "))],
                    }
                }
            };
            let mut o = stdout.lock();
            for r in res {
                let _ = writeln!(o, "{}", r);
            }
            let _ = writeln!(o, "end");
            let _ = o.flush();
        } else {
            lines.push(l);
        }
    }
    std::process::exit(0)
}

// ---------------------------------------------------------------------------------------------
// parent side: children, model, comparison
// ---------------------------------------------------------------------------------------------

struct Kid {
    child: Child,
    stdin: ChildStdin,
    rx: Receiver<String>,
}
impl Kid {
    fn spawn(env: usize) -> Kid {
        let exe = std::env::current_exe().expect("current_exe");
        let mut child = Command::new(exe)
            .args(["rendezvous", "--child"])
            .env("RAYON_NUM_THREADS", env.to_string())
            .stdin(Stdio::piped())
            .stdout(Stdio::piped())
            .stderr(Stdio::null())
            .spawn()
            .expect("cannot start the child process");
        let stdin = child.stdin.take().unwrap();
        let so = child.stdout.take().unwrap();
        let (tx, rx) = channel();
        std::thread::spawn(move || {
            for l in BufReader::new(so).lines() {
                match l {
                    Ok(l) => {
                        if tx.send(l).is_err() {
                            break;
                        }
                    }
                    Err(_) => break,
                }
            }
        });
        Kid { child, stdin, rx }
    }
    fn run(&mut self, lines: &[String], deadline: u64, short: u64, patience: Duration) -> Result<Vec<String>, String> {
        let mut text = String::from("case\n");
        for l in lines {
            text.push_str(l);
            text.push('\n');
        }
        text.push_str(&format!("go {} {}\n", deadline, short));
        self.stdin.write_all(text.as_bytes()).map_err(|e| format!("write to child: {}", e))?;
        self.stdin.flush().map_err(|e| format!("write to child: {}", e))?;
        let mut out = vec![];
        let t0 = Instant::now();
        loop {
            let left = patience.checked_sub(t0.elapsed()).unwrap_or(Duration::from_millis(0));
            match self.rx.recv_timeout(left) {
                Ok(l) => {
                    if l == "end" {
                        return Ok(out);
                    }
                    out.push(l);
                }
                Err(std::sync::mpsc::RecvTimeoutError::Timeout) => return Err(format!("no answer within {} s: the dispatch did not return", patience.as_secs())),
                Err(_) => return Err("the process running the case ended unexpectedly".into()),
            }
        }
    }
}
impl Drop for Kid {
    fn drop(&mut self) {
        let _ = self.child.kill();
        let _ = self.child.wait();
    }
}

#[derive(Default, Clone, Debug)]
pub struct Eval {
    pub impl_v: Vec<String>,
    pub model_v: Vec<(String, String)>,
    pub targets: usize,
    pub targets_met: usize,
    pub neg_targets: usize,
    pub max_width: usize,
    pub layout_key: String,
    pub stages: usize,
    pub depth: usize,
    pub multi_member_targets: usize,
    pub batch_member_targets: usize,
    pub skipped: Option<String>,
    /// systems of the first stage whose rendezvous failed without excuse (and the system that delayed the stages before it)
    pub fail_tags: Vec<usize>,
    /// that failure happened while the first stage was being held up (`delay`)
    pub fail_delayed: bool,
}

pub struct Runner2 {
    kids: BTreeMap<usize, Kid>,
    pool1: Pool,
    pub deadline: u64,
    pub short: u64,
    pub children_started: u64,
    /// how long (beyond three deadlines) a child may take for one case
    pub patience: u64,
}

/// the calls that touch pool slots, as tokens of the driver's `pool plan` request
fn plan_tokens(ops: &[Op], cfg: &RCfg, widths: &BTreeMap<Option<usize>, Vec<usize>>, out: &mut Vec<String>) {
    for op in ops {
        if let Op::Batch { tag, inner, .. } = op {
            out.push("[".into());
            if let Some(p) = cfg.inner.get(tag) {
                out.push(format!("p{}", p));
            }
            plan_tokens(inner, cfg, widths, out);
            let ws = widths.get(&Some(*tag)).cloned().unwrap_or_default();
            out.push(format!("]{}:{}", tag, if ws.is_empty() { "-".to_string() } else { ws.iter().map(|x| x.to_string()).collect::<Vec<_>>().join(".") }));
        }
    }
}

impl Runner2 {
    pub fn new(deadline: u64, short: u64) -> Runner2 {
        Runner2 { kids: BTreeMap::new(), pool1: make_pool(1), deadline, short, children_started: 0, patience: 30_000 }
    }
    fn real(&mut self, cfg: &RCfg, ops: &[Op], deadline: u64, short: u64) -> Result<Vec<String>, String> {
        let mut lines = vec![cfg.line()];
        Op::lines(ops, &mut lines);
        if !self.kids.contains_key(&cfg.env) {
            self.kids.insert(cfg.env, Kid::spawn(cfg.env));
            self.children_started += 1;
        }
        let patience = Duration::from_millis(self.patience + 3 * deadline);
        let r = self.kids.get_mut(&cfg.env).unwrap().run(&lines, deadline, short, patience);
        if r.is_err() {
            // a fresh process for whatever comes next
            self.kids.remove(&cfg.env);
        }
        r
    }

    /// one case: the model's plan and pool assignment, the real run, every comparison
    pub fn eval(&mut self, cfg: &RCfg, ops: &[Op], drv: &mut Drv, deadline: u64, short: u64) -> Eval {
        let mut ev = Eval::default();
        let cl = cfg.line();
        // --- model: plan of every builder
        let shared = Shared::new(Op::max_tag(ops) + 1);
        let built = build_case(ops, Some(&mut *drv), shared, &self.pool1, false);
        for d in &built.diffs {
            ev.model_v.push(("outcome".into(), d.clone()));
        }
        if built.infos.values().any(|i| !i.placed) {
            ev.skipped = Some("a registration is rejected".into());
            return ev;
        }
        if Op::has_tl_in_batch(ops, false) {
            ev.skipped = Some("thread-local system inside a batch".into());
            return ev;
        }
        let mut mlay: BTreeMap<Option<usize>, ModelLayout> = BTreeMap::new();
        let mut widths: BTreeMap<Option<usize>, Vec<usize>> = BTreeMap::new();
        for (k, l) in &built.model_layouts {
            let m = parse_model_layout(l);
            widths.insert(*k, m.sys.iter().map(|st| st.len()).collect());
            mlay.insert(*k, m);
        }
        drop(built);
        // --- model: which pool, and does every stage rendezvous on it
        let mut toks = vec![];
        if let PoolCfg::User(p) = cfg.pool {
            toks.push(format!("p{}", p));
        }
        plan_tokens(ops, cfg, &widths, &mut toks);
        if let PoolCfg::Late(p) = cfg.pool {
            toks.push(format!("p{}", p));
        }
        let topw = widths.get(&None).cloned().unwrap_or_default();
        // an async dispatcher driven by a sequence of calls: one group of verdicts per `dispatch()`
        let nd = cfg.dispatches();
        let head = if cfg.script.is_empty() { "pool plan".to_string() } else { format!("pool aplan {}", cfg.script) };
        let req = format!("{} {} {} {}", head, cfg.env, if topw.is_empty() { "-".to_string() } else { topw.iter().map(|x| x.to_string()).collect::<Vec<_>>().join(".") }, toks.join(" "));
        let ans = drv.ask(req.trim_end());
        let mut mpool: BTreeMap<Option<usize>, (usize, Vec<char>)> = BTreeMap::new();
        for w in ans.split_whitespace() {
            if let Some((k, v)) = w.split_once('=') {
                let key = if k == "top" { None } else { k.parse().ok() };
                if let Some((size, verdicts)) = v.split_once(':') {
                    if let (true, Ok(size)) = (k == "top" || key.is_some(), size.parse::<usize>()) {
                        if cfg.script.is_empty() {
                            mpool.insert(key, (size, verdicts.chars().collect()));
                            continue;
                        }
                        // a stage completes its experiment iff it does in every dispatch of the sequence
                        let per: Vec<Vec<char>> = verdicts.split('/').map(|g| g.chars().collect()).collect();
                        if per.len() == nd && per.iter().all(|g| g.len() == per[0].len()) {
                            let all: Vec<char> = (0..per[0].len()).map(|i| if per.iter().all(|g| g[i] == 'c') { 'c' } else { 'd' }).collect();
                            mpool.insert(key, (size, all));
                            continue;
                        }
                    }
                }
            }
            ev.model_v.push(("pool".into(), format!("{}: unreadable answer to `{}`: {}", cl, req, ans)));
            return ev;
        }
        // --- the real run
        let lines = match self.real(cfg, ops, deadline, short) {
            Ok(l) => l,
            Err(e) => {
                ev.impl_v.push(format!("{}: {}", cl, e));
                return ev;
            }
        };
        let (mut tagpath, mut ns) = (BTreeMap::new(), BTreeMap::new());
        paths(ops, &[], &mut tagpath, &mut ns);
        let keyof = |s: &str| -> Option<usize> { if s == "top" { None } else { s.parse().ok() } };
        let mut real_lay: BTreeMap<Option<usize>, Vec<Vec<Vec<usize>>>> = BTreeMap::new();
        let mut maxthreads = None;
        for l in &lines {
            let p: Vec<&str> = l.split_whitespace().collect();
            match p.as_slice() {
                ["error", ..] => {
                    ev.impl_v.push(format!("{}: the real run failed: {}", cl, l));
                    return ev;
                }
                ["maxthreads", n] => maxthreads = n.parse::<usize>().ok(),
                ["layout", k, nested, _tl] => {
                    real_lay.insert(keyof(k), parse_nested(nested));
                }
                _ => {}
            }
        }
        // hooks agree among themselves, and with the model's plan
        if let (Some(mt), Some(top)) = (maxthreads, real_lay.get(&None)) {
            let widest = top.iter().map(|s| s.len()).max().unwrap_or(0);
            if mt != widest {
                ev.impl_v.push(format!("{}: max_threads() = {} but the widest stage of the plan (shape hook) has {} groups", cl, mt, widest));
            }
        }
        let mut lk = String::new();
        for (k, st) in &real_lay {
            lk.push_str(&format!("{:?}:{};", k, show_nested(st).chars().filter(|c| !c.is_ascii_digit()).collect::<String>()));
            ev.stages += st.len();
            ev.max_width = ev.max_width.max(st.iter().map(|s| s.len()).max().unwrap_or(0));
            match mlay.get(k) {
                Some(m) if m.sys == *st => {}
                Some(m) => ev.model_v.push(("layout".into(), format!("{}: builder {:?}: executed layout {} but the model lays out {}", cl, k, show_nested(st), show_nested(&m.sys)))),
                None => ev.model_v.push(("layout".into(), format!("{}: builder {:?} has no model layout", cl, k))),
            }
        }
        ev.depth = Op::depth(ops);
        ev.layout_key = format!("{} {} {} {:?} {}{}", cfg.exec, cfg.caller, cfg.entry, cfg.pool, lk, if cfg.script.is_empty() { String::new() } else { format!(" script={}", cfg.script) });
        // the experiments
        for l in &lines {
            let p: Vec<&str> = l.split_whitespace().collect();
            match p.as_slice() {
                ["target", k, stage, w, execs, met, aborted, ms, minp, dl, delayer] => {
                    let key = keyof(k);
                    let (stage, w, execs, met, minp): (usize, usize, usize, usize, usize) = (stage.parse().unwrap_or(0), w.parse().unwrap_or(0), execs.parse().unwrap_or(0), met.parse().unwrap_or(0), minp.parse().unwrap_or(0));
                    let aborted = *aborted == "1";
                    let ok = !aborted && met == w * execs;
                    ev.targets += 1;
                    if ok {
                        ev.targets_met += 1;
                    }
                    let groups = real_lay.get(&key).and_then(|s| s.get(stage)).cloned().unwrap_or_default();
                    if groups.iter().any(|g| g.len() > 1) {
                        ev.multi_member_targets += 1;
                    }
                    if groups.iter().flatten().any(|t| ns.contains_key(t)) {
                        ev.batch_member_targets += 1;
                    }
                    let depth = key.map(|k| tagpath.get(&k).map(|p| p.len()).unwrap_or(0) + 1).unwrap_or(0);
                    let what = format!(
                        "{}: stage {} of {} (depth {}) has {} groups {} but the systems waiting for each other in its different groups were not all inside run at the same time ({} of {} arrivals met within {} ms; waited {} ms)",
                        cl,
                        stage,
                        key.map(|k| format!("batch {}", k)).unwrap_or_else(|| "the top-level dispatcher".into()),
                        depth,
                        w,
                        show_nested(&[groups.clone()]),
                        met,
                        w * execs,
                        dl,
                        ms
                    );
                    if !ok && w <= minp {
                        if ev.fail_tags.is_empty() {
                            ev.fail_tags = groups.iter().flatten().cloned().collect();
                            if let Ok(d) = delayer.parse::<usize>() {
                                ev.fail_tags.push(d);
                                ev.fail_delayed = true;
                            }
                        }
                        ev.impl_v.push(format!("{} although every pool involved has at least {} threads and nothing else occupies them", what, minp));
                    }
                    if w > minp {
                        ev.neg_targets += 1;
                    }
                    match mpool.get(&key).and_then(|(size, v)| v.get(stage).map(|c| (*size, *c))) {
                        Some((size, c)) => {
                            if ok != (c == 'c') {
                                ev.model_v.push(("pool".into(), if ok { format!("{}: stage {} of builder {:?} ({} groups) completed its rendezvous, but the model puts it on a pool of {} threads and predicts a deadlock", cl, stage, key, w, size) } else { format!("{} — the model puts it on a pool of {} threads and predicts completion", what, size) }));
                            }
                        }
                        None => ev.model_v.push(("pool".into(), format!("{}: the model's answer `{}` has no verdict for stage {} of builder {:?}", cl, ans, stage, key))),
                    }
                }
                ["obs", k, sizes, off] => {
                    let key = keyof(k);
                    let off: usize = off.parse().unwrap_or(0);
                    if off > 0 {
                        ev.model_v.push(("pool".into(), format!("{}: {} systems of builder {:?} ran on a thread that belongs to no pool", cl, off, key)));
                    }
                    if *sizes != "-" {
                        let seen: Vec<usize> = sizes.split(',').filter_map(|x| x.parse().ok()).collect();
                        if let Some((size, _)) = mpool.get(&key) {
                            if seen != vec![*size] {
                                ev.model_v.push(("pool".into(), format!("{}: the systems of builder {:?} ran on workers of pools of {:?} threads; the model says the dispatcher uses a pool of {} threads", cl, key, seen, size)));
                            }
                        }
                    }
                }
                _ => {}
            }
        }
        ev
    }
}

// ---------------------------------------------------------------------------------------------
// generator
// ---------------------------------------------------------------------------------------------

pub struct WideGen {
    pub rng: Rng,
    next_tag: usize,
    /// 0 mixed, 1..5 every system has this hint
    hint: u8,
    /// 0 no system touches a resource, 1 all do, 2 mixed
    touch: u8,
    max_depth: usize,
    p_batch: u64,
    inner_pools: BTreeMap<usize, usize>,
    env: usize,
    p_inner_pool: u64,
    /// make some stage wider than the pools
    over: bool,
    /// registrations left for this case
    budget: usize,
}
impl WideGen {
    fn t(&mut self) -> u8 {
        if self.hint == 0 {
            1 + self.rng.below(5) as u8
        } else {
            self.hint
        }
    }
    fn touches(&mut self) -> bool {
        match self.touch {
            0 => false,
            1 => true,
            _ => self.rng.chance(60),
        }
    }
    /// registrations of one builder: 1..3 segments (each meant to become one stage of some width up
    /// to `cap`), separated by a barrier or by dependencies; `res` = resources this builder may use
    fn builder(&mut self, depth: usize, cap: usize, res: &[Res]) -> Vec<Op> {
        let mut ops = vec![];
        let nseg = 1 + self.rng.below(3) as usize;
        let mut prev_names: Vec<String> = vec![];
        for s in 0..nseg {
            let by_dep = s > 0 && !prev_names.is_empty() && self.rng.chance(30);
            if s > 0 && !by_dep {
                ops.push(Op::Barrier);
            }
            let mut w = if self.rng.chance(45) { cap } else { 1 + self.rng.below(cap as u64) as usize };
            if self.over && self.rng.chance(40) {
                // a stage wider than some pool that could be meant
                w = cap + 1 + self.rng.below(2) as usize;
            }
            let w = w.max(1).min(self.budget.max(1));
            self.budget = self.budget.saturating_sub(w);
            // a slice of the resources for every group
            let per = if w > 0 { res.len() / w } else { 0 };
            let mut names = vec![];
            let mut leaders: Vec<(String, Vec<Res>)> = vec![];
            for g in 0..w {
                let mine: Vec<Res> = if per > 0 { res[g * per..(g + 1) * per].to_vec() } else { vec![] };
                let tag = self.next_tag;
                self.next_tag += 1;
                let name = format!("s{}", tag);
                let deps = if by_dep {
                    if self.rng.chance(50) {
                        prev_names.clone()
                    } else {
                        vec![self.rng.pick(&prev_names).clone()]
                    }
                } else {
                    vec![]
                };
                let t = self.t();
                if depth < self.max_depth && self.budget >= 2 && self.rng.chance(self.p_batch) {
                    // what the batch's own stages may count on: every pool that could be meant
                    let mut icap = cap;
                    if depth + 1 >= 2 {
                        icap = icap.min(self.env);
                    }
                    // a pool given to the batch's own builder (the code ignores it for the batch
                    // itself; the batches inside this batch run on it)
                    if self.rng.chance(self.p_inner_pool) {
                        let p = 1 + self.rng.below(8) as usize;
                        self.inner_pools.insert(tag, p);
                        icap = icap.min(p);
                    }
                    let inner = self.builder(depth + 1, icap.max(1), &mine);
                    let n = 1 + self.rng.below(2) as usize;
                    ops.push(Op::Batch { tag, name: name.clone(), deps, ctl: 0, t, n, inner });
                    leaders.push((name.clone(), mine.clone()));
                } else {
                    let (r, wv) = if !mine.is_empty() && self.touches() {
                        if self.rng.chance(70) {
                            (vec![], vec![mine[0]])
                        } else {
                            (vec![mine[0]], vec![])
                        }
                    } else {
                        (vec![], vec![])
                    };
                    ops.push(Op::Sys { tag, name: name.clone(), deps, r, w: wv, t });
                    leaders.push((name.clone(), mine.clone()));
                }
                names.push(name);
            }
            // further members for some groups: conflict with exactly one group (its resource) or
            // depend on exactly its leader; whether they join is the builder's decision
            let extra = (self.rng.below(1 + w as u64) as usize).min(self.budget);
            self.budget -= extra;
            for _ in 0..extra {
                let (lname, lres) = self.rng.pick(&leaders).clone();
                let tag = self.next_tag;
                self.next_tag += 1;
                let t = if self.rng.chance(60) { 1 + self.rng.below(2) as u8 } else { self.t() };
                let (deps, r, wv) = if !lres.is_empty() && self.rng.chance(60) { (vec![], vec![], vec![lres[0]]) } else { (vec![lname], vec![], vec![]) };
                let name = format!("s{}", tag);
                ops.push(Op::Sys { tag, name: name.clone(), deps, r, w: wv, t });
                names.push(name);
            }
            prev_names = names;
        }
        ops
    }
}

fn all_res() -> Vec<Res> {
    let mut v = vec![];
    for ty in 0..NTY {
        for dy in 0..NDY {
            v.push((ty, dy));
        }
    }
    v
}

/// widths of the model's plan per builder → does any stage exceed what the harness knows is available
fn widest(ops: &[Op], drv: &mut Drv, pool1: &Pool) -> BTreeMap<Option<usize>, usize> {
    let shared = Shared::new(Op::max_tag(ops) + 1);
    let built = build_case(ops, Some(drv), shared, pool1, false);
    built.model_layouts.iter().map(|(k, l)| (*k, parse_model_layout(l).sys.iter().map(|s| s.len()).max().unwrap_or(0))).collect()
}

pub fn gen_case(seed: u64, c: u64, env: usize, reps: usize, p_negative: u64, drv: &mut Drv, pool1: &Pool) -> (String, RCfg, Vec<Op>) {
    let mut rng = Rng::new(seed, 0x5D5 + c);
    let pool = match rng.below(100) {
        0..=39 => PoolCfg::Default,
        40..=84 => {
            let span = if rng.chance(20) { 15 } else { 7 };
            PoolCfg::User(2 + rng.below(span) as usize)
        }
        _ => PoolCfg::Late(2 + rng.below(7) as usize),
    };
    let exec = if rng.chance(30) { "async" } else { "sync" };
    let mut cfg = RCfg { exec: exec.into(), caller: "main".into(), entry: "dispatch".into(), pool, env, inner: BTreeMap::new(), wpos: rng.below(3) as u8, reps, wafter: false, script: String::new(), delay: 0 };
    if exec == "sync" {
        cfg.caller = match rng.below(100) {
            0..=64 => "main",
            65..=84 => "foreign",
            _ => {
                if cfg.pool == PoolCfg::Default {
                    "main"
                } else {
                    "own"
                }
            }
        }
        .into();
        cfg.entry = match rng.below(100) {
            0..=59 => "dispatch",
            60..=79 => "par",
            _ => "runnow",
        }
        .into();
    }
    let negative = rng.chance(p_negative);
    let top = cfg.top_pool();
    let kind = rng.below(100);
    let (label, ops) = if kind < 70 {
        let hint = if rng.chance(50) { 1 + rng.below(5) as u8 } else { 0 };
        let touch = rng.below(3) as u8;
        let mut g = WideGen { rng: Rng::new(seed, 0xA11 + c), next_tag: 0, hint, touch, max_depth: if rng.chance(60) { 2 } else { 1 }, p_batch: if rng.chance(65) { 25 } else { 0 }, inner_pools: BTreeMap::new(), env, p_inner_pool: 20, over: negative, budget: 24 + rng.below(30) as usize };
        let cap = top.min(12);
        let ops = g.builder(0, cap, &all_res());
        cfg.inner = g.inner_pools.clone();
        (format!("wide:{}:{}", seed, c), ops)
    } else {
        let prof = *rng.pick(&["flat", "batch", "deps", "barriers", "base", "funnel"]);
        let mut gc = GenCfg::profile(prof);
        gc.p_tl = if cfg.caller == "main" { 5 } else { 0 };
        gc.p_unrelated = gc.p_unrelated.max(30);
        let mut g = Gen::new(Rng::new(seed, 0xB22 + c), gc);
        (format!("gen:{}:{}:{}", prof, seed, c), six_ctl(&g.case()))
    };
    // The pools are made large enough for the model's plan (unless this is a case about a pool
    // that is too small), so that nearly every experiment is one that must succeed. Which pool
    // to enlarge: the top-level one for the top level and its batches, the one given to the
    // enclosing batch's builder for anything deeper; plus every pool on the way that `min_pool`
    // counts.
    if !negative {
        let w = widest(&ops, drv, pool1);
        let (mut tagpath, mut ns) = (BTreeMap::new(), BTreeMap::new());
        paths(&ops, &[], &mut tagpath, &mut ns);
        for (k, width) in &w {
            let kp: Vec<usize> = match k {
                None => vec![],
                Some(k) => {
                    let mut p = tagpath.get(k).cloned().unwrap_or_default();
                    p.push(*k);
                    p
                }
            };
            if *width < 2 {
                continue;
            }
            for b in &kp {
                if let Some(p) = cfg.inner.get_mut(b) {
                    *p = (*p).max(*width);
                }
            }
            if kp.len() <= 1 {
                match &mut cfg.pool {
                    PoolCfg::User(p) | PoolCfg::Late(p) => *p = (*p).max(*width),
                    PoolCfg::Default => {
                        if *width > cfg.env {
                            cfg.pool = PoolCfg::User(*width);
                        }
                    }
                }
            } else {
                let parent = kp[kp.len() - 2];
                let have = cfg.inner.get(&parent).cloned().unwrap_or(cfg.env);
                if have < *width {
                    cfg.inner.insert(parent, *width);
                }
            }
        }
    }
    (label, cfg, ops)
}

/// A case about *sequences of calls* on an async dispatcher: a stage of `width` groups — exactly as
/// wide as the pool, or narrower — behind zero to two narrow stages (the first of which can be told
/// to take `delay` ms), and a script of two to four `dispatch()` calls, back to back or separated by
/// `wait` / `wait_without_tl` / `running` / `world`.
pub fn gen_seq_case(seed: u64, c: u64, env: usize, reps: usize, p_negative: u64) -> (String, RCfg, Vec<Op>) {
    let mut rng = Rng::new(seed, 0x5E9_0000 + c);
    let negative = rng.chance(p_negative);
    // the width first, then a pool of exactly that many threads or a few more
    let kind = if env >= 2 { rng.below(100) } else { 50 };
    let (pool, width) = if kind < 35 {
        // default pool: `env` threads
        let cap = env.min(12);
        let width = if cap == 2 || rng.chance(65) { cap } else { 2 + rng.below(cap as u64 - 2) as usize };
        (PoolCfg::Default, width)
    } else {
        let span = if rng.chance(25) { 11 } else { 5 };
        let width = 2 + rng.below(span) as usize;
        let p = if rng.chance(65) { width } else { width + 1 + rng.below(3) as usize };
        (if kind < 85 { PoolCfg::User(p) } else { PoolCfg::Late(p) }, width)
    };
    let mut cfg = RCfg { exec: "async".into(), caller: "main".into(), entry: "dispatch".into(), pool, env, inner: BTreeMap::new(), wpos: rng.below(3) as u8, reps, wafter: false, script: String::new(), delay: 0 };
    let width = if negative { cfg.top_pool() + 1 } else { width };
    // the calls
    let nd = 2 + rng.below(3) as usize;
    let mut script = String::from("d");
    for _ in 1..nd {
        match rng.below(100) {
            0..=59 => {}
            60..=74 => script.push('r'),
            75..=84 => script.push('w'),
            85..=91 => script.push('n'),
            92..=96 => script.push('o'),
            _ => script.push_str("rr"),
        }
        script.push('d');
    }
    if rng.chance(35) {
        script.push(*rng.pick(&['r', 'w', 'n', 'o']));
    }
    cfg.script = script;
    // the registrations
    let mut ops = vec![];
    let mut tag = 0usize;
    let hint = if rng.chance(50) { 1 + rng.below(5) as u8 } else { 0 };
    let t = |rng: &mut Rng| if hint == 0 { 1 + rng.below(5) as u8 } else { hint };
    let pre = match rng.below(100) {
        0..=14 => 0,
        15..=74 => 1,
        _ => 2,
    };
    let mut prev: Vec<String> = vec![];
    let mut by_dep = false;
    for _ in 0..pre {
        if !prev.is_empty() {
            ops.push(Op::Barrier);
        }
        prev.clear();
        for _ in 0..(1 + rng.below(100) / 70) {
            let name = format!("q{}", tag);
            ops.push(Op::Sys { tag, name: name.clone(), deps: vec![], r: vec![], w: vec![], t: t(&mut rng) });
            prev.push(name);
            tag += 1;
        }
    }
    if pre > 0 {
        by_dep = rng.chance(30);
        if !by_dep {
            ops.push(Op::Barrier);
        }
        if !rng.chance(10) {
            cfg.delay = 10 + rng.below(16);
        }
    }
    let touch = rng.below(3);
    let batch_at = if rng.chance(15) { Some(rng.below(width as u64) as usize) } else { None };
    let mut leaders = vec![];
    for g in 0..width {
        let name = format!("q{}", tag);
        let deps = if by_dep { prev.clone() } else { vec![] };
        let mine: Res = ((g % NTY as usize) as u8, (g / NTY as usize) as u64 % NDY);
        if batch_at == Some(g) {
            // a batch in the wide stage whose own stage is as wide as the pool allows, too
            let btag = tag;
            tag += 1;
            let iw = 2 + rng.below(width as u64 - 1) as usize;
            let inner: Vec<Op> = (0..iw)
                .map(|_| {
                    tag += 1;
                    Op::Sys { tag: tag - 1, name: format!("q{}", tag - 1), deps: vec![], r: vec![], w: vec![], t: t(&mut rng) }
                })
                .collect();
            ops.push(Op::Batch { tag: btag, name: name.clone(), deps, ctl: 0, t: t(&mut rng), n: 1 + rng.below(2) as usize, inner });
        } else {
            let w = if touch == 1 || (touch == 2 && rng.chance(50)) { vec![mine] } else { vec![] };
            ops.push(Op::Sys { tag, name: name.clone(), deps, r: vec![], w, t: t(&mut rng) });
            tag += 1;
        }
        leaders.push(name);
    }
    // second members for some groups
    for _ in 0..rng.below(1 + width as u64 / 2) {
        let l = rng.pick(&leaders).clone();
        ops.push(Op::Sys { tag, name: format!("q{}", tag), deps: vec![l], r: vec![], w: vec![], t: 1 + rng.below(2) as u8 });
        tag += 1;
    }
    if rng.chance(30) {
        ops.push(Op::Barrier);
        for _ in 0..(1 + rng.below(2)) {
            ops.push(Op::Sys { tag, name: format!("q{}", tag), deps: vec![], r: vec![], w: vec![], t: t(&mut rng) });
            tag += 1;
        }
    }
    (format!("seq:{}:{}", seed, c), cfg, ops)
}

fn simplify_cfg(cfg: &RCfg, pred: &mut dyn FnMut(&RCfg) -> bool) -> RCfg {
    let mut cur = cfg.clone();
    let mut cands: Vec<Box<dyn Fn(&RCfg) -> RCfg>> = vec![];
    cands.push(Box::new(|c| RCfg { reps: 1, ..c.clone() }));
    cands.push(Box::new(|c| RCfg { inner: BTreeMap::new(), ..c.clone() }));
    cands.push(Box::new(|c| RCfg { caller: "main".into(), ..c.clone() }));
    cands.push(Box::new(|c| RCfg { entry: "dispatch".into(), ..c.clone() }));
    cands.push(Box::new(|c| RCfg { exec: "sync".into(), script: String::new(), ..c.clone() }));
    // a sequence of calls: without the calls that are not `dispatch`, then with two dispatches only
    cands.push(Box::new(|c| RCfg { script: c.script.chars().filter(|x| *x == 'd').collect(), ..c.clone() }));
    cands.push(Box::new(|c| RCfg { script: if c.dispatches() > 2 { c.script.replacen('d', "", c.dispatches() - 2) } else { c.script.clone() }, ..c.clone() }));
    cands.push(Box::new(|c| RCfg { wpos: 0, ..c.clone() }));
    cands.push(Box::new(|c| RCfg { pool: if let PoolCfg::Late(p) = c.pool { PoolCfg::User(p) } else { c.pool.clone() }, ..c.clone() }));
    for f in cands {
        let cand = f(&cur);
        if cand != cur && pred(&cand) {
            cur = cand;
        }
    }
    cur
}

/// the registrations with these tags, the batches around them (whole), barriers; dependencies on
/// what is dropped are dropped
fn filter_ops(ops: &[Op], keep: &[usize]) -> Vec<Op> {
    fn contains(op: &Op, keep: &[usize]) -> bool {
        match op {
            Op::Sys { tag, .. } | Op::Tl { tag, .. } => keep.contains(tag),
            Op::Batch { tag, inner, .. } => keep.contains(tag) || inner.iter().any(|o| contains(o, keep)),
            Op::Barrier => false,
        }
    }
    fn go(ops: &[Op], keep: &[usize], whole: bool) -> Vec<Op> {
        let mut names: Vec<String> = vec![];
        let mut out = vec![];
        for op in ops {
            match op {
                Op::Barrier => out.push(Op::Barrier),
                Op::Tl { .. } => {
                    if whole || contains(op, keep) {
                        out.push(op.clone());
                    }
                }
                Op::Sys { tag, name, deps, r, w, t } => {
                    if whole || keep.contains(tag) {
                        out.push(Op::Sys { tag: *tag, name: name.clone(), deps: deps.iter().filter(|d| names.contains(d)).cloned().collect(), r: r.clone(), w: w.clone(), t: *t });
                        names.push(name.clone());
                    }
                }
                Op::Batch { tag, name, deps, ctl, t, n, inner } => {
                    if whole || contains(op, keep) {
                        let inner = go(inner, keep, whole || keep.contains(tag));
                        out.push(Op::Batch { tag: *tag, name: name.clone(), deps: deps.iter().filter(|d| names.contains(d)).cloned().collect(), ctl: *ctl, t: *t, n: *n, inner });
                        names.push(name.clone());
                    }
                }
            }
        }
        out
    }
    go(ops, keep, false)
}

pub fn case_lines(cfg: &RCfg, ops: &[Op]) -> Vec<String> {
    let mut v = vec![cfg.line()];
    Op::lines(ops, &mut v);
    v
}

/// batches that no longer exist must not keep an inner pool entry
fn prune_inner(cfg: &RCfg, ops: &[Op]) -> RCfg {
    let (mut tp, mut ns) = (BTreeMap::new(), BTreeMap::new());
    paths(ops, &[], &mut tp, &mut ns);
    let mut c = cfg.clone();
    c.inner.retain(|k, _| ns.contains_key(k));
    c
}

pub fn run_generated(args: &Args, rep: &mut Report, drv: &mut Drv) {
    let seed = args.num("seed", 1);
    let cases = args.num("cases", 150);
    let reps = args.num("gen-reps", 3) as usize;
    let deadline = args.num("deadline-ms", 3000);
    let short = args.num("short-ms", 300);
    let shrink_ms = args.num("shrink-ms", 250);
    let shrink_budget_ms = args.num("shrink-budget-ms", 9000);
    let p_negative = args.num("negative-pct", 4);
    let seq_cases = args.num("seq-cases", 40);
    let seq_reps = args.num("seq-reps", 1) as usize;
    let envs: Vec<usize> = args.str("envs", "2,3,4,6,8").split(',').filter_map(|x| x.parse().ok()).filter(|x| *x > 0).collect();
    let mut r2 = Runner2::new(deadline, short);
    let mut todo: Vec<(String, RCfg, Vec<Op>)> = vec![];
    let read_case = |text: &str| -> Option<(RCfg, Vec<Op>)> {
        let lines: Vec<String> = text.lines().filter(|l| !l.starts_with('#') && !l.trim().is_empty()).map(|s| s.to_string()).collect();
        let cfg = RCfg::parse(lines.first()?)?;
        Some((cfg, six_ctl(&Op::parse(&lines[1..]))))
    };
    if let Some(f) = args.get("replay") {
        let text = std::fs::read_to_string(&f).unwrap_or_default();
        if let Some((cfg, ops)) = read_case(&text) {
            todo.push((format!("replay:{}", f), cfg, ops));
        }
    } else {
        if let Some(dir) = args.get("corpus") {
            if let Ok(rd) = std::fs::read_dir(&dir) {
                let mut files: Vec<_> = rd.filter_map(|e| e.ok()).map(|e| e.path()).filter(|p| p.extension().map(|x| x == "case").unwrap_or(false)).collect();
                files.sort();
                for f in files {
                    if let Some((cfg, ops)) = read_case(&std::fs::read_to_string(&f).unwrap_or_default()) {
                        todo.push((format!("corpus:{}", f.display()), cfg, ops));
                        rep.count("corpus_cases");
                    }
                }
            }
        }
        // grouped by the process they run in
        for (ei, env) in envs.iter().enumerate() {
            for c in 0..cases {
                if (c as usize) % envs.len() == ei {
                    todo.push(gen_case(seed, c, *env, reps, p_negative, drv, &r2.pool1));
                }
            }
            // sequences of calls on an async dispatcher
            for c in 0..seq_cases {
                if (c as usize) % envs.len() == ei {
                    todo.push(gen_seq_case(seed, c, *env, seq_reps, p_negative));
                }
            }
        }
    }
    let mut reported: BTreeSet<String> = BTreeSet::new();
    for (label, cfg, ops) in todo {
        drv.begin_case();
        let ev = r2.eval(&cfg, &ops, drv, deadline, short);
        if let Some(why) = &ev.skipped {
            rep.count(&format!("gen_skipped: {}", why));
            continue;
        }
        rep.case(&format!("gen {}", ev.layout_key), ev.targets > 0);
        rep.count("gen_cases");
        rep.count(&format!("gen_exec_{}", cfg.exec));
        rep.count(&format!("gen_caller_{}", cfg.caller));
        rep.count(&format!("gen_entry_{}", cfg.entry));
        rep.count(match cfg.pool {
            PoolCfg::Default => "gen_pool_default",
            PoolCfg::User(_) => "gen_pool_user",
            PoolCfg::Late(_) => "gen_pool_user_after_batches",
        });
        if !cfg.inner.is_empty() {
            rep.count("gen_cases_with_pool_on_a_batch_builder");
        }
        if !cfg.script.is_empty() {
            rep.count("gen_seq_cases");
            rep.add("gen_seq_dispatch_calls", (cfg.dispatches() * cfg.reps) as u64);
            rep.add("gen_seq_dispatches_back_to_back", (cfg.back_to_back() * cfg.reps) as u64);
            for (c, name) in [('w', "wait"), ('n', "wait_without_tl"), ('r', "running"), ('o', "world")] {
                rep.add(&format!("gen_seq_calls_{}", name), cfg.script.chars().filter(|x| *x == c).count() as u64);
            }
            if cfg.delay > 0 {
                rep.count("gen_seq_cases_with_slow_first_stage");
            }
            if ev.max_width == cfg.top_pool() {
                rep.count("gen_seq_cases_widest_stage_equals_pool");
            } else if ev.max_width < cfg.top_pool() {
                rep.count("gen_seq_cases_pool_larger_than_widest_stage");
            }
        }
        rep.add("gen_rendezvous_experiments", ev.targets as u64);
        rep.add("gen_rendezvous_met", ev.targets_met as u64);
        rep.add("gen_experiments_on_too_small_pool", ev.neg_targets as u64);
        rep.add("gen_experiments_with_multi_member_group", ev.multi_member_targets as u64);
        rep.add("gen_experiments_with_batch_in_stage", ev.batch_member_targets as u64);
        rep.add("gen_stages", ev.stages as u64);
        rep.maxi("gen_max_stage_width", ev.max_width as u64);
        rep.maxi("gen_max_batch_depth", ev.depth as u64);
        rep.traces_validated += (ev.targets * cfg.reps) as u64;
        if rep.samples.len() < 3 && ev.targets >= 2 && ev.depth >= 1 {
            rep.sample(Json::obj(vec![("case", Json::Arr(case_lines(&cfg, &ops).into_iter().map(Json::s).collect())), ("plan", Json::s(ev.layout_key.clone())), ("rendezvous_experiments", Json::n(ev.targets as u64)), ("met", Json::n(ev.targets_met as u64))]));
        }
        if cfg.wafter {
            // the witness configuration of the open finding KF2 (a waiting system behind a batch in
            // its group): schedule-dependent, reported as it is, under its own class
            if !ev.impl_v.is_empty() && reported.insert("impl:kf2".into()) {
                rep.violate("C11", "impl", "kf2:behind-batch", format!("{} [{}]", ev.impl_v[0], label), case_lines(&cfg, &ops));
            }
            continue;
        }
        if !ev.impl_v.is_empty() && reported.insert("impl".into()) {
            // Shrink with a short deadline and a bounded amount of time (every candidate that still
            // fails waits for its deadline), then confirm with the generous deadline.
            let until = Instant::now() + Duration::from_millis(shrink_budget_ms);
            let mut small_ops = ops.clone();
            let mut small_cfg = cfg.clone();
            // a candidate counts as failing only if it fails the way the original did: if that was with
            // the first stage held up (certain interleaving), a failure without it (a race) is not kept
            let need_delay = ev.fail_delayed;
            let fails = move |e: &Eval| !e.impl_v.is_empty() && (!need_delay || e.fail_delayed);
            // a candidate that hangs is not waited for as patiently as a first run
            r2.patience = 8_000;
            // first guess: the systems of the failing stage and the batches around them
            if !ev.fail_tags.is_empty() {
                let cand = filter_ops(&ops, &ev.fail_tags);
                let cc = prune_inner(&cfg, &cand);
                if cand != ops && fails(&r2.eval(&cc, &cand, drv, shrink_ms, short.min(shrink_ms))) {
                    small_ops = cand;
                    small_cfg = cc;
                }
            }
            // fewer repetitions / calls first: every later candidate is cheaper for it
            small_cfg = simplify_cfg(&small_cfg, &mut |c: &RCfg| Instant::now() <= until && fails(&r2.eval(c, &small_ops, drv, shrink_ms, short.min(shrink_ms))));
            let base_cfg = small_cfg.clone();
            small_ops = shrink(&small_ops, &mut |c: &[Op]| {
                if Instant::now() > until {
                    return false;
                }
                let cc = prune_inner(&base_cfg, c);
                fails(&r2.eval(&cc, c, drv, shrink_ms, short.min(shrink_ms)))
            });
            small_cfg = prune_inner(&small_cfg, &small_ops);
            small_cfg = simplify_cfg(&small_cfg, &mut |c: &RCfg| Instant::now() <= until && fails(&r2.eval(c, &small_ops, drv, shrink_ms, short.min(shrink_ms))));
            r2.patience = 30_000;
            let mut confirm = r2.eval(&small_cfg, &small_ops, drv, deadline, short);
            if !fails(&confirm) {
                small_ops = ops.clone();
                small_cfg = cfg.clone();
                confirm = ev.clone();
            }
            rep.violate("C11", "impl", "", format!("{} [{}]", confirm.impl_v[0], label), case_lines(&small_cfg, &small_ops));
        }
        for (aspect, what) in &ev.model_v {
            if !ev.impl_v.is_empty() && aspect == "pool" {
                // the same fact as the implementation-side finding above
                continue;
            }
            if reported.insert(format!("model:{}", aspect)) {
                let asp = aspect.clone();
                // a disagreement seen with the short deadline only is not one
                let again = r2.eval(&cfg, &ops, drv, deadline, deadline);
                if !again.model_v.iter().any(|(a, _)| *a == asp) {
                    reported.remove(&format!("model:{}", aspect));
                    rep.count("gen_disagreements_gone_with_patient_deadline");
                    continue;
                }
                let until = Instant::now() + Duration::from_millis(shrink_budget_ms / 2);
                let small_ops = shrink(&ops, &mut |c: &[Op]| {
                    if Instant::now() > until {
                        return false;
                    }
                    let cc = prune_inner(&cfg, c);
                    r2.eval(&cc, c, drv, shrink_ms, short.min(shrink_ms)).model_v.iter().any(|(a, _)| *a == asp)
                });
                let small_cfg = prune_inner(&cfg, &small_ops);
                let confirm = r2.eval(&small_cfg, &small_ops, drv, deadline, deadline);
                let (c2, o2, w2) = match confirm.model_v.iter().find(|(a, _)| *a == asp) {
                    Some((_, w)) => (small_cfg, small_ops, w.clone()),
                    None => (cfg.clone(), ops.clone(), what.clone()),
                };
                rep.violate(&format!("MODEL:{}", aspect), "model", "", format!("{} [{}]", w2, label), case_lines(&c2, &o2));
            }
        }
        if !ev.impl_v.is_empty() {
            // every further case would wait for its deadline again
            break;
        }
    }
    rep.add("gen_child_processes", r2.children_started);
}
