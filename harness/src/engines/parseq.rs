//! Par/Seq engine (C16): trees assembled at run time from the real `Par` / `Seq` nodes through
//! a boxing adapter, with harness leaves that really borrow what they declare.
//!
//! Per case: (1) the tree is built with the real `Par::new/with`, `Seq::new/with` in a build
//! with debug assertions — every `with` under `catch_unwind` — and the first panicking `with`
//! (node, child) is compared with the harness's own leaf-level conflict computation (impl
//! oracle) and with the model (`ps tree`); (2) `reads()` / `writes()` of the root against the
//! concatenation over the leaves (impl) and the model; (3) `ParSeq::setup` reaches every leaf
//! once (impl), order against the model; (4) `ParSeq::dispatch` on pools of 1/2/4/8 threads,
//! called from outside the pool, from one of its workers and from a worker of another pool,
//! with holds / a rendezvous inside `run`: exactly-once and seq-order oracles on the event log
//! (impl), the log fed to the Lean acceptor of `toTask` (model), and the observed overlap of par
//! children recorded.
//!
//! Case lines (replay / corpus; the first two are also what the Lean driver reads after `ps `):
//! `leaf <tag> <reads> <writes>`, `tree <tokens>`, `run <pool> <mode> <sync> <reps> <hseed>`.
use crate::common::*;
use crate::gen::{parse_resl, resl, Res, NDY, NTY};
use crate::sys::*;
use shred::{Par, ParSeq, ResourceId, RunWithPool, Seq, World};
use std::collections::{BTreeMap, BTreeSet};
use std::panic::{catch_unwind, AssertUnwindSafe};
use std::sync::atomic::Ordering::SeqCst;
use std::sync::Arc;

const PROP: &str = "C16";
const WITH_MSG: &str = "Tried to add system with conflicting reads / writes";
pub const MAX_FANOUT: usize = 6;
pub const MAX_DEPTH: usize = 5;

/// the boxing adapter: any tree (or leaf) behind one type, so shapes can be chosen at run time.
/// Coherent with the blanket `impl RunWithPool for T: System` because `Dyn` is a local type
/// that is not a `System`.
pub struct Dyn(Box<dyn for<'a> RunWithPool<'a> + Send>);
impl Dyn {
    pub fn new<T>(t: T) -> Dyn
    where
        T: for<'a> RunWithPool<'a> + Send + 'static,
    {
        Dyn(Box::new(t))
    }
}
impl<'a> RunWithPool<'a> for Dyn {
    fn setup(&mut self, world: &mut World) {
        self.0.setup(world)
    }
    fn run(&mut self, world: &'a World, pool: &rayon::ThreadPool) {
        self.0.run(world, pool)
    }
    fn reads(&self, reads: &mut Vec<ResourceId>) {
        self.0.reads(reads)
    }
    fn writes(&self, writes: &mut Vec<ResourceId>) {
        self.0.writes(writes)
    }
}

/// `Par::new(c0).with(c1)..` exactly as `par![c0, c1, ..]` nests it, every `with` caught:
/// `Err((k, message))` = the `with` adding child `k` panicked. (`Nil` is not exported, so the
/// intermediate types are left to inference; fan-out is bounded by `MAX_FANOUT`.)
fn mk_par(cs: Vec<Dyn>) -> Result<Dyn, (usize, String)> {
    let n = cs.len();
    assert!(n >= 1 && n <= MAX_FANOUT, "fan-out {} not supported", n);
    let mut it = cs.into_iter();
    macro_rules! step {
        ($p:ident, $k:expr) => {
            if n == $k {
                return Ok(Dyn::new($p));
            }
            let c = it.next().unwrap();
            let $p = match catch_unwind(AssertUnwindSafe(move || $p.with(c))) {
                Ok(q) => q,
                Err(e) => return Err(($k, panic_message(&e))),
            };
        };
    }
    let p = Par::new(it.next().unwrap());
    step!(p, 1);
    step!(p, 2);
    step!(p, 3);
    step!(p, 4);
    step!(p, 5);
    Ok(Dyn::new(p))
}
fn mk_seq(cs: Vec<Dyn>) -> Result<Dyn, (usize, String)> {
    let n = cs.len();
    assert!(n >= 1 && n <= MAX_FANOUT, "fan-out {} not supported", n);
    let mut it = cs.into_iter();
    macro_rules! step {
        ($p:ident, $k:expr) => {
            if n == $k {
                return Ok(Dyn::new($p));
            }
            let c = it.next().unwrap();
            let $p = match catch_unwind(AssertUnwindSafe(move || $p.with(c))) {
                Ok(q) => q,
                Err(e) => return Err(($k, panic_message(&e))),
            };
        };
    }
    let p = Seq::new(it.next().unwrap());
    step!(p, 1);
    step!(p, 2);
    step!(p, 3);
    step!(p, 4);
    step!(p, 5);
    Ok(Dyn::new(p))
}

#[derive(Clone, Debug, PartialEq)]
pub enum Shape {
    Leaf(usize),
    Par(Vec<Shape>),
    Seq(Vec<Shape>),
}
impl Shape {
    pub fn tokens(&self, out: &mut Vec<String>) {
        match self {
            Shape::Leaf(t) => out.push(t.to_string()),
            Shape::Par(cs) | Shape::Seq(cs) => {
                out.push(if matches!(self, Shape::Par(_)) { "P[" } else { "S[" }.to_string());
                for c in cs {
                    c.tokens(out);
                }
                out.push("]".into());
            }
        }
    }
    pub fn text(&self) -> String {
        let mut v = vec![];
        self.tokens(&mut v);
        v.join(" ")
    }
    pub fn parse(toks: &[&str]) -> Option<Shape> {
        fn go(toks: &[&str], i: &mut usize) -> Option<Shape> {
            let t = *toks.get(*i)?;
            *i += 1;
            if t == "P[" || t == "S[" {
                let mut cs = vec![];
                while *toks.get(*i)? != "]" {
                    cs.push(go(toks, i)?);
                }
                *i += 1;
                if cs.is_empty() || cs.len() > MAX_FANOUT {
                    return None;
                }
                Some(if t == "P[" { Shape::Par(cs) } else { Shape::Seq(cs) })
            } else {
                t.parse().ok().map(Shape::Leaf)
            }
        }
        let mut i = 0;
        let s = go(toks, &mut i)?;
        if i == toks.len() {
            Some(s)
        } else {
            None
        }
    }
    pub fn leaves(&self) -> Vec<usize> {
        match self {
            Shape::Leaf(t) => vec![*t],
            Shape::Par(cs) | Shape::Seq(cs) => cs.iter().flat_map(|c| c.leaves()).collect(),
        }
    }
    pub fn depth(&self) -> usize {
        match self {
            Shape::Leaf(_) => 0,
            Shape::Par(cs) | Shape::Seq(cs) => 1 + cs.iter().map(|c| c.depth()).max().unwrap_or(0),
        }
    }
    pub fn max_fanout(&self) -> usize {
        match self {
            Shape::Leaf(_) => 0,
            Shape::Par(cs) | Shape::Seq(cs) => cs.len().max(cs.iter().map(|c| c.max_fanout()).max().unwrap_or(0)),
        }
    }
    /// (par nodes, seq nodes, par nodes with >= 2 children, seq nodes with >= 2 children)
    pub fn nodes(&self) -> (usize, usize, usize, usize) {
        match self {
            Shape::Leaf(_) => (0, 0, 0, 0),
            Shape::Par(cs) | Shape::Seq(cs) => {
                let mut r = if matches!(self, Shape::Par(_)) { (1, 0, (cs.len() > 1) as usize, 0) } else { (0, 1, 0, (cs.len() > 1) as usize) };
                for c in cs {
                    let x = c.nodes();
                    r = (r.0 + x.0, r.1 + x.1, r.2 + x.2, r.3 + x.3);
                }
                r
            }
        }
    }
    /// simpler shapes for shrinking: a child in place of its parent, a child dropped, recursively
    pub fn variants(&self) -> Vec<Shape> {
        match self {
            Shape::Leaf(_) => vec![],
            Shape::Par(cs) | Shape::Seq(cs) => {
                let mk = |v: Vec<Shape>| if matches!(self, Shape::Par(_)) { Shape::Par(v) } else { Shape::Seq(v) };
                let mut out: Vec<Shape> = cs.to_vec();
                if cs.len() > 1 {
                    for i in 0..cs.len() {
                        let mut v = cs.clone();
                        v.remove(i);
                        out.push(mk(v));
                    }
                }
                for i in 0..cs.len() {
                    for x in cs[i].variants() {
                        let mut v = cs.clone();
                        v[i] = x;
                        out.push(mk(v));
                    }
                }
                out
            }
        }
    }
}

/// how one dispatch series is run
#[derive(Clone, Debug, PartialEq)]
pub struct RunCfg {
    pub pool: usize,
    /// 0 = dispatch called from outside the pool, 1 = from one of its workers (`pool.install`),
    /// 2 = from a worker of a different pool
    pub mode: u8,
    /// 0 = no holds, 1 = random holds inside `run`, 2 = rendezvous of two systems (bounded wait)
    pub sync: u8,
    pub reps: u32,
    pub hseed: u64,
}

#[derive(Clone, Debug, PartialEq)]
pub struct Case {
    pub decls: BTreeMap<usize, (Vec<Res>, Vec<Res>)>,
    pub shape: Shape,
    pub runs: Vec<RunCfg>,
}
impl Case {
    pub fn lines(&self) -> Vec<String> {
        let mut v = vec![];
        for t in self.shape.leaves() {
            let (r, w) = self.decl(t);
            v.push(format!("leaf {} {} {}", t, resl(&r), resl(&w)));
        }
        v.push(format!("tree {}", self.shape.text()));
        for r in &self.runs {
            v.push(format!("run {} {} {} {} {}", r.pool, r.mode, r.sync, r.reps, r.hseed));
        }
        v
    }
    pub fn parse(lines: &[String]) -> Option<Case> {
        let mut decls = BTreeMap::new();
        let mut shape = None;
        let mut runs = vec![];
        for l in lines {
            let p: Vec<&str> = l.split_whitespace().collect();
            match p.as_slice() {
                ["leaf", t, r, w] => {
                    decls.insert(t.parse().ok()?, (parse_resl(r), parse_resl(w)));
                }
                ["tree", rest @ ..] => shape = Some(Shape::parse(rest)?),
                ["run", pool, mode, sync, reps, hseed] => runs.push(RunCfg {
                    pool: pool.parse().ok()?,
                    mode: mode.parse().ok()?,
                    sync: sync.parse().ok()?,
                    reps: reps.parse().ok()?,
                    hseed: hseed.parse().ok()?,
                }),
                [] => {}
                _ => return None,
            }
        }
        let shape = shape?;
        let lv = shape.leaves();
        let set: BTreeSet<usize> = lv.iter().cloned().collect();
        // leaf tags identify the systems in the log: they must be pairwise distinct
        if set.len() != lv.len() || lv.iter().any(|t| *t > 100_000) {
            return None;
        }
        for r in &runs {
            if ![1, 2, 4, 8].contains(&r.pool) || r.mode > 2 || r.sync > 2 {
                return None;
            }
        }
        Some(Case { decls, shape, runs })
    }
    pub fn decl(&self, t: usize) -> (Vec<Res>, Vec<Res>) {
        self.decls.get(&t).cloned().unwrap_or_default()
    }
    pub fn key(&self) -> String {
        let mut s = self.shape.text();
        for t in self.shape.leaves() {
            let (r, w) = self.decl(t);
            s.push_str(&format!("|{}:{}:{}", t, resl(&r), resl(&w)));
        }
        s
    }
}

/// W/R, W/W or R/W between two leaves
fn leaf_conflict(a: &(Vec<Res>, Vec<Res>), b: &(Vec<Res>, Vec<Res>)) -> bool {
    a.1.iter().any(|x| b.0.contains(x) || b.1.contains(x)) || a.0.iter().any(|x| b.1.contains(x))
}

/// Implementation-side expectation, computed from the leaves alone: the first `with` (in the
/// order the constructors are called: children left to right, depth first, then the node's own
/// fold) whose new child conflicts with a leaf of a child already in that node.
pub fn expected_panic(case: &Case) -> Option<(usize, usize)> {
    fn go(case: &Case, s: &Shape, pos: &mut usize) -> Option<(usize, usize)> {
        match s {
            Shape::Leaf(_) => {
                *pos += 1;
                None
            }
            Shape::Par(cs) | Shape::Seq(cs) => {
                let id = *pos;
                *pos += 1;
                for c in cs {
                    if let Some(p) = go(case, c, pos) {
                        return Some(p);
                    }
                }
                *pos += 1;
                if matches!(s, Shape::Par(_)) {
                    let mut have: Vec<usize> = cs[0].leaves();
                    for k in 1..cs.len() {
                        let new = cs[k].leaves();
                        for x in &have {
                            for y in &new {
                                if leaf_conflict(&case.decl(*x), &case.decl(*y)) {
                                    return Some((id, k));
                                }
                            }
                        }
                        have.extend(new);
                    }
                }
                None
            }
        }
    }
    go(case, &case.shape, &mut 0)
}

#[derive(Debug)]
pub enum BuildErr {
    /// the `with` adding child `k` of the par node whose `P[` is token number `node` panicked
    With { node: usize, k: usize },
    Other(String),
}

/// the real constructors, in the order described at `expected_panic`
pub fn build_real(case: &Case, shared: &Arc<Shared>) -> Result<Dyn, BuildErr> {
    fn go(case: &Case, shared: &Arc<Shared>, s: &Shape, pos: &mut usize) -> Result<Dyn, BuildErr> {
        match s {
            Shape::Leaf(t) => {
                *pos += 1;
                let (r, w) = case.decl(*t);
                Ok(Dyn::new(HSys { acc: Acc { tag: *t, decl_r: r, decl_w: w, shared: shared.clone(), path: vec![], borrow: true }, time: rt(3) }))
            }
            Shape::Par(cs) | Shape::Seq(cs) => {
                let id = *pos;
                *pos += 1;
                let mut v = vec![];
                for c in cs {
                    v.push(go(case, shared, c, pos)?);
                }
                *pos += 1;
                if matches!(s, Shape::Par(_)) {
                    mk_par(v).map_err(|(k, m)| if m == WITH_MSG { BuildErr::With { node: id, k } } else { BuildErr::Other(format!("Par::with (node {}, child {}) panicked with {:?}", id, k, m)) })
                } else {
                    mk_seq(v).map_err(|(k, m)| BuildErr::Other(format!("Seq::with (node {}, child {}) panicked with {:?}", id, k, m)))
                }
            }
        }
    }
    match catch_unwind(AssertUnwindSafe(|| go(case, shared, &case.shape, &mut 0))) {
        Ok(r) => r,
        Err(e) => Err(BuildErr::Other(format!("construction panicked outside `with`: {}", panic_message(&e)))),
    }
}

pub struct Pools {
    pools: BTreeMap<usize, rayon::ThreadPool>,
    other: rayon::ThreadPool,
}
impl Pools {
    pub fn new() -> Pools {
        let mk = |n: usize| rayon::ThreadPoolBuilder::new().num_threads(n).build().unwrap();
        Pools { pools: [1usize, 2, 4, 8].iter().map(|&n| (n, mk(n))).collect(), other: mk(2) }
    }
}

fn res_table() -> Vec<(ResourceId, Res)> {
    let mut v = vec![];
    for ty in 0..NTY {
        for dy in 0..NDY {
            v.push((rid((ty, dy)), (ty, dy)));
        }
    }
    v
}
fn back(ids: &[ResourceId], tab: &[(ResourceId, Res)]) -> Vec<Res> {
    ids.iter().map(|i| tab.iter().find(|(r, _)| r == i).map(|x| x.1).unwrap_or((255, 0))).collect()
}

/// positions of the F and D of every leaf in a log, plus everything wrong with the log as a
/// record of "every leaf ran exactly once"
fn once_oracle(leaves: &[usize], log: &[(char, usize)], runs: &BTreeMap<usize, u64>) -> (BTreeMap<usize, (usize, usize)>, Vec<String>) {
    let mut bad = vec![];
    let mut win = BTreeMap::new();
    for &t in leaves {
        let f: Vec<usize> = log.iter().enumerate().filter(|(_, e)| **e == ('F', t)).map(|x| x.0).collect();
        let d: Vec<usize> = log.iter().enumerate().filter(|(_, e)| **e == ('D', t)).map(|x| x.0).collect();
        if f.len() != 1 || d.len() != 1 {
            bad.push(format!("leaf {} fetched {} times and dropped {} times in one dispatch", t, f.len(), d.len()));
        } else if f[0] > d[0] {
            bad.push(format!("leaf {} dropped before it fetched", t));
        } else {
            win.insert(t, (f[0], d[0]));
        }
        let r = runs.get(&t).cloned().unwrap_or(0);
        if r != 1 {
            bad.push(format!("leaf {} ran {} times in one dispatch", t, r));
        }
    }
    for e in log {
        if (e.0 != 'F' && e.0 != 'D') || !leaves.contains(&e.1) {
            bad.push(format!("unexpected event {}{} in the log", e.0, e.1));
        }
    }
    (win, bad)
}

/// for every seq node: every leaf of an earlier child dropped before any leaf of a later child fetched
fn seq_oracle(s: &Shape, win: &BTreeMap<usize, (usize, usize)>, bad: &mut Vec<String>) {
    if let Shape::Par(cs) | Shape::Seq(cs) = s {
        if matches!(s, Shape::Seq(_)) {
            for i in 0..cs.len() {
                for j in i + 1..cs.len() {
                    for x in cs[i].leaves() {
                        for y in cs[j].leaves() {
                            if let (Some(wx), Some(wy)) = (win.get(&x), win.get(&y)) {
                                if wx.1 > wy.0 && bad.len() < 4 {
                                    bad.push(format!("seq node {}: leaf {} of child {} fetched before leaf {} of child {} had dropped", s.text(), y, j, x, i));
                                }
                            }
                        }
                    }
                }
            }
        }
        for c in cs {
            seq_oracle(c, win, bad);
        }
    }
}

/// (par nodes with >= 2 children, how many of them had leaves of two different children open at once)
fn overlap_stats(s: &Shape, win: &BTreeMap<usize, (usize, usize)>) -> (u64, u64) {
    let mut r = (0, 0);
    if let Shape::Par(cs) | Shape::Seq(cs) = s {
        if matches!(s, Shape::Par(_)) && cs.len() > 1 {
            r.0 += 1;
            let mut ov = false;
            for i in 0..cs.len() {
                for j in i + 1..cs.len() {
                    for x in cs[i].leaves() {
                        for y in cs[j].leaves() {
                            if let (Some(a), Some(b)) = (win.get(&x), win.get(&y)) {
                                if a.0 < b.1 && b.0 < a.1 {
                                    ov = true;
                                }
                            }
                        }
                    }
                }
            }
            if ov {
                r.1 += 1;
            }
        }
        for c in cs {
            let x = overlap_stats(c, win);
            r.0 += x.0;
            r.1 += x.1;
        }
    }
    r
}

#[derive(Default)]
pub struct CaseResult {
    /// (class, what) — the real crate breaks C16
    pub impl_v: Vec<(String, String)>,
    /// (aspect, what) — model and crate disagree
    pub model_v: Vec<(String, String)>,
    pub built: bool,
    pub panic_at: Option<(usize, usize)>,
    pub dispatches: u64,
    pub accepted: u64,
    /// per pool size: (dispatches, par nodes seen, par nodes overlapped, max systems inside at once)
    pub overlap: BTreeMap<usize, (u64, u64, u64, u64)>,
    pub sample_trace: Option<String>,
    pub pair_checks: u64,
    pub pair_panics: u64,
    /// on pools of >= 2 threads with holds / rendezvous: (par nodes with >= 2 children seen, overlapped)
    pub par_obs: (u64, u64),
}

pub struct Tuning {
    pub hold_us: u64,
    pub rdv_timeout_us: u64,
}

pub fn eval_case(case: &Case, mut drv: Option<&mut Drv>, pools: &Pools, tune: &Tuning) -> CaseResult {
    let mut res = CaseResult::default();
    let leaves = case.shape.leaves();
    let ntags = leaves.iter().max().map(|m| m + 1).unwrap_or(1);
    let tab = res_table();
    // ---- (1) construction ----
    let shared = Shared::new(ntags);
    let real = build_real(case, &shared);
    let exp = expected_panic(case);
    let real_panic = match &real {
        Ok(_) => None,
        Err(BuildErr::With { node, k }) => Some((*node, *k)),
        Err(BuildErr::Other(m)) => {
            res.impl_v.push(("unexpected-panic".into(), m.clone()));
            return res;
        }
    };
    res.panic_at = real_panic;
    res.built = real.is_ok();
    if real_panic != exp {
        let d = |p: Option<(usize, usize)>| match p {
            None => "no panic".to_string(),
            Some((n, k)) => format!("panic when adding child {} to the par node at token {}", k, n),
        };
        res.impl_v.push((
            "with-check".into(),
            format!("Par::with (debug assertions on): {} but the leaves' declared accesses demand {} [tree {}]", d(real_panic), d(exp), case.shape.text()),
        ));
    }
    let mut model_built = false;
    if let Some(drv) = drv.as_deref_mut() {
        drv.ask("ps new");
        for &t in &leaves {
            let (r, w) = case.decl(t);
            drv.ask(&format!("ps leaf {} {} {}", t, resl(&r), resl(&w)));
        }
        let a = drv.ask(&format!("ps tree {}", case.shape.text()));
        let want = match real_panic {
            None => format!("built [{}]", leaves.iter().map(|t| t.to_string()).collect::<Vec<_>>().join(",")),
            Some((n, k)) => format!("panic {} {}", n, k),
        };
        model_built = a.starts_with("built");
        if a != want {
            res.model_v.push(("with-check".into(), format!("construction of {}: real crate `{}`, model `{}`", case.shape.text(), want, a)));
        }
    }
    let root = match real {
        Ok(r) => r,
        Err(_) => return res,
    };
    if !res.impl_v.is_empty() {
        return res;
    }
    // ---- (2) reads / writes of the root ----
    let (mut rr, mut ww) = (vec![], vec![]);
    root.reads(&mut rr);
    root.writes(&mut ww);
    let (rr, ww) = (back(&rr, &tab), back(&ww, &tab));
    let exp_r: Vec<Res> = leaves.iter().flat_map(|t| case.decl(*t).0).collect();
    let exp_w: Vec<Res> = leaves.iter().flat_map(|t| case.decl(*t).1).collect();
    if rr != exp_r {
        res.impl_v.push(("reads".into(), format!("root reads() = {} but the leaves declare {} [tree {}]", resl(&rr), resl(&exp_r), case.shape.text())));
    }
    if ww != exp_w {
        res.impl_v.push(("writes".into(), format!("root writes() = {} but the leaves declare {} [tree {}]", resl(&ww), resl(&exp_w), case.shape.text())));
    }
    if model_built {
        if let Some(drv) = drv.as_deref_mut() {
            let a = drv.ask("ps reads");
            if a != resl(&rr) {
                res.model_v.push(("reads".into(), format!("root reads() = {} but the model says {}", resl(&rr), a)));
            }
            let a = drv.ask("ps writes");
            if a != resl(&ww) {
                res.model_v.push(("writes".into(), format!("root writes() = {} but the model says {}", resl(&ww), a)));
            }
        }
    }
    drop(root);
    if !res.impl_v.is_empty() {
        return res;
    }
    // ---- (2b) `Par::new(a).with(b)` for adjacent children of the root, whatever the root is:
    // children of a seq node conflict freely, so both outcomes of the check occur on big subtrees
    if let Shape::Par(cs) | Shape::Seq(cs) = &case.shape {
        for i in 0..cs.len().saturating_sub(1) {
            let sub = |s: &Shape| Case { decls: case.decls.clone(), shape: s.clone(), runs: vec![] };
            let (ca, cb) = (sub(&cs[i]), sub(&cs[i + 1]));
            let (a, b) = match (build_real(&ca, &shared), build_real(&cb, &shared)) {
                (Ok(a), Ok(b)) => (a, b),
                _ => continue,
            };
            let real = match catch_unwind(AssertUnwindSafe(move || Par::new(a).with(b))) {
                Ok(_) => false,
                Err(e) if panic_message(&e) == WITH_MSG => true,
                Err(e) => {
                    res.impl_v.push(("unexpected-panic".into(), format!("Par::new(a).with(b) panicked with {:?}", panic_message(&e))));
                    return res;
                }
            };
            let want = cs[i].leaves().iter().any(|x| cs[i + 1].leaves().iter().any(|y| leaf_conflict(&case.decl(*x), &case.decl(*y))));
            res.pair_checks += 1;
            res.pair_panics += real as u64;
            if real != want {
                res.impl_v.push((
                    "with-check".into(),
                    format!("Par::new({}).with({}) {} but their leaves {} [children {} and {} of the root of {}]", cs[i].text(), cs[i + 1].text(), if real { "panicked" } else { "did not panic" }, if want { "conflict" } else { "do not conflict" }, i, i + 1, case.shape.text()),
                ));
                return res;
            }
            if let Some(drv) = drv.as_deref_mut() {
                let a = drv.ask(&format!("ps with-check {} | {}", cs[i].text(), cs[i + 1].text()));
                if a != if real { "fail" } else { "pass" } {
                    res.model_v.push(("with-check".into(), format!("Par::new({}).with({}) {} but the model's check answers `{}`", cs[i].text(), cs[i + 1].text(), if real { "panicked" } else { "did not panic" }, a)));
                }
            }
        }
    }
    // ---- (3) + (4): one fresh tree per run configuration ----
    let runs: Vec<RunCfg> = if case.runs.is_empty() { vec![RunCfg { pool: 2, mode: 0, sync: 0, reps: 1, hseed: 0 }] } else { case.runs.clone() };
    for (ri, rc) in runs.iter().enumerate() {
        let shared = Shared::new(ntags);
        shared.rendezvous_timeout_us.store(tune.rdv_timeout_us, SeqCst);
        let root = match build_real(case, &shared) {
            Ok(r) => r,
            Err(e) => {
                res.impl_v.push(("unexpected-panic".into(), format!("second construction of the same tree failed: {:?}", e)));
                return res;
            }
        };
        let pool = &pools.pools[&rc.pool];
        let mut world = full_world();
        let mut ps = ParSeq::new(root, pool);
        // setup
        // every other tree is set up / dispatched through `impl RunNow for ParSeq` (par_seq.rs l.238)
        let via_trait = leaves.len() % 2 == 1;
        if let Err(e) = catch_unwind(AssertUnwindSafe(|| if via_trait { shred::RunNow::setup(&mut ps, &mut world) } else { ps.setup(&mut world) })) {
            res.impl_v.push(("setup".into(), format!("ParSeq::setup panicked: {}", panic_message(&e))));
            return res;
        }
        let order: Vec<usize> = shared.lifecycle.lock().unwrap().iter().filter(|e| e.0 == 'S').map(|e| e.1).collect();
        for &t in &leaves {
            let n = shared.behav[t].setups.load(SeqCst);
            if n != 1 {
                res.impl_v.push(("setup".into(), format!("ParSeq::setup ran the setup hook of leaf {} {} times [tree {}]", t, n, case.shape.text())));
                break;
            }
            let u = shared.behav[t].sys_setups.load(SeqCst);
            if u != 1 {
                res.impl_v.push(("setup".into(), format!("ParSeq::setup called the leaf's own System::setup of leaf {} {} times [tree {}]", t, u, case.shape.text())));
                break;
            }
        }
        if ri == 0 && model_built {
            if let Some(drv) = drv.as_deref_mut() {
                let a = drv.ask("ps setup");
                let mine = format!("[{}]", order.iter().map(|t| t.to_string()).collect::<Vec<_>>().join(","));
                if a != mine {
                    res.model_v.push(("setup".into(), format!("setup hooks ran in order {} but the model says {}", mine, a)));
                }
            }
        }
        if !res.impl_v.is_empty() {
            return res;
        }
        // dispatches
        for rep in 0..rc.reps {
            shared.reset_state();
            shared.reset_behaviour();
            shared.take_log();
            let mut hr = Rng::new(rc.hseed, rep as u64);
            for &t in &leaves {
                let b = &shared.behav[t];
                match rc.sync {
                    1 => b.hold_us.store(if hr.chance(35) { 0 } else { hr.below(tune.hold_us + 1) }, SeqCst),
                    2 => {
                        b.rendezvous.store(2, SeqCst);
                        b.hold_us.store(hr.below(tune.hold_us / 4 + 1), SeqCst);
                    }
                    _ => {}
                }
            }
            let w = &world;
            let out = catch_unwind(AssertUnwindSafe(|| match rc.mode {
                0 if via_trait => shred::RunNow::run_now(&mut ps, w),
                0 => ps.dispatch(w),
                1 if via_trait => pool.install(|| shred::RunNow::run_now(&mut ps, w)),
                1 => pool.install(|| ps.dispatch(w)),
                _ => pools.other.install(|| ps.dispatch(w)),
            }));
            res.dispatches += 1;
            let log: Vec<(char, usize)> = shared.take_log().iter().map(|e| (e.kind, *e.inst.last().unwrap_or(&usize::MAX))).collect();
            let logtext = log.iter().map(|e| format!("{}{}", e.0, e.1)).collect::<Vec<_>>().join(" ");
            let ctx = format!("[tree {}; pool of {}, dispatch called {}; log {}]", case.shape.text(), rc.pool, ["from outside the pool", "from a worker of the pool", "from a worker of another pool"][rc.mode as usize], logtext);
            if let Err(e) = out {
                res.impl_v.push(("dispatch-panic".into(), format!("dispatch of a tree that passed every debug check panicked: {} {}", panic_message(&e), ctx)));
                return res;
            }
            let runs_now: BTreeMap<usize, u64> = leaves.iter().map(|&t| (t, shared.behav[t].runs.load(SeqCst))).collect();
            let (win, mut bad) = once_oracle(&leaves, &log, &runs_now);
            if let Some(b) = bad.first() {
                res.impl_v.push(("once".into(), format!("{} {}", b, ctx)));
                return res;
            }
            seq_oracle(&case.shape, &win, &mut bad);
            if let Some(b) = bad.first() {
                res.impl_v.push(("seq-order".into(), format!("{} {}", b, ctx)));
                return res;
            }
            let ov = overlap_stats(&case.shape, &win);
            let e = res.overlap.entry(rc.pool).or_insert((0, 0, 0, 0));
            e.0 += 1;
            e.1 += ov.0;
            e.2 += ov.1;
            e.3 = e.3.max(shared.max_inside.load(SeqCst) as u64);
            if rc.pool >= 2 && rc.sync >= 1 {
                res.par_obs.0 += ov.0;
                res.par_obs.1 += ov.1;
            }
            if res.sample_trace.is_none() || ov.1 > 0 {
                res.sample_trace = Some(logtext.clone());
            }
            if model_built {
                if let Some(drv) = drv.as_deref_mut() {
                    drv.ask("ps begin");
                    let mut verdict = String::new();
                    for ev in &log {
                        let a = drv.ask(&format!("ps ev {} {}", ev.0, ev.1));
                        if a != "ok" {
                            verdict = a;
                            break;
                        }
                    }
                    if verdict.is_empty() {
                        verdict = drv.ask("ps end");
                    }
                    if verdict == "accept" {
                        res.accepted += 1;
                    } else {
                        res.model_v.push(("trace".into(), format!("the model's acceptor answers `{}` to a real trace {}", verdict, ctx)));
                        return res;
                    }
                }
            }
        }
    }
    res
}

// ---------------------------------------------------------------- generator

pub struct GenCfg {
    pub max_leaves: usize,
    pub reps: u32,
    pub runs: usize,
}

struct G {
    rng: Rng,
    next: usize,
    budget: usize,
}
impl G {
    fn fanout(&mut self) -> usize {
        match self.rng.below(100) {
            0..=9 => 1,
            10..=44 => 2,
            45..=69 => 3,
            70..=81 => 4,
            82..=90 => 5,
            _ => 6,
        }
    }
    fn leaf(&mut self) -> Shape {
        let t = self.next;
        self.next += 1;
        self.budget = self.budget.saturating_sub(1);
        Shape::Leaf(t)
    }
    /// `spine`: keep one child going down to the full depth
    fn shape(&mut self, depth_left: usize, root: bool, spine: bool) -> Shape {
        if depth_left == 0 || (!spine && (self.budget <= 1 || (!root && self.rng.chance(30)))) {
            return self.leaf();
        }
        let n = if self.budget <= 2 { 1 + self.rng.below(2) as usize } else { self.fanout() };
        let par = self.rng.chance(50);
        let keep = self.rng.below(n as u64) as usize;
        let cs: Vec<Shape> = (0..n).map(|i| self.shape(depth_left - 1, false, spine && i == keep)).collect();
        if par {
            Shape::Par(cs)
        } else {
            Shape::Seq(cs)
        }
    }
    fn subset(&mut self, from: &[Res], pct: u64, cap: usize) -> Vec<Res> {
        let mut v = vec![];
        for r in from {
            if v.len() < cap && self.rng.chance(pct) {
                v.push(*r);
                if self.rng.chance(6) {
                    v.push(*r); // a duplicate in the declared list
                }
            }
        }
        v
    }
    /// access sets such that leaves whose lowest common ancestor is a par node never conflict
    /// (leaves separated by a seq node conflict freely)
    fn assign(&mut self, s: &Shape, ar: &[Res], aw: &[Res], decls: &mut BTreeMap<usize, (Vec<Res>, Vec<Res>)>) {
        match s {
            Shape::Leaf(t) => {
                let w = self.subset(aw, 35, 3);
                let r = self.subset(ar, 35, 4);
                decls.insert(*t, (r, w));
            }
            Shape::Seq(cs) => {
                for c in cs {
                    self.assign(c, ar, aw, decls);
                }
            }
            Shape::Par(cs) => {
                let n = cs.len();
                let mut car: Vec<Vec<Res>> = vec![vec![]; n];
                let mut caw: Vec<Vec<Res>> = vec![vec![]; n];
                for r in ar {
                    if aw.contains(r) {
                        match self.rng.below(10) {
                            0..=5 => {
                                let k = self.rng.below(n as u64) as usize;
                                car[k].push(*r);
                                caw[k].push(*r);
                            }
                            6..=8 => car.iter_mut().for_each(|v| v.push(*r)),
                            _ => {}
                        }
                    } else {
                        car.iter_mut().for_each(|v| v.push(*r));
                    }
                }
                for (i, c) in cs.iter().enumerate() {
                    self.assign(c, &car[i], &caw[i], decls);
                }
            }
        }
    }
}

/// profile 0 = conflict-free across par children, 1 = the same plus one injected conflict
/// between two random leaves, 2 = independent random access sets over a small universe
pub fn gen_case(seed: u64, idx: u64, cfg: &GenCfg) -> (Case, u8, Option<u8>) {
    let mut g = G { rng: Rng::new(seed, idx), next: 0, budget: 0 };
    let profile = match g.rng.below(100) {
        0..=59 => 0u8,
        60..=84 => 1,
        _ => 2,
    };
    g.budget = 2 + g.rng.below(cfg.max_leaves as u64 - 1) as usize;
    let depth = 1 + g.rng.below(MAX_DEPTH as u64) as usize;
    let spine = g.rng.chance(30);
    let shape = g.shape(depth, true, spine);
    let nty = 1 + g.rng.below(NTY as u64) as u8;
    let ndy = 1 + g.rng.below(NDY);
    let uni: Vec<Res> = (0..nty).flat_map(|t| (0..ndy).map(move |d| (t, d))).collect();
    let mut decls = BTreeMap::new();
    let mut kind = None;
    if profile == 2 {
        for t in shape.leaves() {
            let w = g.subset(&uni, 12, 2);
            let r = g.subset(&uni, 15, 3);
            decls.insert(t, (r, w));
        }
    } else {
        g.assign(&shape, &uni, &uni, &mut decls);
        let lv = shape.leaves();
        if profile == 1 && lv.len() >= 2 {
            let x = *g.rng.pick(&lv);
            let mut y = *g.rng.pick(&lv);
            if y == x {
                y = lv[(lv.iter().position(|t| *t == x).unwrap() + 1) % lv.len()];
            }
            let r = *g.rng.pick(&uni);
            let k = g.rng.below(3) as u8;
            kind = Some(k);
            match k {
                0 => {
                    decls.get_mut(&x).unwrap().1.push(r);
                    decls.get_mut(&y).unwrap().1.push(r);
                }
                1 => {
                    decls.get_mut(&x).unwrap().1.push(r);
                    decls.get_mut(&y).unwrap().0.push(r);
                }
                _ => {
                    decls.get_mut(&x).unwrap().0.push(r);
                    decls.get_mut(&y).unwrap().1.push(r);
                }
            }
        }
    }
    let mut runs = vec![];
    for _ in 0..cfg.runs {
        runs.push(RunCfg {
            pool: *g.rng.pick(&[1usize, 2, 4, 4, 8, 8]),
            mode: *g.rng.pick(&[0u8, 0, 1, 1, 2]),
            sync: *g.rng.pick(&[0u8, 1, 1, 1, 2]),
            reps: cfg.reps,
            hseed: g.rng.next() % 1_000_000,
        });
    }
    (Case { decls, shape, runs }, profile, kind)
}

/// every shape of depth <= 2, fan-out <= 3 and at most 4 leaves, every assignment of
/// {nothing, read a, write a} to its leaves
fn small_scope(todo: &mut Vec<(String, Case)>) {
    fn shapes(depth: usize, max_leaves: usize) -> Vec<Shape> {
        // leaf tags are placeholders (renumbered afterwards)
        let mut out = vec![Shape::Leaf(0)];
        if depth == 0 {
            return out;
        }
        let sub = shapes(depth - 1, max_leaves);
        for n in 1..=3usize {
            let mut combos: Vec<Vec<Shape>> = vec![vec![]];
            for _ in 0..n {
                let mut next = vec![];
                for c in &combos {
                    let used: usize = c.iter().map(|s| s.leaves().len()).sum();
                    for s in &sub {
                        if used + s.leaves().len() <= max_leaves {
                            let mut v = c.clone();
                            v.push(s.clone());
                            next.push(v);
                        }
                    }
                }
                combos = next;
            }
            for c in combos {
                out.push(Shape::Par(c.clone()));
                out.push(Shape::Seq(c));
            }
        }
        out
    }
    fn renumber(s: &Shape, next: &mut usize) -> Shape {
        match s {
            Shape::Leaf(_) => {
                *next += 1;
                Shape::Leaf(*next - 1)
            }
            Shape::Par(cs) => Shape::Par(cs.iter().map(|c| renumber(c, next)).collect()),
            Shape::Seq(cs) => Shape::Seq(cs.iter().map(|c| renumber(c, next)).collect()),
        }
    }
    let mut n = 0u64;
    for s in shapes(2, 4) {
        let s = renumber(&s, &mut 0);
        let k = s.leaves().len();
        for code in 0..3usize.pow(k as u32) {
            let mut decls = BTreeMap::new();
            let mut c = code;
            for t in 0..k {
                let d = match c % 3 {
                    0 => (vec![], vec![]),
                    1 => (vec![(0u8, 0u64)], vec![]),
                    _ => (vec![], vec![(0, 0)]),
                };
                c /= 3;
                decls.insert(t, d);
            }
            n += 1;
            todo.push((format!("small:{}", n), Case { decls, shape: s.clone(), runs: vec![RunCfg { pool: 2, mode: (n % 3) as u8, sync: 0, reps: 1, hseed: n }] }));
        }
    }
}

// ---------------------------------------------------------------- shrinking

pub fn shrink(case: &Case, pred: &mut dyn FnMut(&Case) -> bool) -> Case {
    let mut cur = case.clone();
    let mut budget = 250i32;
    // one run configuration, one repetition, no holds if that is enough
    if cur.runs.len() > 1 {
        for r in case.runs.iter() {
            let mut c = cur.clone();
            c.runs = vec![r.clone()];
            budget -= 1;
            if pred(&c) {
                cur = c;
                break;
            }
        }
    }
    loop {
        let mut changed = false;
        for v in cur.shape.variants() {
            if budget <= 0 {
                break;
            }
            budget -= 1;
            let mut c = cur.clone();
            c.shape = v;
            if pred(&c) {
                cur = c;
                changed = true;
                break;
            }
        }
        if changed {
            continue;
        }
        'decl: for t in cur.shape.leaves() {
            let (r, w) = cur.decl(t);
            for side in 0..2 {
                let l = if side == 0 { r.len() } else { w.len() };
                for i in 0..l {
                    if budget <= 0 {
                        break 'decl;
                    }
                    budget -= 1;
                    let mut c = cur.clone();
                    let e = c.decls.entry(t).or_default();
                    if side == 0 {
                        e.0.remove(i);
                    } else {
                        e.1.remove(i);
                    }
                    if pred(&c) {
                        cur = c;
                        changed = true;
                        break 'decl;
                    }
                }
            }
        }
        if !changed || budget <= 0 {
            break;
        }
    }
    for simpler in [(1u32, 0u8), (1, 1)] {
        if let Some(r) = cur.runs.first().cloned() {
            let mut c = cur.clone();
            c.runs = vec![RunCfg { reps: simpler.0, sync: simpler.1.min(r.sync), ..r }];
            if c != cur && pred(&c) {
                cur = c;
                break;
            }
        }
    }
    cur.decls.retain(|t, _| cur.shape.leaves().contains(t));
    cur
}

// ---------------------------------------------------------------- driver of the engine

pub fn run(args: &Args, rep: &mut Report) {
    let seed = args.num("seed", 1);
    let cases = args.num("cases", 300);
    let cfg = GenCfg { max_leaves: args.num("max-leaves", 20) as usize, reps: args.num("reps", 2) as u32, runs: args.num("runs", 2) as usize };
    let tune = Tuning { hold_us: args.num("hold-us", 150), rdv_timeout_us: args.num("rdv-us", 300) };
    let mut drv = Drv::spawn(&args.str("driver", "/verif/lean/.lake/build/bin/driver"));
    let pools = Pools::new();
    rep.rule = "Par/Seq trees (depth <= 5, fan-out <= 6) assembled at run time from the real Par/Seq nodes; leaf access sets conflict-free across par children (60%), the same plus one injected W/W, W/R or R/W conflict (25%), or independent random (15%); built trees are dispatched on pools of 1/2/4/8 threads from outside / inside the pool / a worker of another pool with holds inside run; distinct = distinct (tree, declarations); non-trivial = a par and a seq node with >= 2 children each, or a tree whose construction must panic".into();
    let mut todo: Vec<(String, Case)> = vec![];
    let read_case = |f: &std::path::Path| -> Option<Case> {
        let text = std::fs::read_to_string(f).ok()?;
        let lines: Vec<String> = text.lines().filter(|l| !l.starts_with('#')).map(|s| s.to_string()).collect();
        Case::parse(&lines)
    };
    if let Some(f) = args.get("replay") {
        match read_case(std::path::Path::new(&f)) {
            Some(c) => todo.push((format!("replay:{}", f), c)),
            None => {
                eprintln!("cannot parse replay file {}", f);
                std::process::exit(2);
            }
        }
    }
    if let Some(dir) = args.get("corpus") {
        if let Ok(rd) = std::fs::read_dir(&dir) {
            let mut files: Vec<_> = rd.filter_map(|e| e.ok()).map(|e| e.path()).filter(|p| p.extension().map(|x| x == "case").unwrap_or(false)).collect();
            files.sort();
            for f in files {
                match read_case(&f) {
                    Some(c) => {
                        todo.push((format!("corpus:{}", f.display()), c));
                        rep.count("corpus_cases");
                    }
                    None => rep.count("corpus_unparsable"),
                }
            }
        }
    }
    if args.get("replay").is_none() {
        if args.flag("small-scope") {
            small_scope(&mut todo);
            rep.count("small_scope_enumerated");
        }
        for c in 0..cases {
            let (case, profile, kind) = gen_case(seed, c, &cfg);
            rep.count(&format!("profile_{}", ["conflict_free", "one_injected_conflict", "random_access"][profile as usize]));
            if let Some(k) = kind {
                rep.count(&format!("injected_{}", ["WW", "WR", "RW"][k as usize]));
            }
            todo.push((format!("gen:{}:{}", seed, c), case));
        }
    }
    let mut reported: BTreeSet<String> = Default::default();
    let mut par_obs = (0u64, 0u64);
    for (label, case) in todo {
        drv.begin_case();
        let res = eval_case(&case, Some(&mut drv), &pools, &tune);
        let nodes = case.shape.nodes();
        let nontrivial = (nodes.2 >= 1 && nodes.3 >= 1) || res.panic_at.is_some();
        rep.case(&case.key(), nontrivial);
        if !label.starts_with("small:") {
            rep.count(&format!("depth_{}", case.shape.depth()));
            rep.count(&format!("max_fanout_{}", case.shape.max_fanout()));
            rep.add("leaves", case.shape.leaves().len() as u64);
            rep.maxi("max_leaves", case.shape.leaves().len() as u64);
            rep.add("par_nodes", nodes.0 as u64);
            rep.add("seq_nodes", nodes.1 as u64);
        }
        if res.built {
            rep.count("trees_built");
        }
        if let Some((_, k)) = res.panic_at {
            rep.count("trees_rejected_by_Par_with");
            rep.count(&format!("with_panicked_at_child_{}", k));
        }
        rep.add("dispatches", res.dispatches);
        par_obs = (par_obs.0 + res.par_obs.0, par_obs.1 + res.par_obs.1);
        rep.add("pair_checks_Par_new_a_with_b", res.pair_checks);
        rep.add("pair_checks_that_panicked", res.pair_panics);
        rep.traces_validated += res.accepted;
        for (p, o) in &res.overlap {
            rep.add(&format!("pool{}_dispatches", p), o.0);
            rep.add(&format!("pool{}_par_nodes_2plus_children", p), o.1);
            rep.add(&format!("pool{}_par_nodes_with_children_overlapping", p), o.2);
            rep.maxi(&format!("pool{}_max_systems_inside_at_once", p), o.3);
        }
        for r in &case.runs {
            if res.dispatches > 0 {
                rep.count(&format!("called_{}", ["from_outside", "from_pool_worker", "from_other_pool_worker"][r.mode as usize]));
            }
        }
        if nontrivial && res.built && res.overlap.values().any(|o| o.2 > 0) {
            rep.sample(Json::obj(vec![
                ("case", Json::Arr(case.lines().into_iter().map(Json::s).collect())),
                ("a_real_trace_with_overlapping_par_children", Json::s(res.sample_trace.clone().unwrap_or_default())),
            ]));
        }
        for (class, what) in &res.impl_v {
            if reported.insert(format!("impl:{}", class)) {
                let cl = class.clone();
                let small = shrink(&case, &mut |c: &Case| {
                    // scheduling-dependent failures get three attempts
                    (0..3).any(|_| eval_case(c, None, &pools, &tune).impl_v.iter().any(|(q, _)| *q == cl))
                });
                let what2 = (0..3).find_map(|_| eval_case(&small, None, &pools, &tune).impl_v.into_iter().find(|(q, _)| q == class).map(|x| x.1)).unwrap_or_else(|| what.clone());
                rep.violate(PROP, "impl", class, format!("{} [{}]", what2, label), small.lines());
            }
        }
        for (aspect, what) in &res.model_v {
            if reported.insert(format!("model:{}", aspect)) {
                let asp = aspect.clone();
                let small = shrink(&case, &mut |c: &Case| {
                    drv.begin_case();
                    eval_case(c, Some(&mut drv), &pools, &tune).model_v.iter().any(|(a, _)| *a == asp)
                });
                drv.begin_case();
                let what2 = eval_case(&small, Some(&mut drv), &pools, &tune).model_v.into_iter().find(|(a, _)| a == aspect).map(|x| x.1).unwrap_or_else(|| what.clone());
                rep.violate(&format!("MODEL:{}", aspect), "model", "", format!("{} [{}]", what2, label), small.lines());
            }
        }
    }
    // "children of a par node may overlap": with leaves held inside `run` on pools of >= 2 threads,
    // never seeing two children of any par node open together means the crate serialises them
    rep.add("par_nodes_observed_under_holds_pool2plus", par_obs.0);
    rep.add("par_nodes_observed_overlapping_under_holds_pool2plus", par_obs.1);
    if par_obs.0 >= 50 && par_obs.1 == 0 {
        let canned = Case {
            decls: BTreeMap::new(),
            shape: Shape::Par(vec![Shape::Leaf(0), Shape::Leaf(1)]),
            runs: vec![RunCfg { pool: 4, mode: 0, sync: 2, reps: 60, hseed: 1 }],
        };
        let r = eval_case(&canned, None, &pools, &tune);
        let lines = if r.par_obs.1 == 0 { canned.lines() } else { vec![] };
        rep.violate(
            PROP,
            "impl",
            "serialised",
            format!("children of par nodes never overlapped: {} par nodes with >= 2 children were dispatched on pools of >= 2 threads with their leaves held inside run, and no two children were ever open at the same time (the canned case par![0, 1] on a pool of 4, rendezvous inside run, 60 dispatches: {} overlaps)", par_obs.0, r.par_obs.1),
            lines,
        );
    }
    rep.add("driver_requests", drv.requests);
}
