//! Par/Seq engine (C16): trees assembled at run time from the real `Par` / `Seq` nodes through
//! a boxing adapter, with harness leaves that really borrow what they declare.
//!
//! Leaves come in every accessor flavour the crate allows (`parseq/leaves.rs`): `n` dynamic
//! system data whose accessor type has no default (`try_new() -> None`), `d` dynamic system
//! data whose accessor type has a default (`try_new() -> Some(empty)`) with `System::accessor`
//! overridden, `s<k>` / `p<k>` static system data number `k` (`StaticAccessor`, real `Read` /
//! `Write` types; `s` overrides `System::setup` to count it, `p` overrides nothing).
//!
//! Per case: (1) the tree is built with the real `Par::new/with`, `Seq::new/with` in a build
//! with debug assertions — every `with` under `catch_unwind` — and the first panicking `with`
//! (node, child) is compared with the harness's own leaf-level conflict computation (impl
//! oracle) and with the model (`ps tree`); (2) `reads()` / `writes()` of EVERY node (each
//! subtree built on its own, down to the single leaves) against the concatenation over the
//! leaves' own accessors (impl) and the model (`ps reads` / `ps writes` / `ps rw`); (3) a
//! script of `setup` calls on one `ParSeq` — through `ParSeq::setup` and through
//! `RunNow::setup`, again on the same world, on a fresh `World::empty()`, after the resources
//! the leaves create were removed — and after EVERY call: each leaf's hook counters went up by
//! exactly one and the world holds exactly what it held before plus what the leaves create
//! (impl), hook order and created ids against the model (`ps setup`); (4) after every setup
//! call `ParSeq::dispatch` / `RunNow::run_now` on that world, on pools of 1/2/4/8 threads held
//! as `&ThreadPool` or `Arc<ThreadPool>`, called from outside the pool, from one of its workers
//! and from a worker of another pool, with holds / a rendezvous inside `run`: exactly-once and
//! seq-order oracles on the event log (impl), the log fed to the Lean acceptor of `toTask`
//! (model), and the observed overlap of par children recorded. Trees of phase (3)/(4) are
//! built with the `par!` / `seq!` macros when the run says so.
//!
//! Case lines (replay / corpus): `leaf <tag> <reads> <writes> [<flavour>]`, `tree <tokens>`,
//! `run <pool> <mode> <sync> <reps> <hseed> [<setup script> <options>]` — script: one letter per
//! setup call, `A` the first (full) world, `B` a fresh empty world, `R` the current world after
//! removing what the leaves create; upper case = `ParSeq::setup` + `dispatch`, lower case =
//! `RunNow::setup` + `run_now`; `-` = the single call older cases made. Options: `a` = the pool
//! is handed over as `Arc<ThreadPool>`, `m` = built with the macros, `-` = neither.
use crate::common::*;
use crate::gen::{parse_resl, resl, Res, NDY, NTY};
use crate::sys::*;
use shred::{Par, ParSeq, ResourceId, RunWithPool, Seq, World};
use std::borrow::Borrow;
use std::collections::{BTreeMap, BTreeSet};
use std::panic::{catch_unwind, AssertUnwindSafe};
use std::sync::atomic::Ordering::SeqCst;
use std::sync::Arc;

pub mod leaves;
use leaves::{dyn_creates, mk_static, PSys, NSTAT, STAT, STAT_NAME};

const PROP: &str = "C16";
const WITH_MSG: &str = "Tried to add system with conflicting reads / writes";
pub const MAX_FANOUT: usize = 6;
pub const MAX_DEPTH: usize = 5;

/// the boxing adapter: any tree (or leaf) behind one type, so shapes can be chosen at run time.
/// Coherent with the blanket `impl RunWithPool for T: System` because `Dyn` is a local type
/// that is not a `System`.
pub struct Dyn(Box<dyn for<'a> RunWithPool<'a> + Send>);
impl Dyn {
    pub fn new<T>(t: T) -> Dyn
    where
        T: for<'a> RunWithPool<'a> + Send + 'static,
    {
        Dyn(Box::new(t))
    }
}
impl<'a> RunWithPool<'a> for Dyn {
    fn setup(&mut self, world: &mut World) {
        self.0.setup(world)
    }
    fn run(&mut self, world: &'a World, pool: &rayon::ThreadPool) {
        self.0.run(world, pool)
    }
    fn reads(&self, reads: &mut Vec<ResourceId>) {
        self.0.reads(reads)
    }
    fn writes(&self, writes: &mut Vec<ResourceId>) {
        self.0.writes(writes)
    }
}

/// `Par::new(c0).with(c1)..` exactly as `par![c0, c1, ..]` nests it, every `with` caught:
/// `Err((k, message))` = the `with` adding child `k` panicked. (`Nil` is not exported, so the
/// intermediate types are left to inference; fan-out is bounded by `MAX_FANOUT`.)
fn mk_par(cs: Vec<Dyn>) -> Result<Dyn, (usize, String)> {
    let n = cs.len();
    assert!(n >= 1 && n <= MAX_FANOUT, "fan-out {} not supported", n);
    let mut it = cs.into_iter();
    macro_rules! step {
        ($p:ident, $k:expr) => {
            if n == $k {
                return Ok(Dyn::new($p));
            }
            let c = it.next().unwrap();
            let $p = match catch_unwind(AssertUnwindSafe(move || $p.with(c))) {
                Ok(q) => q,
                Err(e) => return Err(($k, panic_message(&e))),
            };
        };
    }
    let p = Par::new(it.next().unwrap());
    step!(p, 1);
    step!(p, 2);
    step!(p, 3);
    step!(p, 4);
    step!(p, 5);
    Ok(Dyn::new(p))
}
fn mk_seq(cs: Vec<Dyn>) -> Result<Dyn, (usize, String)> {
    let n = cs.len();
    assert!(n >= 1 && n <= MAX_FANOUT, "fan-out {} not supported", n);
    let mut it = cs.into_iter();
    macro_rules! step {
        ($p:ident, $k:expr) => {
            if n == $k {
                return Ok(Dyn::new($p));
            }
            let c = it.next().unwrap();
            let $p = match catch_unwind(AssertUnwindSafe(move || $p.with(c))) {
                Ok(q) => q,
                Err(e) => return Err(($k, panic_message(&e))),
            };
        };
    }
    let p = Seq::new(it.next().unwrap());
    step!(p, 1);
    step!(p, 2);
    step!(p, 3);
    step!(p, 4);
    step!(p, 5);
    Ok(Dyn::new(p))
}

/// the same nodes written with the crate's macros (`par![c0, c1, ..,]`, `seq![..]`, one child
/// included); a panic of a `with` inside is not attributed to a child here — this is used for
/// trees that the explicit construction has already accepted
fn mk_macro(par: bool, cs: Vec<Dyn>) -> Dyn {
    let n = cs.len();
    assert!(n >= 1 && n <= MAX_FANOUT, "fan-out {} not supported", n);
    let mut it = cs.into_iter();
    let mut c = move || it.next().unwrap();
    if par {
        match n {
            1 => Dyn::new(shred::par![c(),]),
            2 => Dyn::new(shred::par![c(), c(),]),
            3 => Dyn::new(shred::par![c(), c(), c(),]),
            4 => Dyn::new(shred::par![c(), c(), c(), c(),]),
            5 => Dyn::new(shred::par![c(), c(), c(), c(), c(),]),
            _ => Dyn::new(shred::par![c(), c(), c(), c(), c(), c(),]),
        }
    } else {
        match n {
            1 => Dyn::new(shred::seq![c(),]),
            2 => Dyn::new(shred::seq![c(), c(),]),
            3 => Dyn::new(shred::seq![c(), c(), c(),]),
            4 => Dyn::new(shred::seq![c(), c(), c(), c(),]),
            5 => Dyn::new(shred::seq![c(), c(), c(), c(), c(),]),
            _ => Dyn::new(shred::seq![c(), c(), c(), c(), c(), c(),]),
        }
    }
}

/// accessor flavour of a leaf (see `leaves.rs`)
#[derive(Clone, Copy, Debug, PartialEq, Eq, PartialOrd, Ord)]
pub enum Flav {
    /// dynamic data, accessor type without default, `System::accessor` overridden
    N,
    /// dynamic data, accessor type with an (empty) default, `System::accessor` overridden
    D,
    /// static data number k, `System::setup` overridden (counted)
    S(usize),
    /// static data number k, nothing overridden
    P(usize),
}
impl Flav {
    pub fn text(&self) -> String {
        match self {
            Flav::N => "n".into(),
            Flav::D => "d".into(),
            Flav::S(k) => format!("s{}", k),
            Flav::P(k) => format!("p{}", k),
        }
    }
    pub fn parse(s: &str) -> Option<Flav> {
        match s {
            "n" => Some(Flav::N),
            "d" => Some(Flav::D),
            _ => {
                let k: usize = s.get(1..)?.parse().ok()?;
                if k >= NSTAT {
                    return None;
                }
                match &s[..1] {
                    "s" => Some(Flav::S(k)),
                    "p" => Some(Flav::P(k)),
                    _ => None,
                }
            }
        }
    }
    pub fn describe(&self) -> String {
        match self {
            Flav::N => "dynamic data, accessor type without default, System::accessor overridden".into(),
            Flav::D => "dynamic data, accessor type with try_new() = Some(empty), System::accessor overridden".into(),
            Flav::S(k) => format!("static data {}, System::setup overridden", STAT_NAME[*k]),
            Flav::P(k) => format!("static data {}, nothing overridden", STAT_NAME[*k]),
        }
    }
    /// the letter the Lean driver is told: which accessor exists
    pub fn model_letter(&self) -> &'static str {
        match self {
            Flav::N => "n",
            Flav::D => "d",
            Flav::S(_) | Flav::P(_) => "s",
        }
    }
    pub fn stat(&self) -> Option<usize> {
        match self {
            Flav::S(k) | Flav::P(k) => Some(*k),
            _ => None,
        }
    }
}

#[derive(Clone, Debug, PartialEq)]
pub enum Shape {
    Leaf(usize),
    Par(Vec<Shape>),
    Seq(Vec<Shape>),
}
impl Shape {
    /// the leaf a (sub)tree begins with
    pub fn first_leaf(&self) -> Option<usize> {
        match self {
            Shape::Leaf(t) => Some(*t),
            Shape::Par(cs) | Shape::Seq(cs) => cs.iter().find_map(|c| c.first_leaf()),
        }
    }
    /// the leaves that open the first two (non-empty) children of the first par node that has two:
    /// both can begin the moment that node is reached
    pub fn par_pair(&self) -> Option<(usize, usize)> {
        match self {
            Shape::Leaf(_) => None,
            Shape::Par(cs) => {
                let firsts: Vec<usize> = cs.iter().filter_map(|c| c.first_leaf()).collect();
                if firsts.len() >= 2 {
                    Some((firsts[0], firsts[firsts.len() - 1]))
                } else {
                    cs.iter().find_map(|c| c.par_pair())
                }
            }
            Shape::Seq(cs) => cs.iter().find_map(|c| c.par_pair()),
        }
    }
    pub fn tokens(&self, out: &mut Vec<String>) {
        match self {
            Shape::Leaf(t) => out.push(t.to_string()),
            Shape::Par(cs) | Shape::Seq(cs) => {
                out.push(if matches!(self, Shape::Par(_)) { "P[" } else { "S[" }.to_string());
                for c in cs {
                    c.tokens(out);
                }
                out.push("]".into());
            }
        }
    }
    pub fn text(&self) -> String {
        let mut v = vec![];
        self.tokens(&mut v);
        v.join(" ")
    }
    pub fn parse(toks: &[&str]) -> Option<Shape> {
        fn go(toks: &[&str], i: &mut usize) -> Option<Shape> {
            let t = *toks.get(*i)?;
            *i += 1;
            if t == "P[" || t == "S[" {
                let mut cs = vec![];
                while *toks.get(*i)? != "]" {
                    cs.push(go(toks, i)?);
                }
                *i += 1;
                if cs.is_empty() || cs.len() > MAX_FANOUT {
                    return None;
                }
                Some(if t == "P[" { Shape::Par(cs) } else { Shape::Seq(cs) })
            } else {
                t.parse().ok().map(Shape::Leaf)
            }
        }
        let mut i = 0;
        let s = go(toks, &mut i)?;
        if i == toks.len() {
            Some(s)
        } else {
            None
        }
    }
    pub fn leaves(&self) -> Vec<usize> {
        match self {
            Shape::Leaf(t) => vec![*t],
            Shape::Par(cs) | Shape::Seq(cs) => cs.iter().flat_map(|c| c.leaves()).collect(),
        }
    }
    pub fn depth(&self) -> usize {
        match self {
            Shape::Leaf(_) => 0,
            Shape::Par(cs) | Shape::Seq(cs) => 1 + cs.iter().map(|c| c.depth()).max().unwrap_or(0),
        }
    }
    pub fn max_fanout(&self) -> usize {
        match self {
            Shape::Leaf(_) => 0,
            Shape::Par(cs) | Shape::Seq(cs) => cs.len().max(cs.iter().map(|c| c.max_fanout()).max().unwrap_or(0)),
        }
    }
    /// (par nodes, seq nodes, par nodes with >= 2 children, seq nodes with >= 2 children)
    pub fn nodes(&self) -> (usize, usize, usize, usize) {
        match self {
            Shape::Leaf(_) => (0, 0, 0, 0),
            Shape::Par(cs) | Shape::Seq(cs) => {
                let mut r = if matches!(self, Shape::Par(_)) { (1, 0, (cs.len() > 1) as usize, 0) } else { (0, 1, 0, (cs.len() > 1) as usize) };
                for c in cs {
                    let x = c.nodes();
                    r = (r.0 + x.0, r.1 + x.1, r.2 + x.2, r.3 + x.3);
                }
                r
            }
        }
    }
    /// every node of the tree as a tree of its own, the root first
    pub fn subtrees(&self, out: &mut Vec<Shape>) {
        out.push(self.clone());
        if let Shape::Par(cs) | Shape::Seq(cs) = self {
            for c in cs {
                c.subtrees(out);
            }
        }
    }
    /// simpler shapes for shrinking: a child in place of its parent, a child dropped, recursively
    pub fn variants(&self) -> Vec<Shape> {
        match self {
            Shape::Leaf(_) => vec![],
            Shape::Par(cs) | Shape::Seq(cs) => {
                let mk = |v: Vec<Shape>| if matches!(self, Shape::Par(_)) { Shape::Par(v) } else { Shape::Seq(v) };
                let mut out: Vec<Shape> = cs.to_vec();
                if cs.len() > 1 {
                    for i in 0..cs.len() {
                        let mut v = cs.clone();
                        v.remove(i);
                        out.push(mk(v));
                    }
                }
                for i in 0..cs.len() {
                    for x in cs[i].variants() {
                        let mut v = cs.clone();
                        v[i] = x;
                        out.push(mk(v));
                    }
                }
                out
            }
        }
    }
}

/// how one dispatch series is run
#[derive(Clone, Debug, PartialEq)]
pub struct RunCfg {
    pub pool: usize,
    /// 0 = dispatch called from outside the pool, 1 = from one of its workers (`pool.install`),
    /// 2 = from a worker of a different pool
    pub mode: u8,
    /// 0 = no holds, 1 = random holds inside `run`, 2 = rendezvous of two systems (bounded wait),
    /// 3 = the leaves that open two children of a par node wait for each other (long bound): on a pool of
    /// two or more threads they must be inside `run` together in at least one dispatch of the series
    pub sync: u8,
    /// dispatches after every setup call
    pub reps: u32,
    pub hseed: u64,
    /// one letter per `setup` call on the one `ParSeq` of this run: `A` the first world (every
    /// harness resource present), `B` a fresh `World::empty()`, `R` the current world after the
    /// resources the leaves create were removed; upper case = `ParSeq::setup` and `dispatch`,
    /// lower case = `RunNow::setup` and `run_now`. Empty = what cases written before the script
    /// existed did: one call on the first world (through the trait iff the leaf count is odd).
    pub script: String,
    /// hand the pool to `ParSeq::new` as `Arc<ThreadPool>` instead of `&ThreadPool`
    pub arc: bool,
    /// build the tree of this run with `par!` / `seq!`
    pub macros: bool,
}
impl RunCfg {
    pub fn plain(pool: usize, mode: u8, sync: u8, reps: u32, hseed: u64) -> RunCfg {
        RunCfg { pool, mode, sync, reps, hseed, script: String::new(), arc: false, macros: false }
    }
    pub fn opts(&self) -> String {
        let mut o = String::new();
        if self.arc {
            o.push('a');
        }
        if self.macros {
            o.push('m');
        }
        if o.is_empty() {
            o.push('-');
        }
        o
    }
    pub fn line(&self) -> String {
        let mut l = format!("run {} {} {} {} {}", self.pool, self.mode, self.sync, self.reps, self.hseed);
        if !self.script.is_empty() || self.arc || self.macros {
            l.push_str(&format!(" {} {}", if self.script.is_empty() { "-" } else { &self.script }, self.opts()));
        }
        l
    }
}

#[derive(Clone, Debug, PartialEq)]
pub struct Case {
    pub decls: BTreeMap<usize, (Vec<Res>, Vec<Res>)>,
    /// accessor flavour of the leaves (absent = `Flav::N`)
    pub flavs: BTreeMap<usize, Flav>,
    pub shape: Shape,
    pub runs: Vec<RunCfg>,
}
impl Case {
    pub fn lines(&self) -> Vec<String> {
        let mut v = vec![];
        for t in self.shape.leaves() {
            let (r, w) = self.decl(t);
            let f = self.flav(t);
            v.push(format!("leaf {} {} {}{}", t, resl(&r), resl(&w), if f == Flav::N { String::new() } else { format!(" {}", f.text()) }));
        }
        v.push(format!("tree {}", self.shape.text()));
        for r in &self.runs {
            v.push(r.line());
        }
        v
    }
    pub fn parse(lines: &[String]) -> Option<Case> {
        let mut decls = BTreeMap::new();
        let mut flavs = BTreeMap::new();
        let mut shape = None;
        let mut runs = vec![];
        for l in lines {
            let p: Vec<&str> = l.split_whitespace().collect();
            match p.as_slice() {
                ["leaf", t, r, w] => {
                    decls.insert(t.parse().ok()?, (parse_resl(r), parse_resl(w)));
                }
                ["leaf", t, r, w, f] => {
                    let t: usize = t.parse().ok()?;
                    let f = Flav::parse(f)?;
                    let d = (parse_resl(r), parse_resl(w));
                    // static system data declares what its type says, nothing else
                    if let Some(k) = f.stat() {
                        if d.0 != STAT[k].0 || d.1 != STAT[k].1 {
                            return None;
                        }
                    }
                    decls.insert(t, d);
                    flavs.insert(t, f);
                }
                ["tree", rest @ ..] => shape = Some(Shape::parse(rest)?),
                ["run", pool, mode, sync, reps, hseed, rest @ ..] => {
                    let mut rc = RunCfg::plain(pool.parse().ok()?, mode.parse().ok()?, sync.parse().ok()?, reps.parse().ok()?, hseed.parse().ok()?);
                    match rest {
                        [] => {}
                        [script, opts] => {
                            if *script != "-" {
                                if script.is_empty() || script.len() > 12 || !script.chars().all(|c| "AaBbRrNn".contains(c)) {
                                    return None;
                                }
                                rc.script = script.to_string();
                            }
                            if *opts != "-" {
                                if !opts.chars().all(|c| "am".contains(c)) {
                                    return None;
                                }
                                rc.arc = opts.contains('a');
                                rc.macros = opts.contains('m');
                            }
                        }
                        _ => return None,
                    }
                    runs.push(rc);
                }
                [] => {}
                _ => return None,
            }
        }
        let shape = shape?;
        let lv = shape.leaves();
        let set: BTreeSet<usize> = lv.iter().cloned().collect();
        // leaf tags identify the systems in the log: they must be pairwise distinct
        if set.len() != lv.len() || lv.iter().any(|t| *t > 100_000) {
            return None;
        }
        for r in &runs {
            if ![1, 2, 4, 8].contains(&r.pool) || r.mode > 2 || r.sync > 3 {
                return None;
            }
        }
        // a static leaf without a `leaf` line would declare nothing: only `s0` / `p0` may
        for (t, f) in &flavs {
            if !decls.contains_key(t) && f.stat().map(|k| k != 0).unwrap_or(false) {
                return None;
            }
        }
        Some(Case { decls, flavs, shape, runs })
    }
    pub fn decl(&self, t: usize) -> (Vec<Res>, Vec<Res>) {
        self.decls.get(&t).cloned().unwrap_or_default()
    }
    pub fn flav(&self, t: usize) -> Flav {
        self.flavs.get(&t).cloned().unwrap_or(Flav::N)
    }
    /// what the leaf's setup creates when absent, in creation order
    pub fn creates(&self, t: usize) -> Vec<Res> {
        match self.flav(t).stat() {
            Some(k) => STAT[k].2.to_vec(),
            None => {
                let (r, w) = self.decl(t);
                dyn_creates(&r, &w)
            }
        }
    }
    pub fn key(&self) -> String {
        let mut s = self.shape.text();
        for t in self.shape.leaves() {
            let (r, w) = self.decl(t);
            s.push_str(&format!("|{}:{}:{}:{}", t, resl(&r), resl(&w), self.flav(t).text()));
        }
        s
    }
    /// the request that tells the Lean driver about leaf `t`
    pub fn driver_leaf(&self, t: usize) -> String {
        let (r, w) = self.decl(t);
        format!("ps leaf {} {} {} {} {}", t, resl(&r), resl(&w), self.flav(t).model_letter(), resl(&self.creates(t)))
    }
}

/// W/R, W/W or R/W between two leaves
fn leaf_conflict(a: &(Vec<Res>, Vec<Res>), b: &(Vec<Res>, Vec<Res>)) -> bool {
    a.1.iter().any(|x| b.0.contains(x) || b.1.contains(x)) || a.0.iter().any(|x| b.1.contains(x))
}

/// Implementation-side expectation, computed from the leaves alone: the first `with` (in the
/// order the constructors are called: children left to right, depth first, then the node's own
/// fold) whose new child conflicts with a leaf of a child already in that node.
pub fn expected_panic(case: &Case) -> Option<(usize, usize)> {
    fn go(case: &Case, s: &Shape, pos: &mut usize) -> Option<(usize, usize)> {
        match s {
            Shape::Leaf(_) => {
                *pos += 1;
                None
            }
            Shape::Par(cs) | Shape::Seq(cs) => {
                let id = *pos;
                *pos += 1;
                for c in cs {
                    if let Some(p) = go(case, c, pos) {
                        return Some(p);
                    }
                }
                *pos += 1;
                if matches!(s, Shape::Par(_)) {
                    let mut have: Vec<usize> = cs[0].leaves();
                    for k in 1..cs.len() {
                        let new = cs[k].leaves();
                        for x in &have {
                            for y in &new {
                                if leaf_conflict(&case.decl(*x), &case.decl(*y)) {
                                    return Some((id, k));
                                }
                            }
                        }
                        have.extend(new);
                    }
                }
                None
            }
        }
    }
    go(case, &case.shape, &mut 0)
}

#[derive(Debug)]
pub enum BuildErr {
    /// the `with` adding child `k` of the par node whose `P[` is token number `node` panicked
    With { node: usize, k: usize },
    Other(String),
}

/// the real constructors, in the order described at `expected_panic`
pub fn build_real(case: &Case, shared: &Arc<Shared>) -> Result<Dyn, BuildErr> {
    build_with(case, shared, false)
}
/// one leaf system of the flavour the case asks for
pub fn mk_leaf(case: &Case, t: usize, shared: &Arc<Shared>) -> Dyn {
    let (r, w) = case.decl(t);
    match case.flav(t) {
        Flav::N => Dyn::new(PSys::<false>::new(t, r, w, shared)),
        Flav::D => Dyn::new(PSys::<true>::new(t, r, w, shared)),
        Flav::S(k) => mk_static(k, false, t, shared),
        Flav::P(k) => mk_static(k, true, t, shared),
    }
}
/// `macros`: the nodes are written with `par!` / `seq!` (no attribution of a panicking `with`)
pub fn build_with(case: &Case, shared: &Arc<Shared>, macros: bool) -> Result<Dyn, BuildErr> {
    fn go(case: &Case, shared: &Arc<Shared>, s: &Shape, pos: &mut usize, macros: bool) -> Result<Dyn, BuildErr> {
        match s {
            Shape::Leaf(t) => {
                *pos += 1;
                Ok(mk_leaf(case, *t, shared))
            }
            Shape::Par(cs) | Shape::Seq(cs) => {
                let id = *pos;
                *pos += 1;
                let mut v = vec![];
                for c in cs {
                    v.push(go(case, shared, c, pos, macros)?);
                }
                *pos += 1;
                if macros {
                    Ok(mk_macro(matches!(s, Shape::Par(_)), v))
                } else if matches!(s, Shape::Par(_)) {
                    mk_par(v).map_err(|(k, m)| if m == WITH_MSG { BuildErr::With { node: id, k } } else { BuildErr::Other(format!("Par::with (node {}, child {}) panicked with {:?}", id, k, m)) })
                } else {
                    mk_seq(v).map_err(|(k, m)| BuildErr::Other(format!("Seq::with (node {}, child {}) panicked with {:?}", id, k, m)))
                }
            }
        }
    }
    match catch_unwind(AssertUnwindSafe(|| go(case, shared, &case.shape, &mut 0, macros))) {
        Ok(r) => r,
        Err(e) => Err(BuildErr::Other(format!("construction panicked outside `with`: {}", panic_message(&e)))),
    }
}

pub struct Pools {
    pools: BTreeMap<usize, Arc<rayon::ThreadPool>>,
    other: rayon::ThreadPool,
}
impl Pools {
    pub fn new() -> Pools {
        let mk = |n: usize| rayon::ThreadPoolBuilder::new().num_threads(n).build().unwrap();
        Pools { pools: [1usize, 2, 4, 8].iter().map(|&n| (n, Arc::new(mk(n)))).collect(), other: mk(1) }
    }
}

/// which harness resources are present in a world
fn present(w: &World, tab: &[(ResourceId, Res)]) -> Vec<Res> {
    tab.iter().filter(|(id, _)| w.has_value_raw(id.clone())).map(|x| x.1).collect()
}
fn remove_res(w: &mut World, r: Res) {
    by_ty!(r.0, K => { w.remove_by_id::<R<K>>(rid(r)); })
}

fn res_table() -> Vec<(ResourceId, Res)> {
    let mut v = vec![];
    for ty in 0..NTY {
        for dy in 0..NDY {
            v.push((rid((ty, dy)), (ty, dy)));
        }
    }
    v
}
fn back(ids: &[ResourceId], tab: &[(ResourceId, Res)]) -> Vec<Res> {
    ids.iter().map(|i| tab.iter().find(|(r, _)| r == i).map(|x| x.1).unwrap_or((255, 0))).collect()
}

/// positions of the F and D of every leaf in a log, plus everything wrong with the log as a
/// record of "every leaf ran exactly once"
fn once_oracle(leaves: &[usize], log: &[(char, usize)], runs: &BTreeMap<usize, u64>) -> (BTreeMap<usize, (usize, usize)>, Vec<String>) {
    let mut bad = vec![];
    let mut win = BTreeMap::new();
    for &t in leaves {
        let f: Vec<usize> = log.iter().enumerate().filter(|(_, e)| **e == ('F', t)).map(|x| x.0).collect();
        let d: Vec<usize> = log.iter().enumerate().filter(|(_, e)| **e == ('D', t)).map(|x| x.0).collect();
        if f.len() != 1 || d.len() != 1 {
            bad.push(format!("leaf {} fetched {} times and dropped {} times in one dispatch", t, f.len(), d.len()));
        } else if f[0] > d[0] {
            bad.push(format!("leaf {} dropped before it fetched", t));
        } else {
            win.insert(t, (f[0], d[0]));
        }
        let r = runs.get(&t).cloned().unwrap_or(0);
        if r != 1 {
            bad.push(format!("leaf {} ran {} times in one dispatch", t, r));
        }
    }
    for e in log {
        if (e.0 != 'F' && e.0 != 'D') || !leaves.contains(&e.1) {
            bad.push(format!("unexpected event {}{} in the log", e.0, e.1));
        }
    }
    (win, bad)
}

/// for every seq node: every leaf of an earlier child dropped before any leaf of a later child fetched
fn seq_oracle(s: &Shape, win: &BTreeMap<usize, (usize, usize)>, bad: &mut Vec<String>) {
    if let Shape::Par(cs) | Shape::Seq(cs) = s {
        if matches!(s, Shape::Seq(_)) {
            for i in 0..cs.len() {
                for j in i + 1..cs.len() {
                    for x in cs[i].leaves() {
                        for y in cs[j].leaves() {
                            if let (Some(wx), Some(wy)) = (win.get(&x), win.get(&y)) {
                                if wx.1 > wy.0 && bad.len() < 4 {
                                    bad.push(format!("seq node {}: leaf {} of child {} fetched before leaf {} of child {} had dropped", s.text(), y, j, x, i));
                                }
                            }
                        }
                    }
                }
            }
        }
        for c in cs {
            seq_oracle(c, win, bad);
        }
    }
}

/// (par nodes with >= 2 children, how many of them had leaves of two different children open at once)
fn overlap_stats(s: &Shape, win: &BTreeMap<usize, (usize, usize)>) -> (u64, u64) {
    let mut r = (0, 0);
    if let Shape::Par(cs) | Shape::Seq(cs) = s {
        if matches!(s, Shape::Par(_)) && cs.len() > 1 {
            r.0 += 1;
            let mut ov = false;
            for i in 0..cs.len() {
                for j in i + 1..cs.len() {
                    for x in cs[i].leaves() {
                        for y in cs[j].leaves() {
                            if let (Some(a), Some(b)) = (win.get(&x), win.get(&y)) {
                                if a.0 < b.1 && b.0 < a.1 {
                                    ov = true;
                                }
                            }
                        }
                    }
                }
            }
            if ov {
                r.1 += 1;
            }
        }
        for c in cs {
            let x = overlap_stats(c, win);
            r.0 += x.0;
            r.1 += x.1;
        }
    }
    r
}

/// for messages about small trees: the flavours of the leaves
fn flav_note(case: &Case) -> String {
    let lv = case.shape.leaves();
    if lv.len() > 3 {
        return String::new();
    }
    format!("; {}", lv.iter().map(|t| format!("leaf {}: {}", t, case.flav(*t).describe())).collect::<Vec<_>>().join("; "))
}

#[derive(Default)]
pub struct CaseResult {
    /// (class, what) — the real crate breaks C16
    pub impl_v: Vec<(String, String)>,
    /// (aspect, what) — model and crate disagree
    pub model_v: Vec<(String, String)>,
    pub built: bool,
    pub panic_at: Option<(usize, usize)>,
    pub dispatches: u64,
    pub accepted: u64,
    /// per pool size: (dispatches, par nodes seen, par nodes overlapped, max systems inside at once)
    pub overlap: BTreeMap<usize, (u64, u64, u64, u64)>,
    pub sample_trace: Option<String>,
    pub pair_checks: u64,
    pub pair_panics: u64,
    /// on pools of >= 2 threads with holds / rendezvous: (par nodes with >= 2 children seen, overlapped)
    pub par_obs: (u64, u64),
    /// nodes other than the root whose reads() / writes() were checked
    pub node_checks: u64,
    pub setup_calls: u64,
    /// per script letter
    pub setup_kinds: BTreeMap<char, u64>,
    /// resources that appeared in a world during a setup call
    pub created: u64,
    pub macro_trees: u64,
    pub arc_pools: u64,
    /// script steps that dispatch without a setup call
    pub dispatch_only_steps: u64,
}

pub struct Tuning {
    pub hold_us: u64,
    pub rdv_timeout_us: u64,
}

pub fn eval_case(case: &Case, mut drv: Option<&mut Drv>, pools: &Pools, tune: &Tuning) -> CaseResult {
    let mut res = CaseResult::default();
    let leaves = case.shape.leaves();
    let ntags = leaves.iter().max().map(|m| m + 1).unwrap_or(1);
    let tab = res_table();
    // ---- (1) construction ----
    let shared = Shared::new(ntags);
    let real = build_real(case, &shared);
    let exp = expected_panic(case);
    let real_panic = match &real {
        Ok(_) => None,
        Err(BuildErr::With { node, k }) => Some((*node, *k)),
        Err(BuildErr::Other(m)) => {
            res.impl_v.push(("unexpected-panic".into(), m.clone()));
            return res;
        }
    };
    res.panic_at = real_panic;
    res.built = real.is_ok();
    if real_panic != exp {
        let d = |p: Option<(usize, usize)>| match p {
            None => "no panic".to_string(),
            Some((n, k)) => format!("panic when adding child {} to the par node at token {}", k, n),
        };
        res.impl_v.push((
            "with-check".into(),
            format!("Par::with (debug assertions on): {} but the leaves' declared accesses demand {} [tree {}]", d(real_panic), d(exp), case.shape.text()),
        ));
    }
    let mut model_built = false;
    if let Some(drv) = drv.as_deref_mut() {
        drv.ask("ps new");
        for &t in &leaves {
            let a = drv.ask(&case.driver_leaf(t));
            if a != "ok" {
                res.model_v.push(("leaf".into(), format!("the model answers `{}` to `{}`", a, case.driver_leaf(t))));
            }
        }
        let a = drv.ask(&format!("ps tree {}", case.shape.text()));
        let want = match real_panic {
            None => format!("built [{}]", leaves.iter().map(|t| t.to_string()).collect::<Vec<_>>().join(",")),
            Some((n, k)) => format!("panic {} {}", n, k),
        };
        model_built = a.starts_with("built");
        if a != want {
            res.model_v.push(("with-check".into(), format!("construction of {}: real crate `{}`, model `{}`", case.shape.text(), want, a)));
        }
    }
    let root = match real {
        Ok(r) => r,
        Err(_) => return res,
    };
    if !res.impl_v.is_empty() {
        return res;
    }
    // ---- (2) reads / writes of the root ----
    let (mut rr, mut ww) = (vec![], vec![]);
    root.reads(&mut rr);
    root.writes(&mut ww);
    let (rr, ww) = (back(&rr, &tab), back(&ww, &tab));
    let exp_r: Vec<Res> = leaves.iter().flat_map(|t| case.decl(*t).0).collect();
    let exp_w: Vec<Res> = leaves.iter().flat_map(|t| case.decl(*t).1).collect();
    if rr != exp_r {
        res.impl_v.push(("reads".into(), format!("root reads() = {} but the leaves' own accessors declare {} [tree {}{}]", resl(&rr), resl(&exp_r), case.shape.text(), flav_note(case))));
    }
    if ww != exp_w {
        res.impl_v.push(("writes".into(), format!("root writes() = {} but the leaves' own accessors declare {} [tree {}{}]", resl(&ww), resl(&exp_w), case.shape.text(), flav_note(case))));
    }
    if model_built {
        if let Some(drv) = drv.as_deref_mut() {
            let a = drv.ask("ps reads");
            if a != resl(&rr) {
                res.model_v.push(("reads".into(), format!("root reads() = {} but the model says {}", resl(&rr), a)));
            }
            let a = drv.ask("ps writes");
            if a != resl(&ww) {
                res.model_v.push(("writes".into(), format!("root writes() = {} but the model says {}", resl(&ww), a)));
            }
        }
    }
    drop(root);
    if !res.impl_v.is_empty() {
        return res;
    }
    // ---- (2a) the same for every other node, built as a tree of its own (down to single leaves)
    let mut subs = vec![];
    case.shape.subtrees(&mut subs);
    for sub in subs.iter().skip(1) {
        let sc = Case { decls: case.decls.clone(), flavs: case.flavs.clone(), shape: sub.clone(), runs: vec![] };
        let node = match build_real(&sc, &shared) {
            Ok(n) => n,
            Err(e) => {
                res.impl_v.push(("unexpected-panic".into(), format!("node {} of a tree that was built could not be built on its own: {:?}", sub.text(), e)));
                return res;
            }
        };
        let (mut rr, mut ww) = (vec![], vec![]);
        node.reads(&mut rr);
        node.writes(&mut ww);
        let (rr, ww) = (back(&rr, &tab), back(&ww, &tab));
        let sl = sub.leaves();
        let exp_r: Vec<Res> = sl.iter().flat_map(|t| case.decl(*t).0).collect();
        let exp_w: Vec<Res> = sl.iter().flat_map(|t| case.decl(*t).1).collect();
        let what = |t: &Shape| match t {
            Shape::Leaf(t) => format!("leaf {} ({})", t, case.flav(*t).describe()),
            _ => format!("node {}", t.text()),
        };
        res.node_checks += 1;
        if rr != exp_r {
            res.impl_v.push(("reads".into(), format!("{}: reads() = {} but {} {} [tree {}]", what(sub), resl(&rr), if sl.len() == 1 { "its own accessor declares" } else { "its leaves' own accessors declare" }, resl(&exp_r), case.shape.text())));
        }
        if ww != exp_w {
            res.impl_v.push(("writes".into(), format!("{}: writes() = {} but {} {} [tree {}]", what(sub), resl(&ww), if sl.len() == 1 { "its own accessor declares" } else { "its leaves' own accessors declare" }, resl(&exp_w), case.shape.text())));
        }
        if !res.impl_v.is_empty() {
            return res;
        }
        if model_built {
            if let Some(drv) = drv.as_deref_mut() {
                let a = drv.ask(&format!("ps rw {}", sub.text()));
                let mine = format!("{} {}", resl(&rr), resl(&ww));
                if a != mine {
                    res.model_v.push(("reads".into(), format!("{}: reads() writes() = {} but the model says {}", what(sub), mine, a)));
                }
            }
        }
    }
    // ---- (2b) `Par::new(a).with(b)` for adjacent children of the root, whatever the root is:
    // children of a seq node conflict freely, so both outcomes of the check occur on big subtrees
    if let Shape::Par(cs) | Shape::Seq(cs) = &case.shape {
        for i in 0..cs.len().saturating_sub(1) {
            let sub = |s: &Shape| Case { decls: case.decls.clone(), flavs: case.flavs.clone(), shape: s.clone(), runs: vec![] };
            let (ca, cb) = (sub(&cs[i]), sub(&cs[i + 1]));
            let (a, b) = match (build_real(&ca, &shared), build_real(&cb, &shared)) {
                (Ok(a), Ok(b)) => (a, b),
                _ => continue,
            };
            let real = match catch_unwind(AssertUnwindSafe(move || Par::new(a).with(b))) {
                Ok(_) => false,
                Err(e) if panic_message(&e) == WITH_MSG => true,
                Err(e) => {
                    res.impl_v.push(("unexpected-panic".into(), format!("Par::new(a).with(b) panicked with {:?}", panic_message(&e))));
                    return res;
                }
            };
            let want = cs[i].leaves().iter().any(|x| cs[i + 1].leaves().iter().any(|y| leaf_conflict(&case.decl(*x), &case.decl(*y))));
            res.pair_checks += 1;
            res.pair_panics += real as u64;
            if real != want {
                res.impl_v.push((
                    "with-check".into(),
                    format!("Par::new({}).with({}) {} but their leaves {} [children {} and {} of the root of {}]", cs[i].text(), cs[i + 1].text(), if real { "panicked" } else { "did not panic" }, if want { "conflict" } else { "do not conflict" }, i, i + 1, case.shape.text()),
                ));
                return res;
            }
            if let Some(drv) = drv.as_deref_mut() {
                let a = drv.ask(&format!("ps with-check {} | {}", cs[i].text(), cs[i + 1].text()));
                if a != if real { "fail" } else { "pass" } {
                    res.model_v.push(("with-check".into(), format!("Par::new({}).with({}) {} but the model's check answers `{}`", cs[i].text(), cs[i + 1].text(), if real { "panicked" } else { "did not panic" }, a)));
                }
            }
        }
    }
    // ---- (3) + (4): one fresh tree and one `ParSeq` per run configuration ----
    let runs: Vec<RunCfg> = if case.runs.is_empty() { vec![RunCfg::plain(2, 0, 0, 1, 0)] } else { case.runs.clone() };
    let exp_r: Vec<Res> = leaves.iter().flat_map(|t| case.decl(*t).0).collect();
    let exp_w: Vec<Res> = leaves.iter().flat_map(|t| case.decl(*t).1).collect();
    for (ri, rc) in runs.iter().enumerate() {
        let shared = Shared::new(ntags);
        shared.rendezvous_timeout_us.store(tune.rdv_timeout_us, SeqCst);
        let root = match build_with(case, &shared, rc.macros) {
            Ok(r) => r,
            Err(e) => {
                res.impl_v.push(("unexpected-panic".into(), format!("second construction of the same tree{} failed: {:?}", if rc.macros { " (with par! / seq!)" } else { "" }, e)));
                return res;
            }
        };
        if rc.macros {
            // the macros must give the tree the explicit calls gave
            let (mut rr, mut ww) = (vec![], vec![]);
            root.reads(&mut rr);
            root.writes(&mut ww);
            let (rr, ww) = (back(&rr, &tab), back(&ww, &tab));
            if rr != exp_r || ww != exp_w {
                res.impl_v.push(("macros".into(), format!("the tree written with par! / seq! reports reads {} writes {} but its leaves declare {} and {} [tree {}]", resl(&rr), resl(&ww), resl(&exp_r), resl(&exp_w), case.shape.text())));
                return res;
            }
            res.macro_trees += 1;
        }
        let cx = RunCtx { case, leaves: &leaves, shared: &shared, rc, ri, pools, tune, model_built, tab: &tab };
        let pool = &pools.pools[&rc.pool];
        let go_on = if rc.arc {
            res.arc_pools += 1;
            drive(ParSeq::new(root, pool.clone()), &cx, &mut res, drv.as_deref_mut())
        } else {
            drive(ParSeq::new(root, &**pool), &cx, &mut res, drv.as_deref_mut())
        };
        if !go_on {
            return res;
        }
    }
    res
}

struct RunCtx<'x> {
    case: &'x Case,
    leaves: &'x [usize],
    shared: &'x Arc<Shared>,
    rc: &'x RunCfg,
    ri: usize,
    pools: &'x Pools,
    tune: &'x Tuning,
    model_built: bool,
    tab: &'x [(ResourceId, Res)],
}

/// phases (3) and (4) on one `ParSeq<P, _>`: every setup call of the script, the checks after
/// it, then the dispatches on the world it was called with. `false` = stop evaluating the case.
fn drive<P: Borrow<rayon::ThreadPool> + Send>(mut ps: ParSeq<P, Dyn>, cx: &RunCtx, res: &mut CaseResult, mut drv: Option<&mut Drv>) -> bool {
    let (case, leaves, shared, rc) = (cx.case, cx.leaves, cx.shared, cx.rc);
    // cases written before the script existed: one call, through `impl RunNow for ParSeq`
    // (par_seq.rs l.238) for every other tree
    let script: String = if rc.script.is_empty() { if leaves.len() % 2 == 1 { "a".into() } else { "A".into() } } else { rc.script.clone() };
    let mut all_creates: Vec<Res> = vec![];
    for &t in leaves {
        for r in case.creates(t) {
            if !all_creates.contains(&r) {
                all_creates.push(r);
            }
        }
    }
    let mut worlds: Vec<World> = vec![full_world()];
    let mut cur = 0usize;
    let mut calls_made = 0u64;
    for (k, ch) in script.chars().enumerate() {
        let via_trait = ch.is_ascii_lowercase();
        if ch.to_ascii_uppercase() == 'N' {
            // no setup call at this step: the world at hand is complete (the first world, or
            // one a setup call has been made on), a `ParSeq` may be dispatched on it right away
            res.dispatch_only_steps += 1;
            let call = format!("step {} of `{}` (no setup call; {})", k + 1, script, if calls_made == 0 { "this ParSeq has never been set up" } else { "on the world of the previous step" });
            if !dispatches(&mut ps, cx, res, drv.as_deref_mut(), &worlds[cur], via_trait, k, &call) {
                return false;
            }
            continue;
        }
        let on = match ch.to_ascii_uppercase() {
            'A' => {
                cur = 0;
                if k == 0 { "on a world that holds every resource" } else { "on the first world again" }
            }
            'B' => {
                worlds.push(World::empty());
                cur = worlds.len() - 1;
                "on a fresh World::empty()"
            }
            _ => {
                for r in &all_creates {
                    remove_res(&mut worlds[cur], *r);
                }
                "on the current world after the resources the leaves create were removed"
            }
        };
        let call = format!("setup call {} of `{}` on this ParSeq ({}, {})", k + 1, script, if via_trait { "through RunNow::setup" } else { "through ParSeq::setup" }, on);
        res.setup_calls += 1;
        *res.setup_kinds.entry(ch).or_insert(0) += 1;
        let before = present(&worlds[cur], cx.tab);
        let lc0 = shared.lifecycle.lock().unwrap().len();
        {
            let world = &mut worlds[cur];
            if let Err(e) = catch_unwind(AssertUnwindSafe(|| if via_trait { shred::RunNow::setup(&mut ps, world) } else { ps.setup(world) })) {
                res.impl_v.push(("setup".into(), format!("{} panicked: {} [tree {}]", call, panic_message(&e), case.shape.text())));
                return false;
            }
        }
        let order: Vec<usize> = shared.lifecycle.lock().unwrap()[lc0..].iter().filter(|e| e.0 == 'U').map(|e| e.1).collect();
        calls_made += 1;
        let want_n = calls_made;
        for &t in leaves {
            let f = case.flav(t);
            if matches!(f, Flav::N | Flav::D) {
                let n = shared.behav[t].setups.load(SeqCst);
                if n != want_n {
                    res.impl_v.push(("setup".into(), format!("{}: the setup hook of the system data of leaf {} ({}) has now run {} times in {} calls [tree {}]", call, t, f.describe(), n, want_n, case.shape.text())));
                    break;
                }
            }
            if !matches!(f, Flav::P(_)) {
                let u = shared.behav[t].sys_setups.load(SeqCst);
                if u != want_n {
                    res.impl_v.push(("setup".into(), format!("{}: the leaf's own System::setup of leaf {} ({}) has now run {} times in {} calls [tree {}]", call, t, f.describe(), u, want_n, case.shape.text())));
                    break;
                }
            }
        }
        if !res.impl_v.is_empty() {
            return false;
        }
        // the world: what was there, plus what the leaves create — nothing missing, nothing else
        let after = present(&worlds[cur], cx.tab);
        let mut want_after: Vec<Res> = cx.tab.iter().map(|x| x.1).filter(|r| before.contains(r) || all_creates.contains(r)).collect();
        want_after.sort();
        let mut got_after = after.clone();
        got_after.sort();
        if got_after != want_after {
            let missing: Vec<Res> = want_after.iter().filter(|r| !got_after.contains(r)).cloned().collect();
            let extra: Vec<Res> = got_after.iter().filter(|r| !want_after.contains(r)).cloned().collect();
            let who = missing.first().and_then(|m| leaves.iter().find(|t| case.creates(**t).contains(m)).map(|t| format!(" ({} is created by the setup of leaf {}: {})", resl(&[*m]), t, case.flav(*t).describe()))).unwrap_or_default();
            res.impl_v.push(("setup".into(), format!("{}: afterwards the world lacks {}{} and holds unexpected {} [tree {}]", call, resl(&missing), who, resl(&extra), case.shape.text())));
            return false;
        }
        let mut created: Vec<Res> = after.iter().filter(|r| !before.contains(r)).cloned().collect();
        created.sort();
        res.created += created.len() as u64;
        if cx.ri == 0 && cx.model_built {
            if let Some(drv) = drv.as_deref_mut() {
                let a = drv.ask(&format!("ps setup {} {}", if via_trait { "t" } else { "i" }, resl(&before)));
                // the model lists every leaf; leaves that override nothing cannot be seen here
                let parts: Vec<&str> = a.split(' ').collect();
                let seen = |t: &usize| !matches!(case.flav(*t), Flav::P(_));
                let mine = format!("[{}]", order.iter().map(|t| t.to_string()).collect::<Vec<_>>().join(","));
                let all = format!("[{}]", leaves.iter().map(|t| t.to_string()).collect::<Vec<_>>().join(","));
                let theirs_visible = format!("[{}]", leaves.iter().filter(|t| seen(t)).map(|t| t.to_string()).collect::<Vec<_>>().join(","));
                let ok_order = parts.len() == 2 && parts[0] == all && mine == theirs_visible;
                let mut theirs_created = if parts.len() == 2 { parse_resl(parts[1]) } else { vec![] };
                theirs_created.sort();
                if !ok_order || theirs_created != created {
                    res.model_v.push(("setup".into(), format!("{}: System::setup ran for leaves {} and created {}, but the model says `{}` [tree {}]", call, mine, resl(&created), a, case.shape.text())));
                }
            }
        }
        // dispatches on the world just set up
        if !dispatches(&mut ps, cx, res, drv.as_deref_mut(), &worlds[cur], via_trait, k, &call) {
            return false;
        }
    }
    true
}

/// phase (4): `reps` dispatches on `world`, every one checked
fn dispatches<P: Borrow<rayon::ThreadPool> + Send>(ps: &mut ParSeq<P, Dyn>, cx: &RunCtx, res: &mut CaseResult, mut drv: Option<&mut Drv>, world: &World, via_trait: bool, k: usize, call: &str) -> bool {
    let (case, leaves, shared, rc, pools, tune) = (cx.case, cx.leaves, cx.shared, cx.rc, cx.pools, cx.tune);
    let pool: &rayon::ThreadPool = &pools.pools[&rc.pool];
    // "children of a par node may overlap", for this very tree, pool and caller
    let pair = if rc.sync == 3 && rc.pool >= 2 { case.shape.par_pair() } else { None };
    let mut met = 0u32;
    {
        for rep in 0..rc.reps {
            shared.reset_state();
            shared.reset_behaviour();
            shared.take_log();
            let mut hr = Rng::new(rc.hseed, rep as u64 + 1000 * k as u64);
            for &t in leaves {
                let b = &shared.behav[t];
                match rc.sync {
                    1 => b.hold_us.store(if hr.chance(35) { 0 } else { hr.below(tune.hold_us + 1) }, SeqCst),
                    2 => {
                        b.rendezvous.store(2, SeqCst);
                        b.hold_us.store(hr.below(tune.hold_us / 4 + 1), SeqCst);
                    }
                    3 => {
                        if let Some((x, y)) = pair {
                            if t == x || t == y {
                                b.rendezvous.store(2, SeqCst);
                                b.partner.store(1 + if t == x { y } else { x }, SeqCst);
                            }
                        }
                    }
                    _ => {}
                }
            }
            shared.rendezvous_timeout_us.store(if pair.is_some() { 2_500_000 } else { tune.rdv_timeout_us }, SeqCst);
            let w = world;
            let out = catch_unwind(AssertUnwindSafe(|| match rc.mode {
                0 if via_trait => shred::RunNow::run_now(ps, w),
                0 => ps.dispatch(w),
                1 if via_trait => pool.install(|| shred::RunNow::run_now(ps, w)),
                1 => pool.install(|| ps.dispatch(w)),
                _ => pools.other.install(|| ps.dispatch(w)),
            }));
            res.dispatches += 1;
            let log: Vec<(char, usize)> = shared.take_log().iter().map(|e| (e.kind, *e.inst.last().unwrap_or(&usize::MAX))).collect();
            let logtext = log.iter().map(|e| format!("{}{}", e.0, e.1)).collect::<Vec<_>>().join(" ");
            let ctx = format!("[tree {}; pool of {}{}, dispatch called {}, after {}; log {}]", case.shape.text(), rc.pool, if rc.arc { " held as Arc<ThreadPool>" } else { "" }, ["from outside the pool", "from a worker of the pool", "from a worker of another pool"][rc.mode as usize], call, logtext);
            if let Err(e) = out {
                res.impl_v.push(("dispatch-panic".into(), format!("dispatch of a tree that passed every debug check panicked: {} {}", panic_message(&e), ctx)));
                return false;
            }
            let runs_now: BTreeMap<usize, u64> = leaves.iter().map(|&t| (t, shared.behav[t].runs.load(SeqCst))).collect();
            let (win, mut bad) = once_oracle(leaves, &log, &runs_now);
            if let Some(b) = bad.first() {
                res.impl_v.push(("once".into(), format!("{} {}", b, ctx)));
                return false;
            }
            seq_oracle(&case.shape, &win, &mut bad);
            if let Some(b) = bad.first() {
                res.impl_v.push(("seq-order".into(), format!("{} {}", b, ctx)));
                return false;
            }
            if let Some((x, y)) = pair {
                if let (Some(&(fx, dx)), Some(&(fy, dy))) = (win.get(&x), win.get(&y)) {
                    if fx < dy && fy < dx {
                        met += 1;
                    }
                }
                if rep + 1 == rc.reps && met == 0 {
                    res.impl_v.push(("par-overlap".into(), format!("leaves {} and {} open two children of one par node and wait for each other (up to 2.5 s), yet in {} dispatches they were never inside run together: the children of this par node cannot overlap {}", x, y, rc.reps, ctx)));
                    return false;
                }
            }
            let ov = overlap_stats(&case.shape, &win);
            let e = res.overlap.entry(rc.pool).or_insert((0, 0, 0, 0));
            e.0 += 1;
            e.1 += ov.0;
            e.2 += ov.1;
            e.3 = e.3.max(shared.max_inside.load(SeqCst) as u64);
            if rc.pool >= 2 && rc.sync >= 1 {
                res.par_obs.0 += ov.0;
                res.par_obs.1 += ov.1;
            }
            if res.sample_trace.is_none() || ov.1 > 0 {
                res.sample_trace = Some(logtext.clone());
            }
            if cx.model_built {
                if let Some(drv) = drv.as_deref_mut() {
                    drv.ask("ps begin");
                    let mut verdict = String::new();
                    for ev in &log {
                        let a = drv.ask(&format!("ps ev {} {}", ev.0, ev.1));
                        if a != "ok" {
                            verdict = a;
                            break;
                        }
                    }
                    if verdict.is_empty() {
                        verdict = drv.ask("ps end");
                    }
                    if verdict == "accept" {
                        res.accepted += 1;
                    } else {
                        res.model_v.push(("trace".into(), format!("the model's acceptor answers `{}` to a real trace {}", verdict, ctx)));
                        return false;
                    }
                }
            }
        }
    }
    true
}

// ---------------------------------------------------------------- generator

pub struct GenCfg {
    pub max_leaves: usize,
    pub reps: u32,
    pub runs: usize,
    /// longest setup script
    pub max_setups: usize,
}

struct G {
    rng: Rng,
    next: usize,
    budget: usize,
    flavs: BTreeMap<usize, Flav>,
}
impl G {
    fn fanout(&mut self) -> usize {
        match self.rng.below(100) {
            0..=9 => 1,
            10..=44 => 2,
            45..=69 => 3,
            70..=81 => 4,
            82..=90 => 5,
            _ => 6,
        }
    }
    fn leaf(&mut self) -> Shape {
        let t = self.next;
        self.next += 1;
        self.budget = self.budget.saturating_sub(1);
        Shape::Leaf(t)
    }
    /// `spine`: keep one child going down to the full depth
    fn shape(&mut self, depth_left: usize, root: bool, spine: bool) -> Shape {
        if depth_left == 0 || (!spine && (self.budget <= 1 || (!root && self.rng.chance(30)))) {
            return self.leaf();
        }
        let n = if self.budget <= 2 { 1 + self.rng.below(2) as usize } else { self.fanout() };
        let par = self.rng.chance(50);
        let keep = self.rng.below(n as u64) as usize;
        let cs: Vec<Shape> = (0..n).map(|i| self.shape(depth_left - 1, false, spine && i == keep)).collect();
        if par {
            Shape::Par(cs)
        } else {
            Shape::Seq(cs)
        }
    }
    fn subset(&mut self, from: &[Res], pct: u64, cap: usize) -> Vec<Res> {
        let mut v = vec![];
        for r in from {
            if v.len() < cap && self.rng.chance(pct) {
                v.push(*r);
                if self.rng.chance(6) {
                    v.push(*r); // a duplicate in the declared list
                }
            }
        }
        v
    }
    /// access sets such that leaves whose lowest common ancestor is a par node never conflict
    /// (leaves separated by a seq node conflict freely)
    fn assign(&mut self, s: &Shape, ar: &[Res], aw: &[Res], decls: &mut BTreeMap<usize, (Vec<Res>, Vec<Res>)>) {
        match s {
            Shape::Leaf(t) => {
                // 30 %: static system data, one whose type-level access fits what this position
                // may touch (number 0, `()`, always does; it is taken less often)
                if self.rng.chance(30) {
                    let fit: Vec<usize> = (0..NSTAT).filter(|k| STAT[*k].0.iter().all(|x| ar.contains(x)) && STAT[*k].1.iter().all(|x| aw.contains(x))).collect();
                    let k = *self.rng.pick(&fit);
                    if k != 0 || self.rng.chance(40) {
                        decls.insert(*t, (STAT[k].0.to_vec(), STAT[k].1.to_vec()));
                        let f = if self.rng.chance(50) { Flav::S(k) } else { Flav::P(k) };
                        self.flavs.insert(*t, f);
                        return;
                    }
                }
                let w = self.subset(aw, 35, 3);
                let r = self.subset(ar, 35, 4);
                decls.insert(*t, (r, w));
                let f = if self.rng.chance(50) { Flav::D } else { Flav::N };
                self.flavs.insert(*t, f);
            }
            Shape::Seq(cs) => {
                for c in cs {
                    self.assign(c, ar, aw, decls);
                }
            }
            Shape::Par(cs) => {
                let n = cs.len();
                let mut car: Vec<Vec<Res>> = vec![vec![]; n];
                let mut caw: Vec<Vec<Res>> = vec![vec![]; n];
                for r in ar {
                    if aw.contains(r) {
                        match self.rng.below(10) {
                            0..=5 => {
                                let k = self.rng.below(n as u64) as usize;
                                car[k].push(*r);
                                caw[k].push(*r);
                            }
                            6..=8 => car.iter_mut().for_each(|v| v.push(*r)),
                            _ => {}
                        }
                    } else {
                        car.iter_mut().for_each(|v| v.push(*r));
                    }
                }
                for (i, c) in cs.iter().enumerate() {
                    self.assign(c, &car[i], &caw[i], decls);
                }
            }
        }
    }
}

/// profile 0 = conflict-free across par children, 1 = the same plus one injected conflict
/// between two random leaves, 2 = independent random access sets over a small universe
pub fn gen_case(seed: u64, idx: u64, cfg: &GenCfg) -> (Case, u8, Option<u8>) {
    let mut g = G { rng: Rng::new(seed, idx), next: 0, budget: 0, flavs: BTreeMap::new() };
    let profile = match g.rng.below(100) {
        0..=59 => 0u8,
        60..=84 => 1,
        _ => 2,
    };
    g.budget = 2 + g.rng.below(cfg.max_leaves as u64 - 1) as usize;
    let depth = 1 + g.rng.below(MAX_DEPTH as u64) as usize;
    let spine = g.rng.chance(30);
    let shape = g.shape(depth, true, spine);
    let nty = 1 + g.rng.below(NTY as u64) as u8;
    let ndy = 1 + g.rng.below(NDY);
    let uni: Vec<Res> = (0..nty).flat_map(|t| (0..ndy).map(move |d| (t, d))).collect();
    let mut decls = BTreeMap::new();
    let mut kind = None;
    if profile == 2 {
        for t in shape.leaves() {
            if g.rng.chance(30) {
                let k = g.rng.below(NSTAT as u64) as usize;
                decls.insert(t, (STAT[k].0.to_vec(), STAT[k].1.to_vec()));
                let f = if g.rng.chance(50) { Flav::S(k) } else { Flav::P(k) };
                g.flavs.insert(t, f);
                continue;
            }
            let w = g.subset(&uni, 12, 2);
            let r = g.subset(&uni, 15, 3);
            decls.insert(t, (r, w));
            let f = if g.rng.chance(50) { Flav::D } else { Flav::N };
            g.flavs.insert(t, f);
        }
    } else {
        g.assign(&shape, &uni, &uni, &mut decls);
        let lv = shape.leaves();
        if profile == 1 && lv.len() >= 2 {
            let x = *g.rng.pick(&lv);
            let mut y = *g.rng.pick(&lv);
            if y == x {
                y = lv[(lv.iter().position(|t| *t == x).unwrap() + 1) % lv.len()];
            }
            let r = *g.rng.pick(&uni);
            let k = g.rng.below(3) as u8;
            kind = Some(k);
            // static system data cannot take an extra id: such a leaf becomes a dynamic one
            // that declares the same
            for l in [x, y] {
                if g.flavs.get(&l).and_then(|f| f.stat()).is_some() {
                    let f = if g.rng.chance(50) { Flav::D } else { Flav::N };
                    g.flavs.insert(l, f);
                }
            }
            match k {
                0 => {
                    decls.get_mut(&x).unwrap().1.push(r);
                    decls.get_mut(&y).unwrap().1.push(r);
                }
                1 => {
                    decls.get_mut(&x).unwrap().1.push(r);
                    decls.get_mut(&y).unwrap().0.push(r);
                }
                _ => {
                    decls.get_mut(&x).unwrap().0.push(r);
                    decls.get_mut(&y).unwrap().1.push(r);
                }
            }
        }
    }
    let mut runs = vec![];
    for _ in 0..cfg.runs {
        // the first call is mostly on the full world; later calls: same world again, a fresh
        // one, or after removal, through either entry point
        let n = 1 + g.rng.below(cfg.max_setups.max(1) as u64) as usize;
        let mut script = String::new();
        for i in 0..n {
            let c = if i == 0 { *g.rng.pick(&['A', 'A', 'a', 'a', 'B', 'b', 'N', 'n']) } else { *g.rng.pick(&['A', 'a', 'B', 'b', 'R', 'r', 'B', 'b', 'R', 'r', 'N', 'n']) };
            script.push(c);
        }
        runs.push(RunCfg {
            pool: *g.rng.pick(&[1usize, 2, 4, 4, 8, 8]),
            mode: *g.rng.pick(&[0u8, 0, 1, 1, 2]),
            sync: *g.rng.pick(&[0u8, 1, 1, 1, 2, 3, 3]),
            reps: cfg.reps,
            hseed: g.rng.next() % 1_000_000,
            script,
            arc: g.rng.chance(30),
            macros: g.rng.chance(30),
        });
    }
    let flavs = g.flavs.clone();
    (Case { decls, flavs, shape, runs }, profile, kind)
}

/// every shape of depth <= 2, fan-out <= 3 and at most 4 leaves, every assignment of
/// {nothing, read a, write a} to its leaves
fn small_scope(todo: &mut Vec<(String, Case)>) {
    fn shapes(depth: usize, max_leaves: usize) -> Vec<Shape> {
        // leaf tags are placeholders (renumbered afterwards)
        let mut out = vec![Shape::Leaf(0)];
        if depth == 0 {
            return out;
        }
        let sub = shapes(depth - 1, max_leaves);
        for n in 1..=3usize {
            let mut combos: Vec<Vec<Shape>> = vec![vec![]];
            for _ in 0..n {
                let mut next = vec![];
                for c in &combos {
                    let used: usize = c.iter().map(|s| s.leaves().len()).sum();
                    for s in &sub {
                        if used + s.leaves().len() <= max_leaves {
                            let mut v = c.clone();
                            v.push(s.clone());
                            next.push(v);
                        }
                    }
                }
                combos = next;
            }
            for c in combos {
                out.push(Shape::Par(c.clone()));
                out.push(Shape::Seq(c));
            }
        }
        out
    }
    fn renumber(s: &Shape, next: &mut usize) -> Shape {
        match s {
            Shape::Leaf(_) => {
                *next += 1;
                Shape::Leaf(*next - 1)
            }
            Shape::Par(cs) => Shape::Par(cs.iter().map(|c| renumber(c, next)).collect()),
            Shape::Seq(cs) => Shape::Seq(cs.iter().map(|c| renumber(c, next)).collect()),
        }
    }
    let mut n = 0u64;
    for s in shapes(2, 4) {
        let s = renumber(&s, &mut 0);
        let k = s.leaves().len();
        for code in 0..3usize.pow(k as u32) {
            let mut decls = BTreeMap::new();
            let mut flavs = BTreeMap::new();
            let mut c = code;
            n += 1;
            for t in 0..k {
                // flavours rotate with the case number: n / d for every declaration, and the
                // static data with that declaration where one exists (`()` and `Read<R0>`)
                let rot = (n as usize + t) % 4;
                let (d, f) = match c % 3 {
                    0 => ((vec![], vec![]), [Flav::N, Flav::D, Flav::S(0), Flav::P(0)][rot]),
                    1 => ((vec![(0u8, 0u64)], vec![]), [Flav::N, Flav::D, Flav::S(1), Flav::P(1)][rot]),
                    _ => ((vec![], vec![(0, 0)]), [Flav::N, Flav::D, Flav::D, Flav::N][rot]),
                };
                c /= 3;
                decls.insert(t, d);
                flavs.insert(t, f);
            }
            let script = ["A", "aA", "Bb", "AR", "br", "ABa"][(n % 6) as usize].to_string();
            let rc = RunCfg { script, arc: n % 5 == 0, macros: n % 4 == 1, ..RunCfg::plain(2, (n % 3) as u8, 0, 1, n) };
            todo.push((format!("small:{}", n), Case { decls, flavs, shape: s.clone(), runs: vec![rc] }));
        }
    }
}

// ---------------------------------------------------------------- shrinking

pub fn shrink(case: &Case, pred: &mut dyn FnMut(&Case) -> bool) -> Case {
    let mut cur = case.clone();
    let mut budget = 250i32;
    // one run configuration, one repetition, no holds if that is enough
    if cur.runs.len() > 1 {
        for r in case.runs.iter() {
            let mut c = cur.clone();
            c.runs = vec![r.clone()];
            budget -= 1;
            if pred(&c) {
                cur = c;
                break;
            }
        }
    }
    loop {
        let mut changed = false;
        for v in cur.shape.variants() {
            if budget <= 0 {
                break;
            }
            budget -= 1;
            let mut c = cur.clone();
            c.shape = v;
            if pred(&c) {
                cur = c;
                changed = true;
                break;
            }
        }
        if changed {
            continue;
        }
        // the plainest flavour that still fails (a static leaf keeps its declaration)
        for t in cur.shape.leaves() {
            if cur.flav(t) != Flav::N && budget > 0 {
                budget -= 1;
                let mut c = cur.clone();
                c.flavs.remove(&t);
                if pred(&c) {
                    cur = c;
                    changed = true;
                }
            }
        }
        'decl: for t in cur.shape.leaves() {
            if cur.flav(t).stat().is_some() {
                continue;
            }
            let (r, w) = cur.decl(t);
            for side in 0..2 {
                let l = if side == 0 { r.len() } else { w.len() };
                for i in 0..l {
                    if budget <= 0 {
                        break 'decl;
                    }
                    budget -= 1;
                    let mut c = cur.clone();
                    let e = c.decls.entry(t).or_default();
                    if side == 0 {
                        e.0.remove(i);
                    } else {
                        e.1.remove(i);
                    }
                    if pred(&c) {
                        cur = c;
                        changed = true;
                        break 'decl;
                    }
                }
            }
        }
        if !changed || budget <= 0 {
            break;
        }
    }
    for simpler in [(1u32, 0u8), (1, 1)] {
        if let Some(r) = cur.runs.first().cloned() {
            let mut c = cur.clone();
            c.runs = vec![RunCfg { reps: simpler.0, sync: simpler.1.min(r.sync), ..r }];
            if c != cur && pred(&c) {
                cur = c;
                break;
            }
        }
    }
    // fewer setup calls, plain pool handle, explicit construction
    if let Some(r) = cur.runs.first().cloned() {
        let mut r = r;
        let mut i = 0;
        while r.script.len() > 1 && i < r.script.len() {
            let mut r2 = r.clone();
            r2.script.remove(i);
            let mut c = cur.clone();
            c.runs = vec![r2.clone()];
            if pred(&c) {
                cur = c;
                r = r2;
            } else {
                i += 1;
            }
        }
        for which in 0..2 {
            let mut r2 = r.clone();
            if which == 0 {
                r2.arc = false;
            } else {
                r2.macros = false;
            }
            let mut c = cur.clone();
            c.runs = vec![r2.clone()];
            if c != cur && pred(&c) {
                cur = c;
                r = r2;
            }
        }
    }
    cur.decls.retain(|t, _| cur.shape.leaves().contains(t));
    cur.flavs.retain(|t, _| cur.shape.leaves().contains(t));
    cur
}

// ---------------------------------------------------------------- driver of the engine

/// Statically typed trees (no boxing) whose leaves are zero-sized unit structs with `SystemData = ()`
/// — marker / logging systems — counting their runs in statics: every leaf once per dispatch, on
/// pools of 1, 2 and 4 threads, called from outside and from inside the pool, through `dispatch`
/// and `run_now`. (The run-time assembled trees of this engine box their children, so node types
/// there are never zero-sized.)
mod zst {
    use shred::{ParSeq, RunNow, System, World};
    use std::sync::atomic::{AtomicU64, Ordering::SeqCst};
    pub static RUNS: [AtomicU64; 10] = [AtomicU64::new(0), AtomicU64::new(0), AtomicU64::new(0), AtomicU64::new(0), AtomicU64::new(0), AtomicU64::new(0), AtomicU64::new(0), AtomicU64::new(0), AtomicU64::new(0), AtomicU64::new(0)];
    pub struct Z<const K: usize>;
    impl<'a, const K: usize> System<'a> for Z<K> {
        type SystemData = ();
        fn run(&mut self, _: ()) {
            RUNS[K].fetch_add(1, SeqCst);
        }
    }
    fn reset() {
        for r in RUNS.iter() {
            r.store(0, SeqCst);
        }
    }
    fn counts(n: usize) -> Vec<u64> {
        RUNS[..n].iter().map(|r| r.load(SeqCst)).collect()
    }
    // statically typed trees whose leaves carry every running-time hint (the tree has no use for it):
    // two leaves that open two children of a par node wait for each other (bounded) and must meet
    use std::sync::atomic::AtomicBool;
    pub static ENTERED: [AtomicBool; 4] = [AtomicBool::new(false), AtomicBool::new(false), AtomicBool::new(false), AtomicBool::new(false)];
    pub static MET: [AtomicBool; 4] = [AtomicBool::new(false), AtomicBool::new(false), AtomicBool::new(false), AtomicBool::new(false)];
    /// leaf K with hint T; K = 0 and K = 1 wait for each other, the others do nothing
    pub struct H<const K: usize, const T: u8>;
    impl<'a, const K: usize, const T: u8> System<'a> for H<K, T> {
        type SystemData = ();
        fn run(&mut self, _: ()) {
            ENTERED[K].store(true, SeqCst);
            if K < 2 {
                let t = std::time::Instant::now();
                while !ENTERED[1 - K].load(SeqCst) && t.elapsed() < std::time::Duration::from_millis(2500) {
                    std::thread::yield_now();
                }
                MET[K].store(ENTERED[1 - K].load(SeqCst), SeqCst);
            }
        }
        fn running_time(&self) -> shred::RunningTime {
            crate::sys::rt(T)
        }
    }
    pub fn check_overlap() -> (u64, Vec<String>) {
        let mut bad = vec![];
        let mut experiments = 0u64;
        for threads in [2usize, 4] {
            let pool = rayon::ThreadPoolBuilder::new().num_threads(threads).build().unwrap();
            for inside in [false, true] {
                let w = World::empty();
                macro_rules! go {
                    ($name:expr, $tree:expr) => {{
                        let mut ps = ParSeq::new($tree, &pool);
                        let mut met = false;
                        for _ in 0..2 {
                            for k in 0..4 {
                                ENTERED[k].store(false, SeqCst);
                                MET[k].store(false, SeqCst);
                            }
                            if inside {
                                pool.install(|| ps.dispatch(&w))
                            } else {
                                ps.dispatch(&w)
                            }
                            met |= MET[0].load(SeqCst) && MET[1].load(SeqCst);
                            if met {
                                break;
                            }
                        }
                        experiments += 1;
                        if !met {
                            bad.push(format!("{} on a pool of {} threads, called from {} the pool: leaves 0 and 1 open two children of the par node and wait for each other (up to 2.5 s), yet in 2 dispatches they were never inside run together", $name, threads, if inside { "inside" } else { "outside" }));
                        }
                    }};
                }
                go!("par![H0(Average), H1(VeryShort)]", shred::par![H::<0, 3>, H::<1, 1>,]);
                go!("par![H0(VeryShort), H1(VeryLong)]", shred::par![H::<0, 1>, H::<1, 5>,]);
                go!("par![H0(Short), H2(Long), H1(VeryShort)]", shred::par![H::<0, 2>, H::<2, 4>, H::<1, 1>,]);
                go!("par![seq![H0(Average), H2(VeryShort)], seq![H1(VeryShort), H3(VeryShort)]]", shred::par![shred::seq![H::<0, 3>, H::<2, 1>,], shred::seq![H::<1, 1>, H::<3, 1>,],]);
                go!("seq![H2(VeryLong), par![H1(VeryShort), H0(VeryShort)]]", shred::seq![H::<2, 5>, shred::par![H::<1, 1>, H::<0, 1>,],]);
            }
        }
        (experiments, bad)
    }
    // both children of a par node panic in one dispatch: one of the payloads reaches the caller of
    // dispatch (no abort, nothing swallowed), and the next dispatch runs both leaves once
    pub static PANIC_ON: AtomicBool = AtomicBool::new(false);
    pub struct Pn<const K: usize>;
    impl<'a, const K: usize> System<'a> for Pn<K> {
        type SystemData = ();
        fn run(&mut self, _: ()) {
            RUNS[K].fetch_add(1, SeqCst);
            if PANIC_ON.load(SeqCst) {
                panic!("harness leaf {} panics", K);
            }
        }
    }
    pub fn check_panics() -> (u64, Vec<String>) {
        let mut bad = vec![];
        let mut experiments = 0u64;
        for threads in [1usize, 2, 4] {
            let pool = rayon::ThreadPoolBuilder::new().num_threads(threads).build().unwrap();
            for inside in [true, false] {
                let w = World::empty();
                let mut ps = ParSeq::new(shred::par![Pn::<0>, Pn::<1>,], &pool);
                experiments += 1;
                let ctx = format!("par![P0, P1] on a pool of {} thread(s), called from {} the pool", threads, if inside { "inside" } else { "outside" });
                PANIC_ON.store(true, SeqCst);
                let r = std::panic::catch_unwind(std::panic::AssertUnwindSafe(|| if inside { pool.install(|| ps.dispatch(&w)) } else { ps.dispatch(&w) }));
                PANIC_ON.store(false, SeqCst);
                match r {
                    Ok(()) => bad.push(format!("{}: both leaves panic, but dispatch returned normally", ctx)),
                    Err(p) => {
                        let m = crate::common::panic_message(&p);
                        if m != "harness leaf 0 panics" && m != "harness leaf 1 panics" {
                            bad.push(format!("{}: both leaves panic; the caller receives {:?}, not the payload of one of them", ctx, m));
                        }
                    }
                }
                reset();
                let r = std::panic::catch_unwind(std::panic::AssertUnwindSafe(|| if inside { pool.install(|| ps.dispatch(&w)) } else { ps.dispatch(&w) }));
                if r.is_err() || counts(2) != vec![1, 1] {
                    bad.push(format!("{}: the dispatch after the caught panic {} and ran the leaves {:?} times (once each expected)", ctx, if r.is_err() { "panicked" } else { "returned" }, counts(2)));
                }
            }
        }
        (experiments, bad)
    }
    /// (description, counts seen, counts expected) for every configuration that went wrong
    pub fn check() -> (u64, Vec<String>) {
        let mut bad = vec![];
        let mut experiments = 0u64;
        for threads in [1usize, 2, 4] {
            let pool = rayon::ThreadPoolBuilder::new().num_threads(threads).build().unwrap();
            for inside in [false, true] {
                for via_trait in [false, true] {
                    let w = World::empty();
                    macro_rules! go {
                        ($name:expr, $n:expr, $tree:expr) => {{
                            reset();
                            let mut ps = ParSeq::new($tree, &pool);
                            for _ in 0..3 {
                                let mut f = || if via_trait { RunNow::run_now(&mut ps, &w) } else { ps.dispatch(&w) };
                                if inside {
                                    pool.install(|| f())
                                } else {
                                    f()
                                }
                            }
                            experiments += 1;
                            let got = counts($n);
                            if got != vec![3u64; $n] {
                                bad.push(format!("{} on a pool of {} thread(s), called from {} the pool through {}: after 3 dispatches the zero-sized leaves ran {:?} times", $name, threads, if inside { "inside" } else { "outside" }, if via_trait { "RunNow::run_now" } else { "dispatch" }, got));
                            }
                        }};
                    }
                    go!("par![Z0, Z1, Z2]", 3, shred::par![Z::<0>, Z::<1>, Z::<2>,]);
                    go!("seq![Z0, par![Z1, seq![Z2, Z3]]]", 4, shred::seq![Z::<0>, shred::par![Z::<1>, shred::seq![Z::<2>, Z::<3>,],],]);
                    go!("par![seq![Z0, Z1], par![Z2, Z3, Z4], Z5]", 6, shred::par![shred::seq![Z::<0>, Z::<1>,], shred::par![Z::<2>, Z::<3>, Z::<4>,], Z::<5>,]);
                    go!("seq![par![Z0, Z1], par![Z2, Z3]]", 4, shred::seq![shred::par![Z::<0>, Z::<1>,], shred::par![Z::<2>, Z::<3>,],]);
                    go!("par![Z0]", 1, shred::par![Z::<0>,]);
                }
            }
        }
        (experiments, bad)
    }
}

pub fn run(args: &Args, rep: &mut Report) {
    let seed = args.num("seed", 1);
    let cases = args.num("cases", 300);
    if args.get("replay").is_none() || std::fs::read_to_string(args.str("replay", "")).map(|t| t.contains("static-zst-trees")).unwrap_or(false) {
        let (n, bad) = zst::check();
        rep.add("static_trees_of_zero_sized_leaves_dispatched", n);
        if let Some(b) = bad.first() {
            rep.violate(PROP, "impl", "", format!("{} (expected 3 each)", b), vec!["static-zst-trees".to_string()]);
        }
        mark_current(&["static-zst-trees".to_string()]);
        let (n, bad) = zst::check_panics();
        rep.add("static_trees_in_which_both_par_children_panic", n);
        if let Some(b) = bad.first() {
            rep.violate(PROP, "impl", "par-panics", b.clone(), vec!["static-zst-trees".to_string()]);
        }
        let (n, bad) = zst::check_overlap();
        rep.add("static_trees_with_hints_whose_par_children_must_meet", n);
        if let Some(b) = bad.first() {
            rep.violate(PROP, "impl", "", b.clone(), vec!["static-zst-trees".to_string()]);
        }
        if args.get("replay").is_some() {
            return;
        }
    }
    let cfg = GenCfg { max_leaves: args.num("max-leaves", 20) as usize, reps: args.num("reps", 2) as u32, runs: args.num("runs", 2) as usize, max_setups: args.num("max-setups", 4) as usize };
    let tune = Tuning { hold_us: args.num("hold-us", 150), rdv_timeout_us: args.num("rdv-us", 300) };
    let mut drv = Drv::spawn(&args.str("driver", "/verif/lean/.lake/build/bin/driver"));
    let pools = Pools::new();
    rep.rule = "Par/Seq trees (depth <= 5, fan-out <= 6) assembled at run time from the real Par/Seq nodes (explicit calls and par!/seq!); leaves of four accessor flavours (dynamic data without / with a default accessor, static Read/Write data with / without an overridden setup); every run sets the one ParSeq up 1-4 times (same world, fresh world, after removal; ParSeq::setup / RunNow::setup) and dispatches after each call; leaf access sets conflict-free across par children (60%), the same plus one injected W/W, W/R or R/W conflict (25%), or independent random (15%); built trees are dispatched on pools of 1/2/4/8 threads from outside / inside the pool / a worker of another pool with holds inside run; distinct = distinct (tree, declarations); non-trivial = a par and a seq node with >= 2 children each, or a tree whose construction must panic".into();
    let mut todo: Vec<(String, Case)> = vec![];
    let read_case = |f: &std::path::Path| -> Option<Case> {
        let text = std::fs::read_to_string(f).ok()?;
        let lines: Vec<String> = text.lines().filter(|l| !l.starts_with('#')).map(|s| s.to_string()).collect();
        Case::parse(&lines)
    };
    if let Some(f) = args.get("replay") {
        match read_case(std::path::Path::new(&f)) {
            Some(c) => todo.push((format!("replay:{}", f), c)),
            None => {
                eprintln!("cannot parse replay file {}", f);
                std::process::exit(2);
            }
        }
    }
    if let Some(dir) = args.get("corpus") {
        if let Ok(rd) = std::fs::read_dir(&dir) {
            let mut files: Vec<_> = rd.filter_map(|e| e.ok()).map(|e| e.path()).filter(|p| p.extension().map(|x| x == "case").unwrap_or(false)).collect();
            files.sort();
            for f in files {
                match read_case(&f) {
                    Some(c) => {
                        todo.push((format!("corpus:{}", f.display()), c));
                        rep.count("corpus_cases");
                    }
                    None => rep.count("corpus_unparsable"),
                }
            }
        }
    }
    if args.get("replay").is_none() {
        if args.flag("small-scope") {
            small_scope(&mut todo);
            rep.count("small_scope_enumerated");
        }
        for c in 0..cases {
            let (case, profile, kind) = gen_case(seed, c, &cfg);
            rep.count(&format!("profile_{}", ["conflict_free", "one_injected_conflict", "random_access"][profile as usize]));
            if let Some(k) = kind {
                rep.count(&format!("injected_{}", ["WW", "WR", "RW"][k as usize]));
            }
            todo.push((format!("gen:{}:{}", seed, c), case));
        }
    }
    let mut reported: BTreeSet<String> = Default::default();
    let mut par_obs = (0u64, 0u64);
    for (label, case) in todo {
        mark_current(&case.lines());
        drv.begin_case();
        let res = eval_case(&case, Some(&mut drv), &pools, &tune);
        let nodes = case.shape.nodes();
        let nontrivial = (nodes.2 >= 1 && nodes.3 >= 1) || res.panic_at.is_some();
        rep.case(&case.key(), nontrivial);
        if !label.starts_with("small:") {
            rep.count(&format!("depth_{}", case.shape.depth()));
            rep.count(&format!("max_fanout_{}", case.shape.max_fanout()));
            rep.add("leaves", case.shape.leaves().len() as u64);
            rep.maxi("max_leaves", case.shape.leaves().len() as u64);
            rep.add("par_nodes", nodes.0 as u64);
            rep.add("seq_nodes", nodes.1 as u64);
        }
        if res.built {
            rep.count("trees_built");
        }
        if let Some((_, k)) = res.panic_at {
            rep.count("trees_rejected_by_Par_with");
            rep.count(&format!("with_panicked_at_child_{}", k));
        }
        rep.add("dispatches", res.dispatches);
        par_obs = (par_obs.0 + res.par_obs.0, par_obs.1 + res.par_obs.1);
        rep.add("nodes_below_the_root_whose_reads_writes_were_checked", res.node_checks);
        rep.add("setup_calls", res.setup_calls);
        for (c, n) in &res.setup_kinds {
            rep.add(&format!("setup_calls_{}", match c { 'A' => "first_world_inherent", 'a' => "first_world_RunNow", 'B' => "fresh_world_inherent", 'b' => "fresh_world_RunNow", 'R' => "after_removal_inherent", _ => "after_removal_RunNow" }), *n);
        }
        rep.add("resources_created_by_setup_calls", res.created);
        rep.add("steps_dispatching_without_a_setup_call", res.dispatch_only_steps);
        rep.add("trees_built_with_the_macros", res.macro_trees);
        rep.add("runs_with_pool_as_Arc", res.arc_pools);
        if !label.starts_with("small:") {
            for t in case.shape.leaves() {
                rep.count(&format!("leaf_flavour_{}", match case.flav(t) { Flav::N => "dynamic_no_default", Flav::D => "dynamic_with_default", Flav::S(_) => "static_setup_overridden", Flav::P(_) => "static_plain" }));
            }
        }
        rep.add("pair_checks_Par_new_a_with_b", res.pair_checks);
        rep.add("pair_checks_that_panicked", res.pair_panics);
        rep.traces_validated += res.accepted;
        for (p, o) in &res.overlap {
            rep.add(&format!("pool{}_dispatches", p), o.0);
            rep.add(&format!("pool{}_par_nodes_2plus_children", p), o.1);
            rep.add(&format!("pool{}_par_nodes_with_children_overlapping", p), o.2);
            rep.maxi(&format!("pool{}_max_systems_inside_at_once", p), o.3);
        }
        for r in &case.runs {
            if res.dispatches > 0 {
                rep.count(&format!("called_{}", ["from_outside", "from_pool_worker", "from_other_pool_worker"][r.mode as usize]));
            }
        }
        if nontrivial && res.built && res.overlap.values().any(|o| o.2 > 0) {
            rep.sample(Json::obj(vec![
                ("case", Json::Arr(case.lines().into_iter().map(Json::s).collect())),
                ("a_real_trace_with_overlapping_par_children", Json::s(res.sample_trace.clone().unwrap_or_default())),
            ]));
        }
        for (class, what) in &res.impl_v {
            if reported.insert(format!("impl:{}", class)) {
                let cl = class.clone();
                let small = shrink(&case, &mut |c: &Case| {
                    // scheduling-dependent failures get three attempts
                    (0..3).any(|_| eval_case(c, None, &pools, &tune).impl_v.iter().any(|(q, _)| *q == cl))
                });
                let what2 = (0..3).find_map(|_| eval_case(&small, None, &pools, &tune).impl_v.into_iter().find(|(q, _)| q == class).map(|x| x.1)).unwrap_or_else(|| what.clone());
                rep.violate(PROP, "impl", class, format!("{} [{}]", what2, label), small.lines());
            }
        }
        for (aspect, what) in &res.model_v {
            if reported.insert(format!("model:{}", aspect)) {
                let asp = aspect.clone();
                let small = shrink(&case, &mut |c: &Case| {
                    drv.begin_case();
                    eval_case(c, Some(&mut drv), &pools, &tune).model_v.iter().any(|(a, _)| *a == asp)
                });
                drv.begin_case();
                let what2 = eval_case(&small, Some(&mut drv), &pools, &tune).model_v.into_iter().find(|(a, _)| a == aspect).map(|x| x.1).unwrap_or_else(|| what.clone());
                rep.violate(&format!("MODEL:{}", aspect), "model", "", format!("{} [{}]", what2, label), small.lines());
            }
        }
    }
    // "children of a par node may overlap": with leaves held inside `run` on pools of >= 2 threads,
    // never seeing two children of any par node open together means the crate serialises them
    rep.add("par_nodes_observed_under_holds_pool2plus", par_obs.0);
    rep.add("par_nodes_observed_overlapping_under_holds_pool2plus", par_obs.1);
    if par_obs.0 >= 50 && par_obs.1 == 0 {
        let canned = Case {
            decls: BTreeMap::new(),
            flavs: BTreeMap::new(),
            shape: Shape::Par(vec![Shape::Leaf(0), Shape::Leaf(1)]),
            runs: vec![RunCfg::plain(4, 0, 2, 60, 1)],
        };
        let r = eval_case(&canned, None, &pools, &tune);
        let lines = if r.par_obs.1 == 0 { canned.lines() } else { vec![] };
        rep.violate(
            PROP,
            "impl",
            "serialised",
            format!("children of par nodes never overlapped: {} par nodes with >= 2 children were dispatched on pools of >= 2 threads with their leaves held inside run, and no two children were ever open at the same time (the canned case par![0, 1] on a pool of 4, rendezvous inside run, 60 dispatches: {} overlaps)", par_obs.0, r.par_obs.1),
            lines,
        );
    }
    rep.add("driver_requests", drv.requests);
}
