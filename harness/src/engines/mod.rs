pub mod plan;
pub mod world;
