pub mod plan;
