pub mod plan;
pub mod meta;
