pub mod plan;
pub mod trace;
