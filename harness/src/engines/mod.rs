pub mod plan;
pub mod trace;
pub mod invariance;
pub mod lifecycle;
#[cfg(feature = "parallel")]
pub mod rendezvous;
