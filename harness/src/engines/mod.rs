pub mod plan;
pub mod sysdata;
