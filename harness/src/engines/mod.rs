pub mod plan;
#[cfg(feature = "parallel")]
pub mod parseq;
