pub mod plan;
#[cfg(feature = "parallel")]
pub mod asyncd;
#[cfg(feature = "parallel")]
pub mod asyncd_sys;
