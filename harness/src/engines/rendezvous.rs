//! Rendezvous engine (C11): for every stage width 2..16 and pool size = width and width+3,
//! for a user-supplied pool, the default pool, a batch-inner stage and the async dispatcher,
//! over repeated dispatches, the real stage is run with systems that each wait until all
//! siblings have entered `run`. Completion within the timeout = all of them were inside at
//! once. A negative control (pool smaller than the stage) must time out, as the pool model says.
use crate::common::*;
use shred::*;
use std::sync::atomic::{AtomicBool, AtomicUsize, Ordering::SeqCst};
use std::sync::{Arc, Condvar, Mutex};
use std::time::Duration;

struct Meet {
    n: usize,
    arrived: Mutex<usize>,
    cv: Condvar,
    timeout_ms: u64,
    timed_out: AtomicBool,
    met: AtomicUsize,
    runs: AtomicUsize,
}
impl Meet {
    fn new(n: usize, timeout_ms: u64) -> Arc<Meet> {
        Arc::new(Meet { n, arrived: Mutex::new(0), cv: Condvar::new(), timeout_ms, timed_out: AtomicBool::new(false), met: AtomicUsize::new(0), runs: AtomicUsize::new(0) })
    }
    fn reset(&self) {
        *self.arrived.lock().unwrap() = 0;
    }
}
struct RSys(Arc<Meet>);
impl<'a> System<'a> for RSys {
    type SystemData = ();
    fn run(&mut self, _: ()) {
        let m = &self.0;
        m.runs.fetch_add(1, SeqCst);
        let mut g = m.arrived.lock().unwrap();
        *g += 1;
        m.cv.notify_all();
        let deadline = std::time::Instant::now() + Duration::from_millis(m.timeout_ms);
        while *g < m.n {
            let now = std::time::Instant::now();
            if now >= deadline {
                m.timed_out.store(true, SeqCst);
                m.cv.notify_all();
                return;
            }
            let (gg, _) = m.cv.wait_timeout(g, deadline - now).unwrap();
            g = gg;
            if m.timed_out.load(SeqCst) {
                return;
            }
        }
        m.met.fetch_add(1, SeqCst);
    }
}
struct Ctl(usize, Arc<Meet>);
impl<'a, 'b, 'c> BatchController<'a, 'b, 'c> for Ctl {
    type BatchSystemData = ();
    fn run(&mut self, w: &'c World, d: &mut Dispatcher<'a, 'b>) {
        for _ in 0..self.0 {
            self.1.reset();
            d.dispatch(w);
        }
    }
}

fn builder_with(n: usize, m: &Arc<Meet>) -> DispatcherBuilder<'static, 'static> {
    let mut b = DispatcherBuilder::new();
    for i in 0..n {
        b.add(RSys(m.clone()), &format!("r{}", i), &[]);
    }
    b
}

/// returns (completed, width the dispatcher reports)
fn run_config(mode: &str, n: usize, pool: Option<usize>, reps: usize, timeout_ms: u64) -> (bool, usize, usize) {
    let m = Meet::new(n, timeout_ms);
    let tp = pool.map(|p| Arc::new(rayon::ThreadPoolBuilder::new().num_threads(p).build().unwrap()));
    let world = World::empty();
    let mut width = 0;
    match mode {
        "top" | "default" => {
            let mut b = builder_with(n, &m);
            if let Some(tp) = &tp {
                b.add_pool(tp.clone());
            }
            let mut d = b.build();
            width = d.max_threads();
            for _ in 0..reps {
                m.reset();
                d.dispatch(&world);
                if m.timed_out.load(SeqCst) {
                    break;
                }
            }
        }
        "foreign" => {
            // dispatch is called from a worker of an unrelated one-thread pool: the dispatcher
            // must still use its own pool
            let mut b = builder_with(n, &m);
            if let Some(tp) = &tp {
                b.add_pool(tp.clone());
            }
            let mut d = b.build();
            width = d.max_threads();
            let foreign = rayon::ThreadPoolBuilder::new().num_threads(1).build().unwrap();
            let world = &world;
            let m2 = m.clone();
            // `Dispatcher` is not `Send`; its sendable form is
            let mut sd = d.try_into_sendable().ok().expect("no thread-local systems");
            foreign.install(move || {
                for _ in 0..reps {
                    m2.reset();
                    sd.dispatch(world);
                    if m2.timed_out.load(SeqCst) {
                        break;
                    }
                }
            });
        }
        "batch" => {
            let inner = builder_with(n, &m);
            let mut b = DispatcherBuilder::new();
            if let Some(tp) = &tp {
                b.add_pool(tp.clone());
            }
            b.add_batch(Ctl(reps, m.clone()), inner, "batch", &[]);
            let mut d = b.build();
            width = n;
            d.dispatch(&world);
        }
        "async" => {
            let mut b = builder_with(n, &m);
            if let Some(tp) = &tp {
                b.add_pool(tp.clone());
            }
            let mut d = b.build_async(world);
            width = n;
            for _ in 0..reps {
                m.reset();
                d.dispatch();
                d.wait();
                if m.timed_out.load(SeqCst) {
                    break;
                }
            }
        }
        _ => {}
    }
    (!m.timed_out.load(SeqCst) && m.met.load(SeqCst) == n * reps, width, m.met.load(SeqCst))
}

pub fn run(args: &Args, rep: &mut Report) {
    if args.flag("child") {
        // the real side of generated cases, in a process whose RAYON_NUM_THREADS the parent chose
        crate::engines::rdv_gen::child_main();
    }
    let mut drv = Drv::spawn(&args.str("driver", "/verif/lean/.lake/build/bin/driver"));
    let timeout = args.num("timeout-ms", 10000);
    let reps = args.num("reps", 5) as usize;
    rep.rule = "(1) complete enumeration: stage width 2..16 × pool size {width, width+3} × {user-supplied pool, default pool, batch-inner stage, async dispatcher} × 5 repeated dispatches, each with rendezvous systems (every system waits until all siblings are inside run); distinct = configurations; non-trivial = all of them (width ≥ 2); plus negative controls (pool smaller than the stage must time out). (2) generated cases: a configuration (build / build_async; dispatch called from the main thread, a worker of a foreign pool or of the own pool; dispatch / dispatch_par / run_now; default pool with RAYON_NUM_THREADS chosen by the harness, user-supplied pool given before or after the batches, pools given to batch builders) and registrations (stages of widths 1..pool size with uniform or mixed running-time hints, resource-touching or resource-free systems, groups of several systems, batches and nested batches narrower / wider than their parent, plus the profile-driven generator of the plan engine); the plan is read from the shape hooks and must equal the model's; every stage with at least two groups of every dispatcher is rendezvoused on (one waiting system per group, batch controllers included) over repeated dispatches, in a child process per RAYON_NUM_THREADS value; distinct = configuration x plan shape; non-trivial = at least one rendezvous experiment. (3) generated call sequences on an async dispatcher: two to four dispatch() calls, back to back or separated by wait / wait_without_tl / running / world, then wait; a stage exactly as wide as the pool (or narrower) behind zero to two narrow stages, the first of which stays inside run for 10-25 ms while the experiment is on a later stage; default pool and user-supplied pools; same experiments and oracles, every dispatch of the sequence must rendezvous; distinct = configuration x plan shape x call sequence".into();
    rep.exhaustive = true;
    // how many threads does the default pool have here?
    let default_threads = {
        let tp = rayon::ThreadPoolBuilder::new().build().unwrap();
        tp.current_num_threads()
    };
    rep.add("default_pool_threads", default_threads as u64);
    let one = args.get("replay").and_then(|f| std::fs::read_to_string(f).ok()).map(|t| t.lines().find(|l| !l.starts_with('#') && !l.trim().is_empty()).unwrap_or("").to_string());
    if one.as_ref().map(|l| l.starts_with("rdv ")).unwrap_or(false) {
        // a generated case
        crate::engines::rdv_gen::run_generated(args, rep, &mut drv);
        return;
    }
    let mut configs: Vec<(String, usize, Option<usize>)> = vec![];
    if let Some(l) = one {
        let p: Vec<&str> = l.split_whitespace().collect();
        if p.len() >= 4 {
            configs.push((p[1].to_string(), p[2].parse().unwrap_or(2), p[3].parse().ok()));
        }
    } else {
        for n in 2..=16usize {
            for mode in ["top", "batch", "async", "foreign"] {
                configs.push((mode.to_string(), n, Some(n)));
                configs.push((mode.to_string(), n, Some(n + 3)));
            }
            if n <= default_threads {
                configs.push(("default".to_string(), n, None));
                configs.push(("batch".to_string(), n, None));
                configs.push(("async".to_string(), n, None));
            }
        }
    }
    let mut enumeration_failed = false;
    for (mode, n, pool) in configs {
        let workers = pool.unwrap_or(default_threads);
        let (ok, width, met) = run_config(&mode, n, pool, reps, timeout);
        let key = format!("{} {} {:?}", mode, n, pool);
        rep.case(&key, true);
        rep.count(&format!("configs_{}", mode));
        rep.traces_validated += reps as u64;
        let line = format!("rendezvous {} {} {}", mode, n, pool.map(|p| p.to_string()).unwrap_or_else(|| "default".into()));
        if rep.samples.len() < 3 {
            rep.sample(Json::obj(vec![("config", Json::s(line.clone())), ("systems_that_met", Json::n(met as u64)), ("dispatches", Json::n(reps as u64))]));
        }
        let model = drv.ask(&format!("pool {} {}", workers, n));
        if width != n && (mode == "top" || mode == "default" || mode == "foreign") {
            rep.violate("C11", "impl", "", format!("{}: {} mutually independent systems were laid out with stage width {}", line, n, width), vec![line.clone()]);
        }
        if !ok {
            rep.violate("C11", "impl", "", format!("{}: the {} sibling systems never were inside run at the same time ({} of {} rendezvous completed within {} ms) although {} pool threads were available", line, n, met, n * reps, timeout, workers), vec![line.clone()]);
            if model != "deadlock" {
                // model says it completes
            }
            enumeration_failed = true;
            break;
        }
        if model != "completes" {
            rep.violate("MODEL:pool", "model", "", format!("{}: completed, but the pool model predicts {}", line, model), vec![line.clone()]);
        }
    }
    // negative controls: fewer workers than groups cannot complete
    if args.get("replay").is_none() {
        for (n, p) in [(4usize, 3usize), (2, 1)] {
            let (ok, _, met) = run_config("top", n, Some(p), 1, 250);
            rep.count("negative_controls");
            let model = drv.ask(&format!("pool {} {}", p, n));
            if ok || model != "deadlock" {
                rep.violate("MODEL:pool", "model", "", format!("negative control: width {} on {} workers: real completed={} (met {}), model {}", n, p, ok, met, model), vec![format!("rendezvous top {} {}", n, p)]);
            }
        }
    }
    if args.get("replay").is_none() && !enumeration_failed {
        crate::engines::rdv_gen::run_generated(args, rep, &mut drv);
    }
}
