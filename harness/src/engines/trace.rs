//! Trace engine: real dispatches of harness systems (real borrows, forced overlaps, holds,
//! optional injected panics) → totally ordered event log → (a) implementation-side oracles for
//! isolation, ordering, exactly-once, thread placement, panic containment, schedule
//! independence; (b) the Lean acceptor for the task of the model's own plan, and the model's
//! sequential effect evaluation.
use crate::build::*;
use crate::common::*;
use crate::engines::plan::{case_lines, shrink};
use crate::gen::*;
use crate::oracle::*;
use crate::sys::*;
use shred::*;
use std::collections::BTreeMap;
use std::panic::{catch_unwind, AssertUnwindSafe};
use std::sync::atomic::Ordering::SeqCst;

pub struct TraceCfg {
    pub rounds: u64,
    pub panics: bool,
    pub partial_modes: bool,
    pub long_holds: bool,
    pub force_overlap: bool,
}

#[derive(Default)]
pub struct TraceOut {
    pub impl_v: Vec<(String, String)>,
    pub model_v: Vec<(String, String)>,
    pub traces: u64,
    pub events: u64,
    pub overlaps: u64,
    pub max_inside: usize,
    pub panics_injected: u64,
    pub unwinding_dispatches: u64,
    pub layout: String,
    pub nontrivial: bool,
    pub sample_log: String,
    pub sendable: u64,
}

fn expected_counts(key: Option<usize>, mult: u64, staged: bool, tl: bool, built: &Built, lay: &Layout, out: &mut BTreeMap<usize, u64>, ns: &BTreeMap<usize, usize>) {
    for st in &lay.stages {
        for g in st {
            for t in g {
                let m = if staged { mult } else { 0 };
                out.insert(*t, m);
                if let Some(inner) = lay.inner.get(t) {
                    let n = *ns.get(t).unwrap_or(&0) as u64;
                    expected_counts(Some(*t), m * n, true, true, built, inner, out, ns);
                }
            }
        }
    }
    for t in &lay.tl {
        out.insert(*t, if tl { mult } else { 0 });
    }
    let _ = key;
}

fn batch_ns(ops: &[Op], out: &mut BTreeMap<usize, usize>) {
    for o in ops {
        if let Op::Batch { tag, n, inner, .. } = o {
            out.insert(*tag, *n);
            batch_ns(inner, out);
        }
    }
}

/// systems (same dispatcher level) that must not start when `a` was unwound by a panic
fn ordered_after(a: usize, built: &Built, lay_of: &dyn Fn(Option<usize>) -> Option<Layout>) -> Vec<usize> {
    let ia = &built.infos[&a];
    let lay = match lay_of(ia.parent) {
        Some(l) => l,
        None => return vec![],
    };
    let mut v = vec![];
    if ia.is_tl {
        if let Some(i) = lay.tl.iter().position(|x| *x == a) {
            v.extend(lay.tl[i + 1..].iter().cloned());
        }
        return v;
    }
    if let Some((s, g, k)) = lay.pos(a) {
        v.extend(lay.stages[s][g][k + 1..].iter().cloned());
        for st in &lay.stages[s + 1..] {
            v.extend(st.iter().flatten().cloned());
        }
        v.extend(lay.tl.iter().cloned());
    }
    v
}

fn sub_layout(lay: &Layout, key: Option<usize>) -> Option<Layout> {
    match key {
        None => Some(lay.clone()),
        Some(k) => {
            if let Some(l) = lay.inner.get(&k) {
                return Some(l.clone());
            }
            for l in lay.inner.values() {
                if let Some(x) = sub_layout(l, key) {
                    return Some(x);
                }
            }
            None
        }
    }
}

/// the dispatcher under test: as built, or converted to its sendable form (dispatcher.rs
/// `try_into_sendable`; only possible without thread-local systems — same plan, C12)
enum AnyDisp {
    D(Dispatcher<'static, 'static>),
    S(SendDispatcher<'static>),
}
impl AnyDisp {
    fn dispatch(&mut self, w: &World) {
        match self {
            AnyDisp::D(d) => d.dispatch(w),
            AnyDisp::S(d) => d.dispatch(w),
        }
    }
    fn dispatch_seq(&mut self, w: &World) {
        match self {
            AnyDisp::D(d) => d.dispatch_seq(w),
            AnyDisp::S(d) => d.dispatch_seq(w),
        }
    }
    #[cfg(feature = "parallel")]
    fn dispatch_par(&mut self, w: &World) {
        match self {
            AnyDisp::D(d) => d.dispatch_par(w),
            AnyDisp::S(d) => d.dispatch_par(w),
        }
    }
    fn dispatch_thread_local(&mut self, w: &World) {
        if let AnyDisp::D(d) = self {
            d.dispatch_thread_local(w)
        }
    }
    fn run_now(&mut self, w: &World) {
        match self {
            AnyDisp::D(d) => RunNow::run_now(d, w),
            AnyDisp::S(d) => RunNow::run_now(d, w),
        }
    }
}

pub fn eval_case(ops: &[Op], drv: Option<&mut Drv>, pools: &[Pool], rng: &mut Rng, cfg: &TraceCfg) -> TraceOut {
    let mut out = TraceOut::default();
    let mut drv = drv;
    let ntags = Op::max_tag(ops) + 1;
    let shared = Shared::new(ntags);
    let pool = &pools[rng.below(pools.len() as u64) as usize];
    let mut built = build_case(ops, drv.as_deref_mut(), shared.clone(), pool, true);
    for d in std::mem::take(&mut built.diffs) {
        out.model_v.push(("outcome".into(), d));
    }
    let b = built.builder.take().unwrap();
    let mut disp = b.build();
    let lay = match identify(&mut disp, &shared, &built) {
        Ok(l) => l,
        Err(e) => {
            if Op::depth(ops) > 0 {
                out.impl_v.push(("C07".into(), format!("{} (a dispatcher with batches)", e)));
            }
            if Op::has_tl_in_batch(ops, false) || ops.iter().any(|o| matches!(o, Op::Tl { .. })) {
                out.impl_v.push(("C12".into(), format!("{} (a dispatcher with thread-local systems)", e)));
            }
            out.impl_v.push(("C04".into(), e));
            return out;
        }
    };
    out.layout = lay.show();
    out.nontrivial = lay.nontrivial();
    let sendable = rng.chance(30) && lay.tl.is_empty();
    let mut disp = if sendable {
        match disp.try_into_sendable() {
            Ok(s) => {
                out.sendable = 1;
                AnyDisp::S(s)
            }
            Err(d) => {
                out.impl_v.push(("C12".into(), "try_into_sendable refused a dispatcher without thread-local systems".into()));
                AnyDisp::D(d)
            }
        }
    } else {
        AnyDisp::D(disp)
    };
    // the model must lay the plan out identically, otherwise its task is about another plan
    if let Some(ml) = built.model_layouts.get(&None) {
        let m = parse_model_layout(ml);
        if m.sys != lay.stages {
            out.model_v.push(("layout".into(), format!("executed layout {} but the model lays out {}", show_nested(&lay.stages), show_nested(&m.sys))));
            // the model's task is about another plan: only the implementation-side oracles go on
            drv = None;
        }
    }
    let mut ns = BTreeMap::new();
    batch_ns(ops, &mut ns);
    let all_tags: Vec<usize> = built.infos.values().filter(|i| i.placed).map(|i| i.tag).collect();
    let world = full_world();
    // twin for the schedule-independence oracle: same registrations, dispatched sequentially
    let shared2 = Shared::new(ntags);
    let mut built2 = build_case(ops, None, shared2.clone(), pool, true);
    let mut disp2 = built2.builder.take().unwrap().build();
    let world2 = full_world();
    let mut full_rounds = 0u64;
    let mut plan_rounds: Vec<(String, Option<usize>, usize)> = vec![];
    for _ in 0..cfg.rounds {
        plan_rounds.push((if rng.chance(80) { "par".to_string() } else { "seq".to_string() }, None, 0));
    }
    if cfg.panics {
        // every placed system once as the panicking one (run or fetch), each followed by a clean dispatch
        plan_rounds.clear();
        let mut cands = all_tags.clone();
        rng.shuffle(&mut cands);
        // a thread-local system inside a batch (it runs on a pool worker) first, more often than not
        if let Some(i) = cands.iter().position(|t| built.infos[t].is_tl && built.infos[t].parent.is_some()) {
            if rng.chance(60) {
                cands.swap(0, i);
            }
        }
        for t in cands.into_iter().take(6) {
            let mode = if rng.chance(75) { "par" } else { "seq" };
            let how = if built.infos[&t].is_batch || rng.chance(50) {
                1
            } else if rng.chance(40) {
                2
            } else if rng.chance(50) {
                3
            } else {
                4
            };
            // flat plans: the caller of dispatch itself still holds a guard on something the system
            // fetches (the documented way to make dispatch panic); the system's fetch is refused by the world
            let (fr, fw) = (built.infos[&t].r.clone(), built.infos[&t].w.clone());
            let how = if Op::depth(ops) == 0 && !(fr.is_empty() && fw.is_empty()) && rng.chance(25) { 5 } else { how };
            plan_rounds.push((mode.to_string(), Some(t), how));
            // the clean dispatch after it: the same way, or another way of dispatching (what one
            // entry point leaves behind when it unwinds must not disturb another)
            let clean = if rng.chance(60) { mode } else { *rng.pick(&["par", "seq", "paronly"]) };
            plan_rounds.push((clean.to_string(), None, 0));
        }
        if all_tags.len() >= 2 && rng.chance(50) {
            // two at once (from different groups of one stage when there is such a stage), at a
            // random position among the rounds: what one panic leaves behind must not show later
            let at = 2 * rng.below(plan_rounds.len() as u64 / 2 + 1) as usize;
            plan_rounds.insert(at, ("par".to_string(), None, 0));
            plan_rounds.insert(at, ("par".to_string(), Some(usize::MAX), 1));
        }
    }
    if cfg.partial_modes {
        for _ in 0..3 {
            let m = *rng.pick(&["paronly", "seqonly", "tlonly", "par"]);
            plan_rounds.push((m.to_string(), None, 0));
        }
    }
    for (mode, panic_tag, how) in plan_rounds {
        #[cfg(not(feature = "parallel"))]
        let mode = if mode == "par" { "seq".to_string() } else if mode == "paronly" { "seqonly".to_string() } else { mode };
        // behaviour of this round
        shared.reset_behaviour();
        for t in &all_tags {
            let b = &shared.behav[*t];
            b.runs.store(0, SeqCst);
            if rng.chance(60) {
                b.hold_us.store(rng.below(250), SeqCst);
            }
        }
        if cfg.force_overlap {
            for t in &all_tags {
                shared.behav[*t].hold_us.store(1500, SeqCst);
            }
        }
        if cfg.long_holds && !all_tags.is_empty() {
            // hold one system that others depend on (or any) for a long time
            let t = *rng.pick(&all_tags);
            shared.behav[t].hold_us.store(4000, SeqCst);
        }
        if rng.chance(60) {
            shared.rendezvous_timeout_us.store(1500, SeqCst);
            let mut mark = |l: &Layout| {
                for st in &l.stages {
                    if st.len() > 1 {
                        for g in st {
                            if !built.infos[&g[0]].is_batch {
                                shared.behav[g[0]].rendezvous.store(st.len(), SeqCst);
                            }
                        }
                    }
                }
            };
            mark(&lay);
            for l in lay.inner.values() {
                mark(l);
            }
        }
        let mut panicking: Vec<usize> = vec![];
        let mut outer_guard: Option<Box<dyn Cell + '_>> = None;
        if let Some(t) = panic_tag {
            if t == usize::MAX {
                let mut wide: Vec<&Vec<Vec<usize>>> = lay.stages.iter().chain(lay.inner.values().flat_map(|l| l.stages.iter())).filter(|st| st.len() > 1).collect();
                let mut c = all_tags.clone();
                rng.shuffle(&mut c);
                if !wide.is_empty() && rng.chance(80) {
                    rng.shuffle(&mut wide);
                    let mut gs: Vec<usize> = wide[0].iter().map(|g| g[0]).collect();
                    rng.shuffle(&mut gs);
                    c = gs;
                }
                panicking = c.into_iter().take(2).collect();
            } else {
                panicking.push(t);
            }
            if how == 5 {
                let (fr, fw) = (built.infos[&panicking[0]].r.clone(), built.infos[&panicking[0]].w.clone());
                let all: Vec<Res> = fr.into_iter().chain(fw).collect();
                let x = *rng.pick(&all);
                // everybody who fetches x is refused (whoever gets that far)
                panicking = all_tags.iter().copied().filter(|t| built.infos[t].r.contains(&x) || built.infos[t].w.contains(&x)).collect();
                outer_guard = Some(borrow_excl(&world, x));
            } else {
                for p in &panicking {
                    shared.behav[*p].panic_mode.store(how, SeqCst);
                }
            }
            out.panics_injected += panicking.len() as u64;
        }
        shared.take_log();
        shared.set_caller();
        shared.max_inside.store(0, SeqCst);
        shared.round.fetch_add(1, SeqCst);
        // `RunNow for Dispatcher` (dispatcher.rs) is another way to call `dispatch`
        let via_run_now = rng.chance(30);
        // the dispatch is issued by a destructor while the calling thread unwinds from a panic of its
        // own (a guard that flushes one last frame): it runs like any other dispatch
        let in_unwind = panicking.is_empty() && !cfg.panics && !Op::has_tl_in_batch(ops, false) && rng.chance(if cfg.force_overlap { 35 } else { 12 });
        struct OnDrop<F: FnMut()>(F);
        impl<F: FnMut()> Drop for OnDrop<F> {
            fn drop(&mut self) {
                (self.0)()
            }
        }
        shared.caller_unwinding.store(in_unwind, SeqCst);
        let res = catch_unwind(AssertUnwindSafe(|| {
            let mut go = || match mode.as_str() {
            "seq" => {
                disp.dispatch_seq(&world);
                disp.dispatch_thread_local(&world);
            }
            #[cfg(feature = "parallel")]
            "paronly" => disp.dispatch_par(&world),
            "seqonly" => disp.dispatch_seq(&world),
            "tlonly" => disp.dispatch_thread_local(&world),
            _ if via_run_now => disp.run_now(&world),
            _ => disp.dispatch(&world),
            };
            if in_unwind {
                let _g = OnDrop(go);
                panic!("harness: the caller unwinds");
            } else {
                go()
            }
        }));
        shared.caller_unwinding.store(false, SeqCst);
        let res = match res {
            Err(p) if in_unwind && panic_message(&p) == "harness: the caller unwinds" => Ok(()),
            Ok(()) if in_unwind => unreachable!(),
            r => r,
        };
        if in_unwind {
            out.unwinding_dispatches += 1;
        }
        let held_outside = outer_guard.is_some();
        drop(outer_guard);
        let log = shared.take_log();
        out.traces += 1;
        out.events += log.len() as u64;
        out.max_inside = out.max_inside.max(shared.max_inside.load(SeqCst));
        if out.sample_log.is_empty() && log.len() >= 6 {
            out.sample_log = log.iter().map(|e| format!("{}{}@{}", e.kind, e.inst_str(), e.th)).collect::<Vec<_>>().join(" ");
        }
        // --- implementation-side oracles
        let (wv, facts) = window_oracles(&log, &built, &lay, &mode);
        out.overlaps += facts.overlaps_seen as u64;
        out.impl_v.extend(wv);
        match (&res, panicking.is_empty()) {
            (Err(p), true) => {
                let m = panic_message(p);
                let prop = if m.contains("already") && m.contains("borrowed") && !m.starts_with("harness panic") { "C01" } else { "C14" };
                out.impl_v.push((prop.into(), format!("dispatch ({}) panicked although no system was told to: {}", mode, m)));
                if prop == "C01" && Op::depth(ops) > 0 {
                    out.impl_v.push(("C07".into(), format!("borrow-conflict panic during dispatch: {}", m)));
                }
            }
            (Ok(()), false) => {
                // a panicking system that never started (ordered after another panicking one) is fine
                let started = |t: &usize| log.iter().any(|e| e.kind == 'F' && e.inst.last() == Some(t));
                if panicking.iter().any(started) {
                    out.impl_v.push(("C14".into(), format!("systems {:?} panicked but dispatch ({}) returned normally", panicking, mode)));
                }
            }
            (Err(p), false) => {
                let m = panic_message(p);
                let rd = shared.round.load(SeqCst);
                let ok = panicking.iter().any(|t| m == format!("harness panic (run) {} #{}", t, rd) || m == format!("harness panic (fetch) {} #{}", t, rd) || m == format!("harness panic (typed) {} #{}", t, rd) || m == format!("harness panic (like-borrow) {} #{}: already borrowed", t, rd));
                let ok = ok || (held_outside && m.contains("borrowed") && !m.starts_with("harness panic"));
                if !ok {
                    out.impl_v.push(("C14".into(), format!("the panic that reached the caller carries {:?}, not the payload of a panicking system ({:?})", m, panicking)));
                }
            }
            _ => {}
        }
        // counts
        let staged_runs = matches!(mode.as_str(), "par" | "seq" | "paronly" | "seqonly");
        let tl_runs = matches!(mode.as_str(), "par" | "seq" | "tlonly");
        let mut want = BTreeMap::new();
        expected_counts(None, 1, staged_runs, tl_runs, &built, &lay, &mut want, &ns);
        let mut fcount: BTreeMap<usize, u64> = BTreeMap::new();
        let mut inst_f: BTreeMap<Vec<usize>, u64> = BTreeMap::new();
        for e in &log {
            if e.kind == 'F' {
                *fcount.entry(*e.inst.last().unwrap()).or_insert(0) += 1;
                *inst_f.entry(e.inst.clone()).or_insert(0) += 1;
            }
        }
        for (i, c) in &inst_f {
            if *c > 1 {
                out.impl_v.push(("C04".into(), format!("instance {:?} ran {} times in one dispatch", i, c)));
                out.impl_v.push(("C14".into(), format!("instance {:?} ran {} times in one dispatch", i, c)));
            }
        }
        if panicking.is_empty() {
            for (t, w) in &want {
                let got = *fcount.get(t).unwrap_or(&0);
                if got != *w {
                    out.impl_v.push(("C04".into(), format!("mode {}: system {} ran {} times, expected {}", mode, t, got, w)));
                    if cfg.panics {
                        out.impl_v.push(("C14".into(), format!("mode {}: in the dispatch after a caught panic system {} ran {} times, expected {}", mode, t, got, w)));
                    }
                    if res.is_ok() && built.infos.get(t).map(|i| i.parent.is_some()).unwrap_or(false) {
                        out.impl_v.push(("C07".into(), format!("mode {}: system {} inside a batch ran {} times in one dispatch, expected {} (once per inner dispatch)", mode, t, got, w)));
                    }
                    if res.is_ok() && built.infos.get(t).map(|i| i.is_tl).unwrap_or(false) {
                        out.impl_v.push(("C12".into(), format!("mode {}: thread-local system {} ran {} times in one dispatch, expected {}", mode, t, got, w)));
                    }
                }
                let runs = shared.behav[*t].runs.load(SeqCst);
                if runs != *w {
                    out.impl_v.push(("C04".into(), format!("mode {}: run counter of system {} is {}, expected {}", mode, t, runs, w)));
                }
            }
        } else {
            // C14: nothing ordered after an unwound system starts; nothing left borrowed
            let unwound: Vec<usize> = log.iter().filter(|e| e.kind == 'P').map(|e| *e.inst.last().unwrap()).collect();
            for a in &unwound {
                for b in ordered_after(*a, &built, &|k| sub_layout(&lay, k)) {
                    // same enclosing instance only: compare prefixes
                    for e in &log {
                        if e.kind == 'F' && e.inst.last() == Some(&b) {
                            let pa = log.iter().find(|x| x.kind == 'P' && x.inst.last() == Some(a)).unwrap();
                            if pa.inst[..pa.inst.len() - 1] == e.inst[..e.inst.len() - 1] {
                                let ia = log.iter().position(|x| x == pa).unwrap();
                                let ib = log.iter().position(|x| x == e).unwrap();
                                if ib > ia {
                                    out.impl_v.push(("C14".into(), format!("system {} started after {} (ordered before it) was unwound by a panic", b, a)));
                                }
                            }
                        }
                    }
                }
            }
            let probe = borrow_probe(&world);
            if probe.chars().any(|c| c != 'f') {
                out.impl_v.push(("C14".into(), format!("after the caught panic the world's cells are {:?} (not all free)", probe)));
            }
        }
        // --- the model: acceptor
        if let Some(d) = drv.as_deref_mut() {
            d.ask(&format!("trace-begin {}", mode));
            let mut rejected = false;
            for (k, e) in log.iter().enumerate() {
                let a = d.ask(&format!("ev {} {} {}", e.kind, e.inst_str(), e.th));
                if a.starts_with("reject") || a == "bad-op" {
                    out.model_v.push(("trace".into(), format!("mode {}: event {} ({}{}) is not possible in the model's task: {}; log: {}", mode, k, e.kind, e.inst_str(), a, log.iter().map(|e| format!("{}{}", e.kind, e.inst_str())).collect::<Vec<_>>().join(" "))));
                    rejected = true;
                    break;
                } else if a.starts_with("thread") {
                    let inner_tl = built.infos.get(e.inst.last().unwrap()).map(|i| i.is_tl && i.parent.is_some()).unwrap_or(false);
                    let _ = inner_tl;
                    out.model_v.push(("thread".into(), format!("mode {}: {}", mode, a)));
                }
            }
            if !rejected {
                let a = d.ask("trace-end");
                let want = if res.is_err() { "accept panicked" } else { "accept ok" };
                if a != want {
                    out.model_v.push(("trace".into(), format!("mode {}: at the end of the log the model says `{}`, the real dispatch {}; log: {}", mode, a, if res.is_err() { "panicked" } else { "returned" }, log.iter().map(|e| format!("{}{}", e.kind, e.inst_str())).collect::<Vec<_>>().join(" "))));
                }
            }
        }
        if panicking.is_empty() && (mode == "par" || mode == "seq") && !cfg.panics && !cfg.partial_modes {
            full_rounds += 1;
            shared2.set_caller();
            let r2 = catch_unwind(AssertUnwindSafe(|| {
                disp2.dispatch_seq(&world2);
                disp2.dispatch_thread_local(&world2);
            }));
            if r2.is_err() {
                out.impl_v.push(("C05".into(), "sequential twin dispatch panicked".into()));
            }
            shared2.take_log();
            // C05 oracle: world and per-system state equal to the sequential twin's
            let (w1, w2) = (world_values(&world), world_values(&world2));
            if w1 != w2 {
                let diff: Vec<_> = w1.iter().zip(w2.iter()).filter(|(a, b)| a != b).take(3).collect();
                out.impl_v.push(("C05".into(), format!("after {} dispatches the world differs from the sequentially dispatched twin: {:?}", full_rounds, diff)));
            }
            for t in &all_tags {
                let (a, b) = (&shared.behav[*t], &shared2.behav[*t]);
                if a.counter.load(SeqCst) != b.counter.load(SeqCst) || a.seen.load(SeqCst) != b.seen.load(SeqCst) {
                    out.impl_v.push(("C05".into(), format!("after {} dispatches the state of system {} differs from its sequentially dispatched twin", full_rounds, t)));
                }
            }
        }
    }
    // --- the model: effects of `full_rounds` sequential dispatches
    if full_rounds > 0 && !cfg.panics && !cfg.partial_modes {
        if let Some(d) = drv.as_deref_mut() {
            let a = d.ask(&format!("effects {}", full_rounds));
            let real_w = world_values(&world).iter().map(|((t, y), v)| format!("{}.{}={}", t, y, v)).collect::<Vec<_>>().join(",");
            let model_w = a.split_whitespace().nth(1).unwrap_or("").to_string();
            if real_w != model_w {
                out.model_v.push(("effects".into(), format!("world after {} dispatches: real {} model {}", full_rounds, real_w, model_w)));
            }
            let model_l = a.split_whitespace().nth(3).unwrap_or("-").to_string();
            let mut ml: BTreeMap<usize, (u64, u64)> = BTreeMap::new();
            if model_l != "-" {
                for p in model_l.split(',') {
                    let f: Vec<&str> = p.split(':').collect();
                    if f.len() == 3 {
                        ml.insert(f[0].parse().unwrap_or(0), (f[1].parse().unwrap_or(0), f[2].parse().unwrap_or(0)));
                    }
                }
            }
            for t in &all_tags {
                if built.infos[t].is_batch {
                    continue;
                }
                let b = &shared.behav[*t];
                let real = (b.counter.load(SeqCst), b.seen.load(SeqCst));
                let model = *ml.get(t).unwrap_or(&(0, 0));
                if real != model {
                    out.model_v.push(("effects".into(), format!("state of system {} after {} dispatches: real {:?} model {:?}", t, full_rounds, real, model)));
                }
            }
        }
    }
    // --- the plan of a built dispatcher is fixed: after all these dispatches (pools narrower than
    // its stages included) the same systems sit at the same places
    if !cfg.panics {
        if let AnyDisp::D(d) = &mut disp {
            shared.reset_behaviour();
            match identify(d, &shared, &built) {
                Ok(l2) => {
                    if l2.show() != lay.show() {
                        out.impl_v.push(("C19".into(), format!("after {} dispatches the built dispatcher's plan is {} — it was {} when it was built", out.traces, l2.show(), lay.show())));
                    }
                }
                Err(e) => out.impl_v.push(("C19".into(), format!("after {} dispatches the plan can no longer be identified: {}", out.traces, e))),
            }
        }
    }
    out
}

pub fn run(args: &Args, rep: &mut Report) {
    let seed = args.num("seed", 1);
    let cases = args.num("cases", 60);
    let profiles: Vec<String> = args.str("profiles", "flat,base,batch,tl").split(',').map(|s| s.to_string()).collect();
    let mut cfg = TraceCfg { rounds: args.num("rounds", 3), panics: args.flag("panics"), partial_modes: args.flag("partial-modes"), long_holds: args.flag("long-holds"), force_overlap: false };
    let prop = args.str("prop", "");
    let kf1_props = ["C01", "C07", "C12"];
    let mut drv = Drv::spawn(&args.str("driver", "/verif/lean/.lake/build/bin/driver"));
    let sizes: Vec<usize> = args.str("pools", "1,2,3,4,8,16").split(',').filter_map(|s| s.parse().ok()).collect();
    let pools: Vec<Pool> = sizes.iter().map(|&n| make_pool(n)).collect();
    rep.rule = "real dispatches (dispatch / dispatch_seq / dispatch_par / dispatch_thread_local, pools 1-16, forced overlap, random holds, optionally injected panics) of generated plans; distinct = distinct executed layouts; non-trivial = at least two stages, a joined group or a batch; every event log is checked by the implementation-side oracles and by the Lean acceptor".into();
    let mut todo: Vec<(String, Vec<Op>, u64)> = vec![];
    if let Some(f) = args.get("replay") {
        let text = std::fs::read_to_string(&f).expect("replay file");
        let lines: Vec<String> = text.lines().map(|s| s.to_string()).collect();
        for k in 0..8 {
            todo.push((format!("replay:{}", f), Op::parse(&lines), k));
        }
    }
    if let Some(dir) = args.get("corpus") {
        if let Ok(rd) = std::fs::read_dir(&dir) {
            let mut files: Vec<_> = rd.filter_map(|e| e.ok()).map(|e| e.path()).filter(|p| p.extension().map(|x| x == "case").unwrap_or(false)).collect();
            files.sort();
            for f in files {
                let text = std::fs::read_to_string(&f).unwrap_or_default();
                let lines: Vec<String> = text.lines().filter(|l| !l.starts_with('#')).map(|s| s.to_string()).collect();
                let ops = Op::parse(&lines);
                // inputs of the open finding KF1 are replayed only for the properties it is recorded for
                if Op::has_tl_in_batch(&ops, false) && !kf1_props.contains(&prop.as_str()) {
                    continue;
                }
                for k in 0..3 {
                    todo.push((format!("corpus:{}", f.display()), ops.clone(), 1000 + k));
                }
                rep.count("corpus_cases");
            }
        }
    }
    if args.get("replay").is_none() {
        for c in 0..cases {
            let prof = &profiles[(c as usize) % profiles.len()];
            let mut cfgg = GenCfg::profile(prof);
            cfgg.max_n = args.num("max-n", 10);
            cfgg.max_batch_n = 2;
            let mut g = Gen::new(Rng::new(seed, c), cfgg);
            todo.push((format!("gen:{}:{}:{}", prof, seed, c), g.case(), c));
        }
    }
    let mut reported: std::collections::BTreeSet<String> = Default::default();
    for (label, ops, stream) in todo {
        mark_current(&case_lines(&ops));
        drv.begin_case();
        let mut rng = Rng::new(seed ^ 0x7ace, stream);
        cfg.force_overlap = label.starts_with("corpus:") || label.starts_with("replay:");
        let o = eval_case(&ops, Some(&mut drv), &pools, &mut rng, &cfg);
        rep.case(&o.layout, o.nontrivial);
        rep.traces_validated += o.traces;
        rep.add("events", o.events);
        rep.add("dispatches", o.traces);
        rep.add("overlapping_window_pairs_observed", o.overlaps);
        rep.add("cases_dispatched_through_send_dispatcher", o.sendable);
        rep.add("panics_injected", o.panics_injected);
        rep.add("dispatches_issued_while_the_caller_unwinds", o.unwinding_dispatches);
        if o.max_inside > 1 {
            rep.count("cases_with_real_overlap");
        }
        rep.maxi("max_systems_inside_run_at_once", o.max_inside as u64);
        rep.add("registrations", Op::count(&ops) as u64);
        rep.maxi("max_batch_depth", Op::depth(&ops) as u64);
        if rep.samples.len() < 2 && o.nontrivial && !o.sample_log.is_empty() {
            rep.sample(Json::obj(vec![("case", Json::Arr(case_lines(&ops).into_iter().map(Json::s).collect())), ("executed_layout", Json::s(o.layout.clone())), ("event_log_of_one_dispatch", Json::s(o.sample_log.clone()))]));
        }
        let kf1 = Op::has_tl_in_batch(&ops, false);
        for (p, what) in &o.impl_v {
            let is_thread = p == "KF1";
            let p = if is_thread { "C12".to_string() } else { p.clone() };
            // which manifestation of the open finding KF1 (if any) this is: a thread-local system of
            // a batch on a worker thread, or its undeclared access overlapping / colliding with an
            // outer system. Anything else on such an input is reported as an ordinary violation.
            let overlap = what.contains("inside its window") || what.contains("conflicting windows") || what.contains("borrow-conflict") || what.contains("already");
            let kind = if is_thread { "thread" } else if overlap { "overlap" } else { "other" };
            let k = format!("impl:{}:{}:{}", p, kf1, kind);
            if reported.insert(k) {
                let pp = p.clone();
                let small = shrink(&ops, &mut |c: &[Op]| {
                    (0..2).any(|j| {
                        let mut r = Rng::new(seed ^ 0x7ace, stream + j);
                        let o2 = eval_case(c, None, &pools, &mut r, &cfg);
                        o2.impl_v.iter().any(|(q, w2)| {
                            let ov2 = w2.contains("inside its window") || w2.contains("conflicting windows") || w2.contains("borrow-conflict") || w2.contains("already");
                            (*q == pp && !is_thread && ov2 == overlap) || (is_thread && q == "KF1")
                        })
                    })
                });
                let cls = if Op::has_tl_in_batch(&small, false) && kind != "other" { format!("kf1:{}", kind) } else { String::new() };
                rep.violate(&p, "impl", &cls, format!("{} [{}; layout {}]", what, label, o.layout), case_lines(&small));
            }
        }
        for (aspect, what) in &o.model_v {
            if kf1 && aspect == "thread" && !kf1_props.contains(&prop.as_str()) {
                // the thread a batch's thread-local system runs on is the open finding KF1 (C12)
                continue;
            }
            if reported.insert(format!("model:{}:{}", aspect, kf1)) {
                let cls = if kf1 && matches!(aspect.as_str(), "trace" | "effects" | "thread") { "kf1:model" } else { "" };
                rep.violate(&format!("MODEL:{}", aspect), "model", cls, format!("{} [{}; layout {}]", what, label, o.layout), case_lines(&ops));
            }
        }
    }
    rep.add("driver_requests", drv.requests);
    if args.flag("partial-modes") && args.get("replay").is_none() {
        multi_dispatch_check(seed, cases.max(20), rep);
    }
}

/// `MultiDispatcher` (batch.rs): a batch whose controller plans `n` inner dispatches. Counting
/// oracle only (C04: systems inside the batch — thread-local ones included — run exactly the
/// planned number of times per outer dispatch); the library's controller emits no events, so
/// these runs are not fed to the acceptor.
pub fn multi_dispatch_check(seed: u64, cases: u64, rep: &mut Report) {
    struct Plan(usize);
    impl<'a> MultiDispatchController<'a> for Plan {
        type SystemData = ();
        fn plan(&mut self, _: ()) -> usize {
            self.0
        }
    }
    let pool = make_pool(3);
    for c in 0..cases {
        let mut rng = Rng::new(seed ^ 0x3a17, c);
        let n = rng.below(5) as usize;
        let k_inner = 1 + rng.below(4) as usize;
        let k_tl = rng.below(3) as usize;
        let k_outer = rng.below(3) as usize;
        let total = k_inner + k_tl + k_outer + 1;
        let shared = Shared::new(total);
        let mk = |tag: usize, w: Vec<Res>| HSys { acc: Acc { tag, decl_r: vec![], decl_w: w, shared: shared.clone(), path: vec![], borrow: false }, time: rt(1 + (tag % 5) as u8) };
        let mut inner: Builder = DispatcherBuilder::new();
        let mut tag = 0;
        for i in 0..k_inner {
            inner.add(mk(tag, vec![((i % 3) as u8, 0)]), &format!("i{}", tag), &[]);
            tag += 1;
        }
        let tl_first = tag;
        for _ in 0..k_tl {
            inner.add_thread_local(mk(tag, vec![]));
            tag += 1;
        }
        let outer_first = tag;
        let mut b = new_builder(&pool);
        for _ in 0..k_outer {
            b.add(mk(tag, vec![(4, 0)]), &format!("o{}", tag), &[]);
            tag += 1;
        }
        b.add_batch(MultiDispatcher::new(Plan(n)), inner, "multi", &[]);
        let mut d = b.build();
        let w = full_world();
        let dispatches = 1 + rng.below(3);
        let mut ok = true;
        for _ in 0..dispatches {
            if catch_unwind(AssertUnwindSafe(|| d.dispatch(&w))).is_err() {
                ok = false;
            }
        }
        shared.take_log();
        let line = format!("multi n={} inner={} tl={} outer={} dispatches={}", n, k_inner, k_tl, k_outer, dispatches);
        rep.count("multi_dispatcher_cases");
        if !ok {
            rep.violate("C04", "impl", if k_tl > 0 { "kf1" } else { "" }, format!("{}: dispatch panicked", line), vec![line.clone()]);
            continue;
        }
        for t in 0..outer_first {
            let runs = shared.behav[t].runs.load(SeqCst);
            let want = dispatches * n as u64;
            if runs != want {
                let kind = if t >= tl_first { "thread-local system" } else { "system" };
                rep.violate("C04", "impl", "", format!("{}: {} {} inside the multi-dispatch batch ran {} times, planned {}", line, kind, t, runs, want), vec![line.clone()]);
                break;
            }
        }
        for t in outer_first..tag {
            let runs = shared.behav[t].runs.load(SeqCst);
            if runs != dispatches {
                rep.violate("C04", "impl", "", format!("{}: outer system {} ran {} times in {} dispatches", line, t, runs, dispatches), vec![line.clone()]);
                break;
            }
        }
    }
    // a plan beyond 16 bits: exactly the planned number of inner dispatches (one counting system inside)
    {
        use std::sync::{atomic::AtomicU64, Arc};
        struct Count(Arc<AtomicU64>);
        impl<'a> System<'a> for Count {
            type SystemData = ();
            fn run(&mut self, _: ()) {
                self.0.fetch_add(1, SeqCst);
            }
            fn running_time(&self) -> RunningTime {
                RunningTime::VeryShort
            }
        }
        let n = 65_536 + Rng::new(seed ^ 0xb16, 0).below(700) as usize;
        let c = Arc::new(AtomicU64::new(0));
        let mut inner: Builder = DispatcherBuilder::new();
        inner.add(Count(c.clone()), "count", &[]);
        let mut b = new_builder(&make_pool(1));
        b.add_batch(MultiDispatcher::new(Plan(n)), inner, "multi", &[]);
        let mut d = b.build();
        let w = full_world();
        let t0 = std::time::Instant::now();
        let ok = catch_unwind(AssertUnwindSafe(|| d.dispatch(&w))).is_ok();
        rep.add("big_plan_ms", t0.elapsed().as_millis() as u64);
        rep.count("multi_dispatcher_cases");
        let line = format!("multi n={} inner=1 tl=0 outer=0 dispatches=1", n);
        let runs = c.load(SeqCst);
        if !ok || runs != n as u64 {
            rep.violate("C04", "impl", "", format!("{}: the system inside the multi-dispatch batch ran {} times, planned {}{}", line, runs, n, if ok { "" } else { " (the dispatch panicked)" }), vec![line]);
        }
    }
}
