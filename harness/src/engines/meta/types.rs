//! The implementing types of the meta engine and their `CastFrom` implementations.
//!
//! 40 world types (tags 0..=39) + 4 auxiliary implementors that never enter the world
//! (tags 40..=43: what wrong casts point at). Every kind of implementor — zero-sized, sized,
//! with and without `Drop`, alignments 1..64, generic — comes with the lawful cast and with wrong
//! casts of several shapes (see `Shape`). What a cast does is declared in `TYPES` (and sent to the
//! model as the argument of `meta new`); `table_selfcheck` verifies the declaration against the
//! casts themselves, without involving `MetaTable`.
use shred::{CastFrom, Resource};
use std::any::TypeId;
use std::collections::HashMap;
use std::sync::atomic::{AtomicBool, AtomicI64, Ordering};
use std::sync::{Mutex, OnceLock};

/// `tag` and `addr` never read `*self`: they stay harmless when a vtable was attached to the
/// wrong value (which is exactly what the oracles must be able to report).
pub trait Obj {
    fn tag(&self) -> u32;
    fn addr(&self) -> usize;
    fn stamp(&self) -> u64;
    fn bump(&mut self);
}

/// the second trait-object type a table is built for: a trait with a supertrait and auto-trait
/// supertraits; everything goes through the supertrait part of its vtable (upcast `&dyn Sub` ->
/// `&dyn Obj`) plus one method of its own
pub trait Sub: Obj + Send + Sync {
    fn sub_tag(&self) -> u32;
}
impl<T: Obj + Send + Sync> Sub for T {
    fn sub_tag(&self) -> u32 {
        self.tag() + 1000
    }
}

/// fat pointers to one wrong target, for both trait-object types
pub type Both = (*mut dyn Obj, *mut dyn Sub);
fn both<X: Obj + Send + Sync + 'static>(p: *mut X) -> Both {
    (p as *mut dyn Obj, p as *mut dyn Sub)
}

/// every type that goes into the world
pub trait Val: Resource + Sized {
    const TAG: u32;
    fn make(stamp: u64) -> Self;
    fn stamp_of(&self) -> u64;
    /// what this type's `CastFrom` returns instead of the pointer it was given (`None`: it is
    /// lawful right now)
    fn wrong(_t: *mut Self) -> Option<Both> {
        None
    }
}
/// the implementors of the traits
pub trait Imp: Val + Obj + Send + Sync + 'static {}
impl<T: Val + Obj + Send + Sync + 'static> Imp for T {}

unsafe impl<T: Imp> CastFrom<T> for dyn Obj {
    fn cast(t: *mut T) -> *mut Self {
        match T::wrong(t) {
            None => t,
            Some((o, _)) => o,
        }
    }
}
unsafe impl<T: Imp> CastFrom<T> for dyn Sub {
    fn cast(t: *mut T) -> *mut Self {
        match T::wrong(t) {
            None => t,
            Some((_, s)) => s,
        }
    }
}

/// the switch the `Switch` casts look at (user-side state: a cast that is right at first and
/// wrong later)
pub static ARMED: AtomicBool = AtomicBool::new(false);
pub fn arm(b: bool) {
    ARMED.store(b, Ordering::SeqCst);
}
fn armed() -> bool {
    ARMED.load(Ordering::SeqCst)
}

/// values of types with `Drop` alive right now
pub static LIVE: AtomicI64 = AtomicI64::new(0);
pub fn live() -> i64 {
    LIVE.load(Ordering::SeqCst)
}
fn born() {
    LIVE.fetch_add(1, Ordering::SeqCst);
}
fn died() {
    LIVE.fetch_sub(1, Ordering::SeqCst);
}

// ---------------------------------------------------------------------------------------------
// wrong targets

/// `t` moved by a multiple of the alignment (at least 8 bytes): still a `T`-typed pointer
fn offset<T>(t: *mut T) -> *mut T {
    let off = std::mem::align_of::<T>().max(8);
    t.cast::<u8>().wrapping_add(off).cast::<T>()
}

/// a different, leaked object of the same type (one per type)
fn twin<T: Val>() -> *mut T {
    static TWINS: OnceLock<Mutex<HashMap<TypeId, usize>>> = OnceLock::new();
    let mut m = TWINS.get_or_init(Default::default).lock().unwrap_or_else(|e| e.into_inner());
    *m.entry(TypeId::of::<T>()).or_insert_with(|| Box::into_raw(Box::new(T::make(55))) as usize) as *mut T
}

/// a leaked object of another type
fn decoy() -> *mut Decoy {
    static D: OnceLock<usize> = OnceLock::new();
    *D.get_or_init(|| Box::into_raw(Box::new(Decoy { _pad: [0xDEC0; 3], s: 99 })) as usize) as *mut Decoy
}
/// a zero-sized object of another type where every boxed zero-sized value of alignment 1 lives
fn decoy_z() -> *mut DecoyZ {
    std::ptr::NonNull::<DecoyZ>::dangling().as_ptr()
}

// ---------------------------------------------------------------------------------------------
// the types

macro_rules! obj_for {
    (<$($g:ident : $b:path),*> $t:ty, $tag:expr, |$me:ident| $get:expr, |$me2:ident| $bump:expr) => {
        impl<$($g: $b),*> Obj for $t {
            fn tag(&self) -> u32 {
                $tag
            }
            fn addr(&self) -> usize {
                self as *const Self as *const () as usize
            }
            fn stamp(&self) -> u64 {
                let $me = self;
                $get
            }
            fn bump(&mut self) {
                let $me2 = self;
                $bump
            }
        }
    };
}

/// a type with a stamp field `s` of integer type `$int`
macro_rules! sized {
    ($t:ident, $tag:expr, $int:ty, |$s:ident| $mk:expr $(, wrong |$p:ident| $w:expr)?) => {
        impl Val for $t {
            const TAG: u32 = $tag;
            fn make(stamp: u64) -> Self {
                let $s = stamp as $int;
                $mk
            }
            fn stamp_of(&self) -> u64 {
                self.s as u64
            }
            $(fn wrong($p: *mut Self) -> Option<Both> {
                $w
            })?
        }
        obj_for!(<> $t, $tag, |me| me.s as u64, |me| me.s += 1);
    };
}
/// a zero-sized type
macro_rules! zst {
    ($t:ident, $tag:expr, $mk:expr $(, wrong |$p:ident| $w:expr)?) => {
        impl Val for $t {
            const TAG: u32 = $tag;
            fn make(_: u64) -> Self {
                $mk
            }
            fn stamp_of(&self) -> u64 {
                0
            }
            $(fn wrong($p: *mut Self) -> Option<Both> {
                $w
            })?
        }
        obj_for!(<> $t, $tag, |_me| 0, |_me| ());
    };
}
macro_rules! dropping {
    ($t:ident) => {
        impl Drop for $t {
            fn drop(&mut self) {
                died();
            }
        }
    };
}

// --- 0..=8: the original nine
pub struct Zst; // 0: zero-sized
pub struct Byte {
    s: u8,
} // 1
pub struct Half {
    s: u16,
} // 2
pub struct Word {
    s: u64,
} // 3
pub struct Mid {
    _a: u32,
    s: u64,
    _b: [u16; 11],
} // 4
pub struct Big {
    _head: [u64; 200],
    s: u64,
    _tail: [u64; 311],
} // 5: 4 KiB
#[repr(align(64))]
pub struct Aligned {
    s: u64,
} // 6
pub struct Evil {
    s: u64,
    _x: [u8; 16],
} // 7: wrong CastFrom (offset)
pub struct Plain(u64); // 8: a resource that does not implement the trait at all

zst!(Zst, 0, Zst);
sized!(Byte, 1, u8, |s| Byte { s });
sized!(Half, 2, u16, |s| Half { s });
sized!(Word, 3, u64, |s| Word { s });
sized!(Mid, 4, u64, |s| Mid { _a: 0xAAAA_AAAA, s, _b: [0xBBBB; 11] });
sized!(Big, 5, u64, |s| Big { _head: [0x1111; 200], s, _tail: [0x2222; 311] });
sized!(Aligned, 6, u64, |s| Aligned { s });
sized!(Evil, 7, u64, |s| Evil { s, _x: [7; 16] }, wrong |t| Some(both(offset(t))));
impl Val for Plain {
    const TAG: u32 = 8;
    fn make(s: u64) -> Self {
        Plain(s)
    }
    fn stamp_of(&self) -> u64 {
        self.0
    }
}

// --- 9..=16: more kinds of implementor, lawful casts
#[repr(align(64))]
pub struct ZstA64; // 9: zero-sized, alignment 64 (its boxes live at address 64)
pub struct ZstDrop; // 10: zero-sized with Drop
pub struct DropW {
    s: u64,
} // 11: sized with Drop
#[repr(C, packed)]
pub struct Packed {
    _a: u8,
    s: u64,
} // 12: 9 bytes, alignment 1
/// payload of the generic implementors
pub trait Pay: Send + Sync + 'static {
    fn mk(s: u64) -> Self;
    fn get(&self) -> u64;
    fn inc(&mut self);
}
impl Pay for u8 {
    fn mk(s: u64) -> Self {
        s as u8
    }
    fn get(&self) -> u64 {
        *self as u64
    }
    fn inc(&mut self) {
        *self += 1
    }
}
impl Pay for [u64; 4] {
    fn mk(s: u64) -> Self {
        [0x6161, s, 0x6262, 0x6363]
    }
    fn get(&self) -> u64 {
        self[1]
    }
    fn inc(&mut self) {
        self[1] += 1
    }
}
impl Pay for () {
    fn mk(_: u64) -> Self {}
    fn get(&self) -> u64 {
        0
    }
    fn inc(&mut self) {}
}
impl Pay for Vec<u64> {
    fn mk(s: u64) -> Self {
        vec![0x7171, 0x7272, s]
    }
    fn get(&self) -> u64 {
        self[2]
    }
    fn inc(&mut self) {
        self[2] += 1
    }
}
/// 13..=16, 21, 25, 36: generic implementor; `SHAPE` selects the cast (0 lawful, 1 offset, 2 twin,
/// 5 decoy)
pub struct Gen<P: Pay, const SHAPE: u8>(P);
pub trait GenTag {
    const T: u32;
}
macro_rules! gen {
    ($p:ty, $shape:expr, $tag:expr) => {
        impl GenTag for Gen<$p, $shape> {
            const T: u32 = $tag;
        }
    };
}
gen!(u8, 0, 13);
gen!([u64; 4], 0, 14);
gen!((), 0, 15);
gen!(Vec<u64>, 0, 16);
gen!(u8, 1, 21);
gen!([u64; 4], 2, 25);
gen!(u8, 5, 36);
impl<P: Pay, const SHAPE: u8> Val for Gen<P, SHAPE>
where
    Gen<P, SHAPE>: GenTag,
{
    const TAG: u32 = <Self as GenTag>::T;
    fn make(stamp: u64) -> Self {
        Gen(P::mk(stamp))
    }
    fn stamp_of(&self) -> u64 {
        self.0.get()
    }
    fn wrong(t: *mut Self) -> Option<Both> {
        match SHAPE {
            0 => None,
            1 => Some(both(offset(t))),
            2 => Some(both(twin::<Self>())),
            _ => Some(both(decoy())),
        }
    }
}
impl<P: Pay, const SHAPE: u8> Obj for Gen<P, SHAPE>
where
    Gen<P, SHAPE>: GenTag,
{
    fn tag(&self) -> u32 {
        <Self as GenTag>::T
    }
    fn addr(&self) -> usize {
        self as *const Self as *const () as usize
    }
    fn stamp(&self) -> u64 {
        self.0.get()
    }
    fn bump(&mut self) {
        self.0.inc()
    }
}
pub type GenU8 = Gen<u8, 0>;
pub type GenArr = Gen<[u64; 4], 0>;
pub type GenUnit = Gen<(), 0>;
pub type GenVec = Gen<Vec<u64>, 0>;
pub type GenU8Off = Gen<u8, 1>;
pub type GenArrTwin = Gen<[u64; 4], 2>;
pub type GenU8Decoy = Gen<u8, 5>;

zst!(ZstA64, 9, ZstA64);
zst!(ZstDrop, 10, {
    born();
    ZstDrop
});
dropping!(ZstDrop);
sized!(DropW, 11, u64, |s| {
    born();
    DropW { s }
});
dropping!(DropW);
impl Val for Packed {
    const TAG: u32 = 12;
    fn make(stamp: u64) -> Self {
        Packed { _a: 0xCC, s: stamp }
    }
    fn stamp_of(&self) -> u64 {
        self.s
    }
}
obj_for!(<> Packed, 12, |me| me.s, |me| me.s += 1);

// --- 17..=21: offset casts
pub struct ZstOff; // 17
pub struct BigOff {
    _head: [u64; 200],
    s: u64,
    _tail: [u64; 311],
} // 18: the moved pointer still points into the object
#[repr(align(64))]
pub struct Al64Off {
    s: u64,
} // 19
pub struct DropOff {
    s: u64,
} // 20
zst!(ZstOff, 17, ZstOff, wrong |t| Some(both(offset(t))));
sized!(BigOff, 18, u64, |s| BigOff { _head: [0x3333; 200], s, _tail: [0x4444; 311] }, wrong |t| Some(both(offset(t))));
sized!(Al64Off, 19, u64, |s| Al64Off { s }, wrong |t| Some(both(offset(t))));
sized!(DropOff, 20, u64, |s| {
    born();
    DropOff { s }
}, wrong |t| Some(both(offset(t))));
dropping!(DropOff);

// --- 22..=25: a different object of the same type
pub struct ZstTwin; // 22: every boxed ZstTwin lives at the same (dangling) address: not a change
pub struct WordTwin {
    s: u64,
} // 23
pub struct DropTwin {
    s: u64,
} // 24
zst!(ZstTwin, 22, ZstTwin, wrong |_t| Some(both(twin::<ZstTwin>())));
sized!(WordTwin, 23, u64, |s| WordTwin { s }, wrong |_t| Some(both(twin::<WordTwin>())));
sized!(DropTwin, 24, u64, |s| {
    born();
    DropTwin { s }
}, wrong |_t| Some(both(twin::<DropTwin>())));
dropping!(DropTwin);

// --- 26, 27: a static of the same type
pub struct ZstStat; // 26
pub struct WordStat {
    s: u64,
} // 27
static ZST_STATIC: ZstStat = ZstStat;
static WORD_STATIC: WordStat = WordStat { s: 31 };
zst!(ZstStat, 26, ZstStat, wrong |_t| Some(both(&ZST_STATIC as *const ZstStat as *mut ZstStat)));
sized!(WordStat, 27, u64, |s| WordStat { s }, wrong |_t| Some(both(&WORD_STATIC as *const WordStat as *mut WordStat)));

// --- 28..=31: a field
pub struct Inner {
    s: u64,
} // 40 (never in the world)
pub struct InnerZ; // 43
#[repr(C)]
pub struct Field0 {
    inner: Inner,
    s: u64,
} // 28: the field is at offset 0 — same address, the field's vtable
#[repr(C)]
pub struct FieldN {
    s: u64,
    inner: Inner,
} // 29: the field is at offset 8
pub struct ZstField {
    inner: InnerZ,
} // 30: zero-sized, zero-sized field at the same address
#[repr(C)]
pub struct DropField0 {
    inner: Inner,
    s: u64,
} // 31
obj_for!(<> Inner, 40, |me| me.s, |me| me.s += 1);
obj_for!(<> InnerZ, 43, |_me| 0, |_me| ());
sized!(Field0, 28, u64, |s| Field0 { inner: Inner { s: 4040 }, s }, wrong |t| Some(both(unsafe { std::ptr::addr_of_mut!((*t).inner) })));
sized!(FieldN, 29, u64, |s| FieldN { s, inner: Inner { s: 4041 } }, wrong |t| Some(both(unsafe { std::ptr::addr_of_mut!((*t).inner) })));
zst!(ZstField, 30, ZstField { inner: InnerZ }, wrong |t| Some(both(unsafe { std::ptr::addr_of_mut!((*t).inner) })));
sized!(DropField0, 31, u64, |s| {
    born();
    DropField0 { inner: Inner { s: 4042 }, s }
}, wrong |t| Some(both(unsafe { std::ptr::addr_of_mut!((*t).inner) })));
dropping!(DropField0);

// --- 32..=37: an object of another type
pub struct Decoy {
    _pad: [u64; 3],
    s: u64,
} // 41
pub struct DecoyZ; // 42
obj_for!(<> Decoy, 41, |me| me.s, |me| me.s += 1);
obj_for!(<> DecoyZ, 42, |_me| 0, |_me| ());
pub struct ZstDecoy; // 32
pub struct WordDecoy {
    s: u64,
} // 33
#[repr(align(64))]
pub struct Al64Decoy {
    s: u64,
} // 34
pub struct DropDecoy {
    s: u64,
} // 35
pub struct ZstDecoyZ; // 37: another zero-sized type at the same dangling address
zst!(ZstDecoy, 32, ZstDecoy, wrong |_t| Some(both(decoy())));
sized!(WordDecoy, 33, u64, |s| WordDecoy { s }, wrong |_t| Some(both(decoy())));
sized!(Al64Decoy, 34, u64, |s| Al64Decoy { s }, wrong |_t| Some(both(decoy())));
sized!(DropDecoy, 35, u64, |s| {
    born();
    DropDecoy { s }
}, wrong |_t| Some(both(decoy())));
dropping!(DropDecoy);
zst!(ZstDecoyZ, 37, ZstDecoyZ, wrong |_t| Some(both(decoy_z())));

// --- 38, 39: lawful until armed, then a decoy
pub struct WordSw {
    s: u64,
} // 38
pub struct ZstSw; // 39
sized!(WordSw, 38, u64, |s| WordSw { s }, wrong |_t| if armed() { Some(both(decoy())) } else { None });
zst!(ZstSw, 39, ZstSw, wrong |_t| if armed() { Some(both(decoy())) } else { None });

pub const NTY: usize = 40;
pub const PLAIN: u32 = 8;

#[derive(Clone, Copy, PartialEq, Eq, Debug)]
pub enum CastKind {
    Lawful,
    /// another address
    Moved,
    /// the same address (with the vtable `vt`)
    Same,
    /// lawful unless armed, then another address
    Switch,
}
pub struct TypeInfo {
    pub name: &'static str,
    pub size: usize,
    pub align: usize,
    pub drop: bool,
    pub generic: bool,
    /// shape of the cast, for the report
    pub shape: &'static str,
    pub kind: CastKind,
    /// tag of the type whose vtable the wrong cast attaches
    pub vt: u32,
}
macro_rules! ti {
    ($t:ty, $name:expr, $drop:expr, $gen:expr, $shape:expr, $kind:ident, $vt:expr) => {
        TypeInfo { name: $name, size: std::mem::size_of::<$t>(), align: std::mem::align_of::<$t>(), drop: $drop, generic: $gen, shape: $shape, kind: CastKind::$kind, vt: $vt }
    };
}
pub static TYPES: [TypeInfo; NTY] = [
    ti!(Zst, "Zst", false, false, "lawful", Lawful, 0),
    ti!(Byte, "Byte", false, false, "lawful", Lawful, 1),
    ti!(Half, "Half", false, false, "lawful", Lawful, 2),
    ti!(Word, "Word", false, false, "lawful", Lawful, 3),
    ti!(Mid, "Mid", false, false, "lawful", Lawful, 4),
    ti!(Big, "Big", false, false, "lawful", Lawful, 5),
    ti!(Aligned, "Aligned", false, false, "lawful", Lawful, 6),
    ti!(Evil, "Evil", false, false, "offset", Moved, 7),
    ti!(Plain, "Plain", false, false, "not an implementor", Lawful, 8),
    ti!(ZstA64, "ZstA64", false, false, "lawful", Lawful, 9),
    ti!(ZstDrop, "ZstDrop", true, false, "lawful", Lawful, 10),
    ti!(DropW, "DropW", true, false, "lawful", Lawful, 11),
    ti!(Packed, "Packed", false, false, "lawful", Lawful, 12),
    ti!(GenU8, "Gen<u8>", false, true, "lawful", Lawful, 13),
    ti!(GenArr, "Gen<[u64;4]>", false, true, "lawful", Lawful, 14),
    ti!(GenUnit, "Gen<()>", false, true, "lawful", Lawful, 15),
    ti!(GenVec, "Gen<Vec<u64>>", true, true, "lawful", Lawful, 16),
    ti!(ZstOff, "ZstOff", false, false, "offset", Moved, 17),
    ti!(BigOff, "BigOff", false, false, "offset (into the object)", Moved, 18),
    ti!(Al64Off, "Al64Off", false, false, "offset", Moved, 19),
    ti!(DropOff, "DropOff", true, false, "offset", Moved, 20),
    ti!(GenU8Off, "Gen<u8,offset>", false, true, "offset", Moved, 21),
    ti!(ZstTwin, "ZstTwin", false, false, "other object of the same type (same dangling address)", Same, 22),
    ti!(WordTwin, "WordTwin", false, false, "other object of the same type", Moved, 23),
    ti!(DropTwin, "DropTwin", true, false, "other object of the same type", Moved, 24),
    ti!(GenArrTwin, "Gen<[u64;4],twin>", false, true, "other object of the same type", Moved, 25),
    ti!(ZstStat, "ZstStat", false, false, "static of the same type", Moved, 26),
    ti!(WordStat, "WordStat", false, false, "static of the same type", Moved, 27),
    ti!(Field0, "Field0", false, false, "field at offset 0", Same, 40),
    ti!(FieldN, "FieldN", false, false, "field at offset 8", Moved, 40),
    ti!(ZstField, "ZstField", false, false, "zero-sized field", Same, 43),
    ti!(DropField0, "DropField0", true, false, "field at offset 0", Same, 40),
    ti!(ZstDecoy, "ZstDecoy", false, false, "object of another type", Moved, 41),
    ti!(WordDecoy, "WordDecoy", false, false, "object of another type", Moved, 41),
    ti!(Al64Decoy, "Al64Decoy", false, false, "object of another type", Moved, 41),
    ti!(DropDecoy, "DropDecoy", true, false, "object of another type", Moved, 41),
    ti!(GenU8Decoy, "Gen<u8,decoy>", false, true, "object of another type", Moved, 41),
    ti!(ZstDecoyZ, "ZstDecoyZ", false, false, "zero-sized object of another type at the same dangling address", Same, 42),
    ti!(WordSw, "WordSw", false, false, "lawful, object of another type once armed", Switch, 41),
    ti!(ZstSw, "ZstSw", false, false, "lawful, object of another type once armed", Switch, 41),
];

pub fn is_zst(t: usize) -> bool {
    TYPES[t].size == 0
}
/// does the cast of type `t` return another address right now?
pub fn moves(t: usize, armed: bool) -> bool {
    match TYPES[t].kind {
        CastKind::Moved => true,
        CastKind::Switch => armed,
        _ => false,
    }
}
/// tag of the type whose methods an accepted conversion of a `t` runs
pub fn vtable_of(t: usize, armed: bool) -> u32 {
    match TYPES[t].kind {
        CastKind::Lawful => t as u32,
        CastKind::Switch if !armed => t as u32,
        _ => TYPES[t].vt,
    }
}
/// the argument of `meta new`
pub fn cast_spec() -> String {
    let v: Vec<String> = (0..NTY)
        .filter_map(|t| match TYPES[t].kind {
            CastKind::Lawful => None,
            CastKind::Moved => Some(format!("{}:m:{}", t, TYPES[t].vt)),
            CastKind::Same => Some(format!("{}:s:{}", t, TYPES[t].vt)),
            CastKind::Switch => Some(format!("{}:w:{}", t, TYPES[t].vt)),
        })
        .collect();
    v.join(",")
}

/// run `$body` with `$T` bound to the type of tag `$ty` (all forty)
#[macro_export]
macro_rules! meta_with_val {
    ($ty:expr, $T:ident => $body:expr) => {
        match $ty {
            8 => { type $T = $crate::engines::meta::types::Plain; $body }
            t => $crate::meta_with_obj!(t, $T => $body),
        }
    };
}
/// the implementors of the traits (everything but 8)
#[macro_export]
macro_rules! meta_with_obj {
    ($ty:expr, $T:ident => $body:expr) => {{
        use $crate::engines::meta::types::*;
        match $ty {
            0 => { type $T = Zst; $body }
            1 => { type $T = Byte; $body }
            2 => { type $T = Half; $body }
            3 => { type $T = Word; $body }
            4 => { type $T = Mid; $body }
            5 => { type $T = Big; $body }
            6 => { type $T = Aligned; $body }
            7 => { type $T = Evil; $body }
            9 => { type $T = ZstA64; $body }
            10 => { type $T = ZstDrop; $body }
            11 => { type $T = DropW; $body }
            12 => { type $T = Packed; $body }
            13 => { type $T = GenU8; $body }
            14 => { type $T = GenArr; $body }
            15 => { type $T = GenUnit; $body }
            16 => { type $T = GenVec; $body }
            17 => { type $T = ZstOff; $body }
            18 => { type $T = BigOff; $body }
            19 => { type $T = Al64Off; $body }
            20 => { type $T = DropOff; $body }
            21 => { type $T = GenU8Off; $body }
            22 => { type $T = ZstTwin; $body }
            23 => { type $T = WordTwin; $body }
            24 => { type $T = DropTwin; $body }
            25 => { type $T = GenArrTwin; $body }
            26 => { type $T = ZstStat; $body }
            27 => { type $T = WordStat; $body }
            28 => { type $T = Field0; $body }
            29 => { type $T = FieldN; $body }
            30 => { type $T = ZstField; $body }
            31 => { type $T = DropField0; $body }
            32 => { type $T = ZstDecoy; $body }
            33 => { type $T = WordDecoy; $body }
            34 => { type $T = Al64Decoy; $body }
            35 => { type $T = DropDecoy; $body }
            36 => { type $T = GenU8Decoy; $body }
            37 => { type $T = ZstDecoyZ; $body }
            38 => { type $T = WordSw; $body }
            39 => { type $T = ZstSw; $body }
            other => panic!("meta engine: no implementor with tag {}", other),
        }
    }};
}

/// what the cast of `T` does to the address of a boxed value, and whose methods the result runs —
/// observed on the cast itself (no `MetaTable` involved)
fn observe<T: Imp>() -> (bool, u32) {
    let mut b = Box::new(T::make(5));
    let p: *mut T = &mut *b;
    let o = <dyn Obj as CastFrom<T>>::cast(p);
    let s = <dyn Sub as CastFrom<T>>::cast(p);
    assert_eq!(o as *mut () as usize, s as *mut () as usize, "the two casts of {} disagree", T::TAG);
    let moved = o as *mut () as usize != p as *mut () as usize;
    // a pointer moved by an offset points at nothing: do not call through it
    let by_offset = T::wrong(p).is_some() && TYPES[T::TAG as usize].shape.starts_with("offset");
    let vt = if by_offset {
        T::TAG
    } else {
        // SAFETY: lawful casts point at `*b`, the wrong ones at live objects (twin, static, field
        // of `*b`, decoy) or at a dangling, aligned address of a zero-sized type
        let (a, b2) = unsafe { ((*o).tag(), (*s).tag()) };
        assert_eq!(a, b2);
        assert_eq!(unsafe { (*s).sub_tag() }, a + 1000);
        a
    };
    (moved, vt)
}

/// the declarations in `TYPES` against the casts themselves; panics on any difference
pub fn table_selfcheck() {
    arm(false);
    // the twins are made once and leaked: before the drop counter is read
    let _ = (twin::<DropTwin>(), twin::<WordTwin>(), twin::<ZstTwin>(), twin::<GenArrTwin>(), decoy());
    let base = live();
    for t in 0..NTY as u32 {
        if t == PLAIN {
            continue;
        }
        for a in [false, true] {
            arm(a);
            let (moved, vt) = meta_with_obj!(t, T => {
                assert_eq!(T::TAG, t, "tag of {}", TYPES[t as usize].name);
                observe::<T>()
            });
            let tu = t as usize;
            assert!(
                moved == moves(tu, a) && (moved || vt == vtable_of(tu, a)),
                "meta engine: type {} ({}) armed={}: cast observed moved={} vtable={}, declared moved={} vtable={}",
                t, TYPES[tu].name, a, moved, vt, moves(tu, a), vtable_of(tu, a)
            );
            if moved && !TYPES[tu].shape.starts_with("offset") {
                assert_eq!(vt, TYPES[tu].vt, "meta engine: vtable of the wrong cast of type {}", t);
            }
        }
        arm(false);
        let zst = meta_with_obj!(t, T => std::mem::size_of::<T>() == 0);
        assert_eq!(zst, is_zst(t as usize));
    }
    assert_eq!(live(), base, "meta engine: the drop counter is off after the self-check");
}

/// `MetaTable<_>` for both trait objects is itself a resource (the crate's own test inserts it)
#[allow(dead_code)]
fn table_is_a_resource() {
    fn is_resource<T: Resource>() {}
    is_resource::<shred::MetaTable<dyn Obj>>();
    is_resource::<shred::MetaTable<dyn Sub>>();
}
