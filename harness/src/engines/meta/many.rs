//! Hundreds of implementing types in one `MetaTable` (engine `meta`, property C17): whatever width
//! the table's indices have, the 257th, 300th .. registered type is looked up and iterated like
//! the first. The implementors are the instances of one const-generic type; the table for
//! `dyn Tagged` is driven through the same line protocol as the forty-type histories (the model's
//! type tags are plain numbers), plus implementation-side checks (own tag, own value, same address).
use crate::common::*;
use shred::{CastFrom, MetaTable, Resource, World};

pub const MANY: usize = 320;
pub const BASE: usize = 1000;

pub trait Tagged {
    fn tag(&self) -> usize;
    fn val(&self) -> u64;
    fn set(&mut self, v: u64);
}
pub struct Many<const N: usize>(pub u64);
impl<const N: usize> Tagged for Many<N> {
    fn tag(&self) -> usize {
        BASE + N
    }
    fn val(&self) -> u64 {
        self.0
    }
    fn set(&mut self, v: u64) {
        self.0 = v
    }
}
unsafe impl<const N: usize> CastFrom<Many<N>> for dyn Tagged {
    fn cast(t: *mut Many<N>) -> *mut Self {
        t
    }
}

pub struct Fns {
    pub reg: fn(&mut MetaTable<dyn Tagged>),
    pub ins: fn(&mut World, u64),
    pub rem: fn(&mut World) -> bool,
    /// table.get(&*world.try_fetch::<T>()?): absent | none | some <tag> <same|moved> [value]
    pub get: fn(&World, &MetaTable<dyn Tagged>, bool) -> (String, Option<u64>),
    pub addr: fn(&World) -> Option<usize>,
}
fn fns<const N: usize>() -> Fns {
    Fns {
        reg: |t| t.register::<Many<N>>(),
        ins: |w, v| {
            w.insert(Many::<N>(v));
        },
        rem: |w| w.remove::<Many<N>>().is_some(),
        get: |w, t, excl| {
            if excl {
                match w.try_fetch_mut::<Many<N>>() {
                    None => ("absent".into(), None),
                    Some(mut g) => {
                        let a = &*g as *const Many<N> as *const u8 as usize;
                        let r: &mut dyn Resource = &mut *g;
                        match t.get_mut(r) {
                            None => ("none".into(), None),
                            Some(o) => (format!("some {} {}", o.tag(), if o as *const dyn Tagged as *const u8 as usize == a { "same" } else { "moved" }), Some(o.val())),
                        }
                    }
                }
            } else {
                match w.try_fetch::<Many<N>>() {
                    None => ("absent".into(), None),
                    Some(g) => {
                        let a = &*g as *const Many<N> as *const u8 as usize;
                        let r: &dyn Resource = &*g;
                        match t.get(r) {
                            None => ("none".into(), None),
                            Some(o) => (format!("some {} {}", o.tag(), if o as *const dyn Tagged as *const u8 as usize == a { "same" } else { "moved" }), Some(o.val())),
                        }
                    }
                }
            }
        },
        addr: |w| w.try_fetch::<Many<N>>().map(|g| &*g as *const Many<N> as *const u8 as usize),
    }
}
macro_rules! table {
    ($($n:literal),*) => {
        pub fn all_fns() -> Vec<Fns> {
            vec![$(fns::<$n>()),*]
        }
    };
}
table!(0, 1, 2, 3, 4, 5, 6, 7, 8, 9, 10, 11, 12, 13, 14, 15, 16, 17, 18, 19, 20, 21, 22, 23, 24, 25, 26, 27, 28, 29, 30, 31, 32, 33, 34, 35, 36, 37, 38, 39, 40, 41, 42, 43, 44, 45, 46, 47, 48, 49, 50, 51, 52, 53, 54, 55, 56, 57, 58, 59, 60, 61, 62, 63, 64, 65, 66, 67, 68, 69, 70, 71, 72, 73, 74, 75, 76, 77, 78, 79, 80, 81, 82, 83, 84, 85, 86, 87, 88, 89, 90, 91, 92, 93, 94, 95, 96, 97, 98, 99, 100, 101, 102, 103, 104, 105, 106, 107, 108, 109, 110, 111, 112, 113, 114, 115, 116, 117, 118, 119, 120, 121, 122, 123, 124, 125, 126, 127, 128, 129, 130, 131, 132, 133, 134, 135, 136, 137, 138, 139, 140, 141, 142, 143, 144, 145, 146, 147, 148, 149, 150, 151, 152, 153, 154, 155, 156, 157, 158, 159, 160, 161, 162, 163, 164, 165, 166, 167, 168, 169, 170, 171, 172, 173, 174, 175, 176, 177, 178, 179, 180, 181, 182, 183, 184, 185, 186, 187, 188, 189, 190, 191, 192, 193, 194, 195, 196, 197, 198, 199, 200, 201, 202, 203, 204, 205, 206, 207, 208, 209, 210, 211, 212, 213, 214, 215, 216, 217, 218, 219, 220, 221, 222, 223, 224, 225, 226, 227, 228, 229, 230, 231, 232, 233, 234, 235, 236, 237, 238, 239, 240, 241, 242, 243, 244, 245, 246, 247, 248, 249, 250, 251, 252, 253, 254, 255, 256, 257, 258, 259, 260, 261, 262, 263, 264, 265, 266, 267, 268, 269, 270, 271, 272, 273, 274, 275, 276, 277, 278, 279, 280, 281, 282, 283, 284, 285, 286, 287, 288, 289, 290, 291, 292, 293, 294, 295, 296, 297, 298, 299, 300, 301, 302, 303, 304, 305, 306, 307, 308, 309, 310, 311, 312, 313, 314, 315, 316, 317, 318, 319);

/// one history: lines of the protocol (`meta reg 1003`, ..) in `lines`; returns (impl findings, model findings)
pub fn eval(lines: &[String], mut drv: Option<&mut Drv>) -> (Vec<String>, Vec<String>) {
    let f = all_fns();
    let mut table: MetaTable<dyn Tagged> = MetaTable::new();
    let mut world = World::empty();
    let (mut bad, mut model) = (vec![], vec![]);
    let mut order: Vec<usize> = vec![];
    let mut present: std::collections::BTreeMap<usize, u64> = Default::default();
    let mut ask = |l: &str, obs: &str, model: &mut Vec<String>| {
        if let Some(d) = drv.as_deref_mut() {
            let a = d.ask(l);
            if a != obs {
                model.push(format!("`{}`: the code answers `{}`, the model `{}`", l, obs, a));
            }
        }
    };
    ask("meta new -", "ok", &mut model);
    for l in lines {
        let w: Vec<&str> = l.split_whitespace().collect();
        let ty = |i: usize| -> Option<usize> { w.get(i)?.parse::<usize>().ok()?.checked_sub(BASE).filter(|n| *n < MANY) };
        let r = std::panic::catch_unwind(std::panic::AssertUnwindSafe(|| -> Option<String> {
            match (w.first().copied(), w.get(1).copied()) {
                (Some("many"), _) => None,
                (Some("meta"), Some("reg")) => {
                    let n = ty(2)?;
                    (f[n].reg)(&mut table);
                    if !order.contains(&n) {
                        order.push(n);
                    }
                    Some("ok".into())
                }
                (Some("meta"), Some("ins")) => {
                    let n = ty(2)?;
                    let v = 7 + 3 * n as u64;
                    (f[n].ins)(&mut world, v);
                    present.insert(n, v);
                    Some("ok".into())
                }
                (Some("meta"), Some("rem")) => {
                    let n = ty(2)?;
                    present.remove(&n);
                    Some(if (f[n].rem)(&mut world) { "some".into() } else { "none".into() })
                }
                (Some("meta"), Some(g @ ("get" | "getmut"))) => {
                    let n = ty(2)?;
                    let (obs, val) = (f[n].get)(&world, &table, g == "getmut");
                    let want = match (present.get(&n), order.contains(&n)) {
                        (None, _) => "absent".to_string(),
                        (Some(_), false) => "none".to_string(),
                        (Some(_), true) => format!("some {} same", BASE + n),
                    };
                    if obs != want {
                        bad.push(format!("`{}` (type {} of {} registered) gives `{}`, expected `{}`", l, order.iter().position(|x| *x == n).map(|p| p + 1).unwrap_or(0), order.len(), obs, want));
                    } else if let (Some(v), Some(pv)) = (val, present.get(&n)) {
                        if v != *pv {
                            bad.push(format!("`{}`: the object returned holds {} but the resource holds {}", l, v, pv));
                        }
                    }
                    Some(obs)
                }
                (Some("meta"), Some(g @ ("walk" | "walkmut"))) => {
                    // a whole iteration (iter / iter_mut + collect + end), checked item by item
                    let want: Vec<usize> = order.iter().copied().filter(|n| present.contains_key(n)).collect();
                    let mut got: Vec<(usize, u64, usize)> = vec![];
                    if g == "walk" {
                        for o in table.iter(&world) {
                            got.push((o.tag(), o.val(), &*o as *const dyn Tagged as *const u8 as usize));
                        }
                    } else {
                        for mut o in table.iter_mut(&world) {
                            got.push((o.tag(), o.val(), &*o as *const dyn Tagged as *const u8 as usize));
                            let v = o.val();
                            o.set(v + 1);
                        }
                        for n in &want {
                            *present.get_mut(n).unwrap() += 1;
                        }
                    }
                    let tags: Vec<usize> = got.iter().map(|x| x.0).collect();
                    if tags != want.iter().map(|n| BASE + n).collect::<Vec<_>>() {
                        bad.push(format!("`{}` yields {:?}, expected the registered present types in first-registration order {:?}", l, tags, want.iter().map(|n| BASE + n).collect::<Vec<_>>()));
                    } else {
                        for ((_, v, a), n) in got.iter().zip(&want) {
                            let pv = present[n] - if g == "walkmut" { 1 } else { 0 };
                            if *v != pv || Some(*a) != (f[*n].addr)(&world) {
                                bad.push(format!("`{}`: the item for type {} holds {} at {:#x}, the resource holds {} at {:#x?}", l, BASE + n, v, a, pv, (f[*n].addr)(&world)));
                                break;
                            }
                        }
                    }
                    let text = if tags.is_empty() { "-".to_string() } else { tags.iter().map(|t| t.to_string()).collect::<Vec<_>>().join(",") };
                    Some(format!("items {} end", text))
                }
                _ => None,
            }
        }));
        match r {
            Err(p) => {
                bad.push(format!("`{}` panicked: {}", l, panic_message(&p)));
                break;
            }
            Ok(None) => {}
            Ok(Some(obs)) => {
                if w.get(1).map(|x| x.starts_with("walk")).unwrap_or(false) {
                    let it = if w[1] == "walk" { "meta iter" } else { "meta itermut" };
                    ask(it, "ok", &mut model);
                    ask("meta collect 0", &obs, &mut model);
                    ask("meta end", "ok", &mut model);
                } else {
                    ask(l, &obs, &mut model);
                }
            }
        }
    }
    (bad, model)
}

pub fn gen(rng: &mut Rng) -> Vec<String> {
    let mut v = vec!["many".to_string()];
    let k = 257 + rng.below((MANY - 257) as u64 + 1) as usize;
    let mut tys: Vec<usize> = (0..MANY).collect();
    rng.shuffle(&mut tys);
    tys.truncate(k);
    for (i, n) in tys.iter().enumerate() {
        v.push(format!("meta reg {}", BASE + n));
        if rng.chance(4) && i > 0 {
            v.push(format!("meta reg {}", BASE + tys[rng.below(i as u64) as usize]));
        }
    }
    let mut pres = vec![];
    for n in &tys {
        if rng.chance(30) {
            v.push(format!("meta ins {}", BASE + n));
            pres.push(*n);
        }
    }
    // the last few registered types are present for sure
    for n in &tys[k - 4..] {
        if !pres.contains(n) {
            v.push(format!("meta ins {}", BASE + n));
            pres.push(*n);
        }
    }
    let probe = |v: &mut Vec<String>, rng: &mut Rng| {
        for n in tys[k - 4..].iter().chain(tys[..2].iter()) {
            v.push(format!("meta {} {}", if rng.chance(50) { "get" } else { "getmut" }, BASE + n));
        }
        for _ in 0..6 {
            v.push(format!("meta {} {}", if rng.chance(50) { "get" } else { "getmut" }, BASE + *rng.pick(&tys)));
        }
        v.push("meta walk".into());
        v.push("meta walkmut".into());
    };
    probe(&mut v, rng);
    // register late types again (nothing may change), remove one, probe again
    for _ in 0..3 {
        v.push(format!("meta reg {}", BASE + tys[256 + rng.below((k - 256) as u64) as usize]));
    }
    v.push(format!("meta rem {}", BASE + *rng.pick(&pres)));
    probe(&mut v, rng);
    v
}
