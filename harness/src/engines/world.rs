//! World engine (C08 borrows, C09 typed map): random histories of every public `World` entry
//! point over four resource types of different size / drop behaviour and three dynamic ids, with
//! guards kept in a table; after every operation every cell is probed. Implementation-side
//! oracles (no model): shadow reader/writer counts from the harness's own guard table (C08), a
//! reference `BTreeMap` + type-id checks + drop log (C09). The same histories are piped to the Lean
//! model (`world ...` requests). A many-thread stress part checks the C08 safety clause with a
//! shadow atomic counter bracketed strictly inside every real guard's lifetime.
//!
//! Faults: closures under `catch_unwind` that take guards of every kind and then return, panic, or
//! are refused a fetch half-way (`scope`), a caller that panics while holding the `entry` guard or
//! inside `exec`, `or_insert_with` closures that panic, and values whose `Drop` panics on demand (a
//! one-shot fuse) at every place where the world drops a value: `insert` replacing, `or_insert` on
//! an occupied slot, the caller dropping what `remove` returned, the world's own drop. The probes
//! and the drop accounting go on after every one of them.
use crate::common::*;
use shred::cell::{AtomicRef, AtomicRefMut};
use shred::{
    CastFrom, Fetch, FetchMut, MetaIter, MetaIterMut, MetaTable, Read, ReadExpect, Resource, ResourceId, World, Write,
    WriteExpect,
};
use std::any::{Any, TypeId};
use std::cell::RefCell;
use std::collections::{BTreeMap, BTreeSet, VecDeque};
use std::panic::{catch_unwind, AssertUnwindSafe};
use std::sync::Mutex;

pub const NTY: u8 = 4;
pub const NDY: u64 = 3;
type Key = (u8, u64);

// ---------------------------------------------------------------------------------------------
// resource types: ZST, u64, String, Vec — all with a logging Drop; tokens are `counter * 4 + ty`
// ---------------------------------------------------------------------------------------------

#[derive(Default)]
struct Log {
    made: Vec<(u8, u64)>,
    dropped: Vec<(u8, u64)>,
}
static LOG: Mutex<Log> = Mutex::new(Log { made: vec![], dropped: vec![] });
thread_local! {
    /// tokens handed to `Default::default()` (used by `setup` / `exec`)
    static DEFAULTS: RefCell<VecDeque<u64>> = RefCell::new(VecDeque::new());
}
/// tokens given to zero-sized values (which cannot show them)
static ZTOKS: Mutex<BTreeSet<u64>> = Mutex::new(BTreeSet::new());
fn log_made(ty: u8, tok: u64) {
    if ty == 0 {
        ZTOKS.lock().unwrap_or_else(|e| e.into_inner()).insert(tok);
    }
    LOG.lock().unwrap_or_else(|e| e.into_inner()).made.push((ty, tok));
}
fn log_dropped(ty: u8, tok: u64) {
    LOG.lock().unwrap_or_else(|e| e.into_inner()).dropped.push((ty, tok));
}
/// clones made through `Clone::clone_from`
static CLONE_FROMS: std::sync::atomic::AtomicU64 = std::sync::atomic::AtomicU64::new(0);
/// one-shot fuse: the value (type, token; any token for the ZST) whose `Drop` panics when it runs next
static FUSE: Mutex<Option<(u8, u64)>> = Mutex::new(None);
/// set when a fused value was dropped while its thread was already unwinding (the fuse then stays quiet)
static FUSE_IN_UNWIND: Mutex<bool> = Mutex::new(false);
fn arm(ty: u8, tok: u64) {
    *FUSE.lock().unwrap_or_else(|e| e.into_inner()) = Some((ty, tok));
}
/// returns true if the fuse was still armed (i.e. the value was not dropped)
fn disarm() -> bool {
    FUSE.lock().unwrap_or_else(|e| e.into_inner()).take().is_some()
}
fn fuse_hit(ty: u8, tok: u64) -> bool {
    let mut f = FUSE.lock().unwrap_or_else(|e| e.into_inner());
    match *f {
        Some((t, k)) if t == ty && (ty == 0 || k == tok) => {
            *f = None;
            if std::thread::panicking() {
                *FUSE_IN_UNWIND.lock().unwrap_or_else(|e| e.into_inner()) = true;
                false
            } else {
                true
            }
        }
        _ => false,
    }
}
thread_local! {
    /// what a closure that is going to panic saw through its guards
    static SEEN: RefCell<Vec<Option<(u8, u64)>>> = RefCell::new(vec![]);
}
fn next_default() -> u64 {
    DEFAULTS.with(|d| d.borrow_mut().pop_front()).unwrap_or(u64::MAX)
}

pub trait Tok: Send + Sync {
    fn ty(&self) -> u8;
    /// 0 for the ZST (it cannot carry one)
    fn tok(&self) -> u64;
    fn make(tok: u64) -> Self
    where
        Self: Sized;
    /// internal consistency of the value (canary)
    fn sane(&self) -> bool {
        true
    }
}
pub struct Z;
pub struct U(pub u64);
pub struct S(pub String);
pub struct V(pub Vec<u64>);
impl Tok for Z {
    fn ty(&self) -> u8 {
        0
    }
    fn tok(&self) -> u64 {
        0
    }
    fn make(tok: u64) -> Z {
        log_made(0, tok);
        Z
    }
}
impl Tok for U {
    fn ty(&self) -> u8 {
        1
    }
    fn tok(&self) -> u64 {
        self.0
    }
    fn make(tok: u64) -> U {
        log_made(1, tok);
        U(tok)
    }
}
impl Tok for S {
    fn ty(&self) -> u8 {
        2
    }
    fn tok(&self) -> u64 {
        self.0.trim_start_matches('t').parse().unwrap_or(u64::MAX - 1)
    }
    fn make(tok: u64) -> S {
        log_made(2, tok);
        S(format!("{}{}", "t".repeat((tok % 40) as usize), tok))
    }
}
impl Tok for V {
    fn ty(&self) -> u8 {
        3
    }
    fn tok(&self) -> u64 {
        self.0.first().copied().unwrap_or(u64::MAX - 2)
    }
    fn make(tok: u64) -> V {
        log_made(3, tok);
        V(vec![tok; 1 + (tok % 7) as usize])
    }
    fn sane(&self) -> bool {
        self.0.iter().all(|x| *x == self.0[0])
    }
}
macro_rules! impl_drop_default {
    ($($t:ty),*) => {$(
        impl Drop for $t {
            fn drop(&mut self) {
                log_dropped(self.ty(), self.tok());
                if fuse_hit(self.ty(), self.tok()) {
                    panic!("harness: drop fuse");
                }
            }
        }
        impl Default for $t { fn default() -> Self { <$t as Tok>::make(next_default()) } }
    )*};
}
impl_drop_default!(Z, U, S, V);

unsafe impl<T: Tok + 'static> CastFrom<T> for dyn Tok {
    fn cast(t: *mut T) -> *mut Self {
        t
    }
}

macro_rules! by_ty {
    ($ty:expr, $T:ident => $e:expr) => {
        match $ty {
            0 => { type $T = Z; $e }
            1 => { type $T = U; $e }
            2 => { type $T = S; $e }
            _ => { type $T = V; $e }
        }
    };
}
fn type_id_of(ty: u8) -> TypeId {
    by_ty!(ty, T => TypeId::of::<T>())
}
fn ty_of_type_id(t: TypeId) -> Option<u8> {
    (0..NTY).find(|ty| type_id_of(*ty) == t)
}
/// the real dynamic id behind the logical one: 0 and 1 are themselves; logical id 2 is a large
/// id chosen per type so that `std-hash(TypeId) + id` (wrapping) is the *same* number for every type —
/// slots of different types must stay independent whatever arithmetic a lookup key is built with
static ID_MAP: std::sync::atomic::AtomicU8 = std::sync::atomic::AtomicU8::new(0);
fn real_dyn(ty: u8, dy: u64) -> u64 {
    // logical id 0 is always the real id 0 (the one the typed entry points use). Other choices for 1
    // and 2: the two largest ids; the largest and 2^63; two ids that are 0 in their low 32 bits
    match (ID_MAP.load(std::sync::atomic::Ordering::SeqCst), dy) {
        (_, 0) => return 0,
        (1, 1) => return u64::MAX - 1,
        (1, _) => return u64::MAX,
        (2, 1) => return u64::MAX,
        (2, _) => return 1u64 << 63,
        (3, 1) => return 1u64 << 32,
        (3, _) => return 1u64 << 33,
        _ => {}
    }
    if dy != 2 {
        return dy;
    }
    use std::hash::{Hash, Hasher};
    let mut h = std::collections::hash_map::DefaultHasher::new();
    type_id_of(ty).hash(&mut h);
    0x5EED_0000_0000_0002u64.wrapping_sub(h.finish())
}
fn rid(k: Key) -> ResourceId {
    by_ty!(k.0, T => ResourceId::new_with_dynamic_id::<T>(real_dyn(k.0, k.1)))
}
fn all_keys() -> Vec<Key> {
    let mut v = vec![];
    for ty in 0..NTY {
        for dy in 0..NDY {
            v.push((ty, dy));
        }
    }
    v
}
/// the ZST cannot show its token
fn show_tok(t: u64) -> String {
    if ZTOKS.lock().unwrap_or_else(|e| e.into_inner()).contains(&t) {
        "*".into()
    } else {
        t.to_string()
    }
}
fn show_key(k: Key) -> String {
    format!("{}.{}", k.0, k.1)
}
fn parse_key(s: &str) -> Option<Key> {
    let (a, b) = s.split_once('.')?;
    Some((a.parse().ok()?, b.parse().ok()?))
}
/// what a `&dyn Resource` really is: (type index, token)
fn inspect(r: &dyn Resource) -> (Option<u8>, u64) {
    let any: &dyn Any = r;
    let ty = ty_of_type_id(any.type_id());
    let tok = match ty {
        Some(0) => 0,
        Some(1) => any.downcast_ref::<U>().map(|x| x.tok()).unwrap_or(u64::MAX),
        Some(2) => any.downcast_ref::<S>().map(|x| x.tok()).unwrap_or(u64::MAX),
        Some(3) => any.downcast_ref::<V>().map(|x| x.tok()).unwrap_or(u64::MAX),
        _ => u64::MAX,
    };
    (ty, tok)
}

// ---------------------------------------------------------------------------------------------
// guards
// ---------------------------------------------------------------------------------------------

/// Word offset of the borrow counter inside an `AtomicRefCell<Box<dyn Resource>>`, found by experiment
/// (a fresh cell is borrowed once, twice, exclusively; the word that reads 0, 1, 2, HIGH_BIT, 0 is it).
/// Used only to *look* at a cell without touching it: the cell's own `try_borrow` increments the counter
/// and aborts the process on a counter that was decremented too often. `None`: layout not recognised,
/// the probes then use the cell's API only.
fn counter_offset() -> Option<usize> {
    use std::sync::atomic::{AtomicUsize, Ordering::SeqCst};
    static OFF: std::sync::OnceLock<Option<usize>> = std::sync::OnceLock::new();
    *OFF.get_or_init(|| {
        let c: shred::cell::AtomicRefCell<Box<dyn Resource>> = shred::cell::AtomicRefCell::new(Box::new(0u8));
        let n = std::mem::size_of_val(&c) / std::mem::size_of::<usize>();
        if std::mem::size_of_val(&c) % std::mem::size_of::<usize>() != 0 || std::mem::align_of_val(&c) < std::mem::align_of::<usize>() {
            return None;
        }
        // SAFETY: aligned word reads inside a live, initialised object
        let read = |c: &shred::cell::AtomicRefCell<Box<dyn Resource>>| -> Vec<usize> {
            (0..n).map(|i| unsafe { (*(c as *const _ as *const AtomicUsize).add(i)).load(SeqCst) }).collect()
        };
        let w0 = read(&c);
        let g1 = c.borrow();
        let w1 = read(&c);
        let g2 = c.borrow();
        let w2 = read(&c);
        drop(g1);
        drop(g2);
        let g3 = c.borrow_mut();
        let w3 = read(&c);
        drop(g3);
        let w4 = read(&c);
        let high = !(usize::MAX >> 1);
        let cands: Vec<usize> = (0..n).filter(|&i| w0[i] == 0 && w1[i] == 1 && w2[i] == 2 && w3[i] == high && w4[i] == 0).collect();
        if cands.len() == 1 { Some(cands[0]) } else { None }
    })
}
/// the raw borrow counter of a cell (0 = free, n = n shared borrows, high bit = exclusive)
fn peek_counter(c: &shred::cell::AtomicRefCell<Box<dyn Resource>>) -> Option<usize> {
    use std::sync::atomic::{AtomicUsize, Ordering::SeqCst};
    // SAFETY: see `counter_offset`
    counter_offset().map(|o| unsafe { (*(c as *const _ as *const AtomicUsize).add(o)).load(SeqCst) })
}
/// count unknown (layout not recognised)
const NCOUNT: usize = usize::MAX;

trait GuardLike {
    /// (type, token) seen through the guard
    fn see(&self) -> (u8, u64);
    fn try_clone(&self) -> Option<Box<dyn GuardLike>> {
        None
    }
    fn can_clone(&self) -> bool {
        false
    }
    fn as_any(&self) -> Option<&dyn Any> {
        None
    }
    /// a clone of `self` made the other way: a clone of `scratch` (a shared guard of the same type, of
    /// any cell) overwritten with `Clone::clone_from(.., self)`; `None` if `scratch` is of another kind
    fn clone_via_clone_from(&self, _scratch: &dyn GuardLike) -> Option<Box<dyn GuardLike>> {
        None
    }
}
impl<T: Tok + Resource> GuardLike for Fetch<'static, T> {
    fn as_any(&self) -> Option<&dyn Any> {
        Some(self)
    }
    fn clone_via_clone_from(&self, scratch: &dyn GuardLike) -> Option<Box<dyn GuardLike>> {
        let s = scratch.as_any()?.downcast_ref::<Fetch<'static, T>>()?;
        let mut c = Clone::clone(s);
        Clone::clone_from(&mut c, self);
        Some(Box::new(c))
    }
    fn see(&self) -> (u8, u64) {
        ((**self).ty(), (**self).tok())
    }
    fn can_clone(&self) -> bool {
        true
    }
    fn try_clone(&self) -> Option<Box<dyn GuardLike>> {
        Some(Box::new(Clone::clone(self)))
    }
}
impl<T: Tok + Resource> GuardLike for FetchMut<'static, T> {
    fn see(&self) -> (u8, u64) {
        ((**self).ty(), (**self).tok())
    }
}
impl GuardLike for AtomicRef<'static, dyn Tok> {
    fn see(&self) -> (u8, u64) {
        ((**self).ty(), (**self).tok())
    }
    fn can_clone(&self) -> bool {
        true
    }
    fn try_clone(&self) -> Option<Box<dyn GuardLike>> {
        Some(Box::new(AtomicRef::clone(self)))
    }
}
impl GuardLike for AtomicRefMut<'static, dyn Tok> {
    fn see(&self) -> (u8, u64) {
        ((**self).ty(), (**self).tok())
    }
}
impl<T: Tok + Resource, F> GuardLike for Read<'static, T, F> {
    fn see(&self) -> (u8, u64) {
        ((**self).ty(), (**self).tok())
    }
}
impl<T: Tok + Resource, F> GuardLike for Write<'static, T, F> {
    fn see(&self) -> (u8, u64) {
        ((**self).ty(), (**self).tok())
    }
}
/// one field of a system-data tuple → at most one guard
trait Field {
    fn into_guard(self) -> Option<Box<dyn GuardLike>>;
}
impl<T: Tok + Resource, F: 'static> Field for Read<'static, T, F> {
    fn into_guard(self) -> Option<Box<dyn GuardLike>> {
        Some(Box::new(self))
    }
}
impl<T: Tok + Resource, F: 'static> Field for Write<'static, T, F> {
    fn into_guard(self) -> Option<Box<dyn GuardLike>> {
        Some(Box::new(self))
    }
}
impl<X: Field> Field for Option<X> {
    fn into_guard(self) -> Option<Box<dyn GuardLike>> {
        self.and_then(|x| x.into_guard())
    }
}

/// the guards a closure owns: dropped last-taken-first, on return and on unwinding alike
struct RevDrop(Vec<Box<dyn GuardLike>>);
impl Drop for RevDrop {
    fn drop(&mut self) {
        while let Some(g) = self.0.pop() {
            // a guard's drop that panics (a corrupt counter) must not escape: this may run during unwinding
            if let Err(e) = catch(move || drop(g)) {
                GUARD_DROP_PANICS.lock().unwrap_or_else(|e| e.into_inner()).push(e);
            }
        }
    }
}
/// panics out of a guard's `drop` inside a closure (never happens with a sound cell)
static GUARD_DROP_PANICS: Mutex<Vec<String>> = Mutex::new(vec![]);

struct Live {
    g: Box<dyn GuardLike>,
    key: Key,
    excl: bool,
    /// the model's handle for this guard (when a driver is attached)
    mh: Option<u64>,
    seen: (u8, u64),
}

// ---------------------------------------------------------------------------------------------
// system-data menu: item specs understood by the model ↔ concrete tuple types
// ---------------------------------------------------------------------------------------------

#[derive(Clone, Copy, Debug, PartialEq)]
pub struct Item {
    ty: u8,
    write: bool,
    opt: bool,
    dflt: bool,
}
fn parse_items(s: &str) -> Option<Vec<Item>> {
    if s == "-" {
        return Some(vec![]);
    }
    s.split(',')
        .map(|x| {
            let (p, write, opt, dflt) = if let Some(r) = x.strip_prefix("re") {
                (r, false, false, false)
            } else if let Some(r) = x.strip_prefix("we") {
                (r, true, false, false)
            } else if let Some(r) = x.strip_prefix("or") {
                (r, false, true, true)
            } else if let Some(r) = x.strip_prefix("ow") {
                (r, true, true, true)
            } else if let Some(r) = x.strip_prefix('r') {
                (r, false, false, true)
            } else if let Some(r) = x.strip_prefix('w') {
                (r, true, false, true)
            } else {
                return None;
            };
            Some(Item { ty: p.parse().ok()?, write, opt, dflt })
        })
        .collect()
}

type SdFetch = fn(&'static World) -> Vec<Option<Box<dyn GuardLike>>>;
type SdSetup = fn(&mut World);
type SdExec = fn(&mut World) -> Vec<Option<(u8, u64)>>;
struct SdEntry {
    spec: &'static str,
    fetch: SdFetch,
    setup: SdSetup,
    exec: SdExec,
    /// `exec` with a closure that records what it sees (`SEEN`) and panics while it holds the data
    exec_boom: SdExec,
}
macro_rules! sd_entry {
    ($spec:expr, ($($f:ident : $t:ty),+)) => {
        SdEntry {
            spec: $spec,
            fetch: |w: &'static World| {
                let ($($f,)+): ($($t,)+) = w.system_data();
                vec![$(Field::into_guard($f)),+]
            },
            setup: |w: &mut World| w.setup::<($($t,)+)>(),
            exec: |w: &mut World| {
                // SAFETY (harness): the data never leaves the closure; `'static` only names the tuple type
                let w: &'static mut World = unsafe { &mut *(w as *mut World) };
                w.exec(|($($f,)+): ($($t,)+)| {
                    vec![$(Field::into_guard($f).map(|g| g.see())),+]
                })
            },
            exec_boom: |w: &mut World| {
                // SAFETY (harness): as above
                let w: &'static mut World = unsafe { &mut *(w as *mut World) };
                w.exec(|($($f,)+): ($($t,)+)| -> Vec<Option<(u8, u64)>> {
                    let gs: Vec<Option<Box<dyn GuardLike>>> = vec![$(Field::into_guard($f)),+];
                    SEEN.with(|s| *s.borrow_mut() = gs.iter().map(|g| g.as_ref().map(|g| g.see())).collect());
                    panic!("harness: explicit");
                })
            },
        }
    };
}
fn sd_menu() -> Vec<SdEntry> {
    vec![
        sd_entry!("r1,w2", (a: Read<'static, U>, b: Write<'static, S>)),
        sd_entry!("w1,r1", (a: Write<'static, U>, b: Read<'static, U>)),
        sd_entry!("or0,ow3,re2", (a: Option<Read<'static, Z>>, b: Option<Write<'static, V>>, c: ReadExpect<'static, S>)),
        sd_entry!("re3,we1", (a: ReadExpect<'static, V>, b: WriteExpect<'static, U>)),
        sd_entry!("r0,r0", (a: Read<'static, Z>, b: Read<'static, Z>)),
        sd_entry!("w3,ow3", (a: Write<'static, V>, b: Option<Write<'static, V>>)),
        sd_entry!("r2", (a: Read<'static, S>)),
        sd_entry!("or1,w0,r3,we2", (a: Option<Read<'static, U>>, b: Write<'static, Z>, c: Read<'static, V>, d: WriteExpect<'static, S>)),
        sd_entry!("ow2,or2", (a: Option<Write<'static, S>>, b: Option<Read<'static, S>>)),
        sd_entry!("w0,w1,w2,w3", (a: Write<'static, Z>, b: Write<'static, U>, c: Write<'static, S>, d: Write<'static, V>)),
    ]
}

// ---------------------------------------------------------------------------------------------
// operations and case lines
// ---------------------------------------------------------------------------------------------

/// one acquisition inside a closure that runs under `catch_unwind`
#[derive(Clone, Debug, PartialEq)]
pub enum Take {
    /// type, exclusive, panicking form (`fetch` / `fetch_mut`) or `try_` form
    Fetch(u8, bool, bool),
    /// type argument, id, exclusive
    ById(u8, Key, bool),
    Data(String),
    /// `next()` of the closure's own `MetaIter` (false) / `MetaIterMut` (true)
    Iter(bool),
    /// clone of the i-th guard the closure has taken
    CloneLocal(usize),
    /// clone of the i-th guard of the harness's table (alive outside the closure)
    CloneOuter(usize),
}
impl Take {
    fn word(&self) -> String {
        match self {
            Take::Fetch(t, false, true) => format!("fetch:{}", t),
            Take::Fetch(t, true, true) => format!("fetch-mut:{}", t),
            Take::Fetch(t, false, false) => format!("try-fetch:{}", t),
            Take::Fetch(t, true, false) => format!("try-fetch-mut:{}", t),
            Take::ById(a, k, false) => format!("by-id:{}:{}", a, show_key(*k)),
            Take::ById(a, k, true) => format!("by-id-mut:{}:{}", a, show_key(*k)),
            Take::Data(s) => format!("data:{}", s),
            Take::Iter(x) => format!("iter:{}", *x as u8),
            Take::CloneLocal(i) => format!("clone:@{}", i),
            Take::CloneOuter(i) => format!("clone:#{}", i),
        }
    }
    fn parse(w: &str) -> Option<Take> {
        let f: Vec<&str> = w.split(':').collect();
        Some(match f.as_slice() {
            ["fetch", t] => Take::Fetch(t.parse().ok()?, false, true),
            ["fetch-mut", t] => Take::Fetch(t.parse().ok()?, true, true),
            ["try-fetch", t] => Take::Fetch(t.parse().ok()?, false, false),
            ["try-fetch-mut", t] => Take::Fetch(t.parse().ok()?, true, false),
            ["by-id", a, k] => Take::ById(a.parse().ok()?, parse_key(k)?, false),
            ["by-id-mut", a, k] => Take::ById(a.parse().ok()?, parse_key(k)?, true),
            ["data", s] => Take::Data(s.to_string()),
            ["iter", x] => Take::Iter(*x == "1"),
            ["clone", i] if i.starts_with('@') => Take::CloneLocal(i[1..].parse().ok()?),
            ["clone", i] if i.starts_with('#') => Take::CloneOuter(i[1..].parse().ok()?),
            _ => return None,
        })
    }
}
fn show_takes(t: &[Take]) -> String {
    if t.is_empty() {
        "-".into()
    } else {
        t.iter().map(|x| x.word()).collect::<Vec<_>>().join(" ")
    }
}
/// which fault an `entry` call meets
#[derive(Clone, Copy, Debug, PartialEq)]
pub enum EntryFault {
    /// the caller panics while it holds the returned guard (true = `or_insert`, false = `or_insert_with`)
    Held(bool),
    /// `or_insert(v)` with a `v` whose `Drop` panics
    Fused,
    /// `or_insert_with(|| panic!())`
    Closure,
}

#[derive(Clone, Debug, PartialEq)]
pub enum Op {
    Meta(Vec<u8>),
    /// which real dynamic ids stand behind the logical ids 1 and 2 in this history (see `real_dyn`);
    /// never sent to the model, which knows logical ids only
    IdMap(u8),
    Insert(u8, u64),
    InsertById(u8, Key, u64),
    Remove(u8),
    RemoveById(u8, Key),
    Entry(u8, u64, bool),
    Has(u8),
    HasRaw(Key),
    GetMut(u8),
    GetMutRaw(Key),
    Fetch(u8),
    FetchMut(u8),
    TryFetch(u8),
    TryFetchMut(u8),
    TryFetchById(u8, Key),
    TryFetchMutById(u8, Key),
    Clone(usize),
    Drop(usize),
    SystemData(String),
    Setup(String, Vec<u64>),
    Exec(String, Vec<u64>),
    Iter(u64, bool),
    IterNext(u64),
    /// a closure under `catch_unwind` that takes guards and then returns (false) or panics (true)
    Scope(Vec<Take>, bool),
    /// `insert_by_id` where the `Drop` of the value that is replaced panics
    InsertFused(u8, Key, u64),
    EntryFault(u8, u64, EntryFault),
    /// `exec` with a closure that panics while it holds the data
    ExecFault(String, Vec<u64>),
    /// the caller drops the i-th value it still holds from `remove`; true = its `Drop` panics
    DropReturned(usize, bool),
    /// last operation: the world is dropped while the `Drop` of the value under the id panics
    DropWorld(Key),
    Conc { threads: u64, ops: u64, seed: u64 },
}
fn show_nums(v: &[u64]) -> String {
    if v.is_empty() {
        "-".into()
    } else {
        v.iter().map(|x| x.to_string()).collect::<Vec<_>>().join(",")
    }
}
fn parse_nums(s: &str) -> Option<Vec<u64>> {
    if s == "-" {
        return Some(vec![]);
    }
    s.split(',').map(|x| x.parse().ok()).collect()
}
impl Op {
    pub fn line(&self) -> String {
        match self {
            Op::Meta(t) => format!("meta {}", show_nums(&t.iter().map(|x| *x as u64).collect::<Vec<_>>())),
            Op::IdMap(k) => format!("idmap {}", k),
            Op::Insert(t, k) => format!("insert {} {}", t, k),
            Op::InsertById(a, k, t) => format!("insert-by-id {} {} {}", a, show_key(*k), t),
            Op::Remove(t) => format!("remove {}", t),
            Op::RemoveById(a, k) => format!("remove-by-id {} {}", a, show_key(*k)),
            Op::Entry(t, k, true) => format!("entry {} {}", t, k),
            Op::Entry(t, k, false) => format!("entry-with {} {}", t, k),
            Op::Has(t) => format!("has {}", t),
            Op::HasRaw(k) => format!("has-raw {}", show_key(*k)),
            Op::GetMut(t) => format!("get-mut {}", t),
            Op::GetMutRaw(k) => format!("get-mut-raw {}", show_key(*k)),
            Op::Fetch(t) => format!("fetch {}", t),
            Op::FetchMut(t) => format!("fetch-mut {}", t),
            Op::TryFetch(t) => format!("try-fetch {}", t),
            Op::TryFetchMut(t) => format!("try-fetch-mut {}", t),
            Op::TryFetchById(a, k) => format!("try-fetch-by-id {} {}", a, show_key(*k)),
            Op::TryFetchMutById(a, k) => format!("try-fetch-mut-by-id {} {}", a, show_key(*k)),
            Op::Clone(i) => format!("clone #{}", i),
            Op::Drop(i) => format!("drop #{}", i),
            Op::SystemData(s) => format!("system-data {}", s),
            Op::Setup(s, t) => format!("setup {} {}", s, show_nums(t)),
            Op::Exec(s, t) => format!("exec {} {}", s, show_nums(t)),
            Op::Iter(i, x) => format!("iter {} {}", i, *x as u8),
            Op::IterNext(i) => format!("iter-next {}", i),
            Op::Scope(t, e) => format!("scope {} {}", if *e { "panic" } else { "ok" }, show_takes(t)),
            Op::InsertFused(a, k, t) => format!("insert-fused {} {} {}", a, show_key(*k), t),
            Op::EntryFault(t, k, EntryFault::Held(bv)) => format!("entry-held {} {} {}", t, k, *bv as u8),
            Op::EntryFault(t, k, EntryFault::Fused) => format!("entry-fused {} {}", t, k),
            Op::EntryFault(t, _, EntryFault::Closure) => format!("entry-with-panic {}", t),
            Op::ExecFault(s, t) => format!("exec-panic {} {}", s, show_nums(t)),
            Op::DropReturned(i, f) => format!("drop-returned #{} {}", i, *f as u8),
            Op::DropWorld(k) => format!("drop-world-panic {}", show_key(*k)),
            Op::Conc { threads, ops, seed } => format!("conc threads={} ops={} seed={}", threads, ops, seed),
        }
    }
    pub fn parse(l: &str) -> Option<Op> {
        let w: Vec<&str> = l.split_whitespace().collect();
        let n = |i: usize| -> Option<u64> { w.get(i)?.parse().ok() };
        let t = |i: usize| -> Option<u8> { w.get(i)?.parse().ok() };
        let k = |i: usize| -> Option<Key> { parse_key(w.get(i)?) };
        let idx = |i: usize| -> Option<usize> { w.get(i)?.trim_start_matches('#').parse().ok() };
        Some(match *w.first()? {
            "idmap" => Op::IdMap(w.get(1)?.parse().ok()?),
            "meta" => Op::Meta(parse_nums(w.get(1)?)?.into_iter().map(|x| x as u8).collect()),
            "insert" => Op::Insert(t(1)?, n(2)?),
            "insert-by-id" => Op::InsertById(t(1)?, k(2)?, n(3)?),
            "remove" => Op::Remove(t(1)?),
            "remove-by-id" => Op::RemoveById(t(1)?, k(2)?),
            "entry" => Op::Entry(t(1)?, n(2)?, true),
            "entry-with" => Op::Entry(t(1)?, n(2)?, false),
            "has" => Op::Has(t(1)?),
            "has-raw" => Op::HasRaw(k(1)?),
            "get-mut" => Op::GetMut(t(1)?),
            "get-mut-raw" => Op::GetMutRaw(k(1)?),
            "fetch" => Op::Fetch(t(1)?),
            "fetch-mut" => Op::FetchMut(t(1)?),
            "try-fetch" => Op::TryFetch(t(1)?),
            "try-fetch-mut" => Op::TryFetchMut(t(1)?),
            "try-fetch-by-id" => Op::TryFetchById(t(1)?, k(2)?),
            "try-fetch-mut-by-id" => Op::TryFetchMutById(t(1)?, k(2)?),
            "clone" => Op::Clone(idx(1)?),
            "drop" => Op::Drop(idx(1)?),
            "system-data" => Op::SystemData(w.get(1)?.to_string()),
            "setup" => Op::Setup(w.get(1)?.to_string(), parse_nums(w.get(2)?)?),
            "exec" => Op::Exec(w.get(1)?.to_string(), parse_nums(w.get(2)?)?),
            "iter" => Op::Iter(n(1)?, n(2)? == 1),
            "iter-next" => Op::IterNext(n(1)?),
            "scope" => {
                let e = match *w.get(1)? {
                    "panic" => true,
                    "ok" => false,
                    _ => return None,
                };
                let takes: Option<Vec<Take>> = if w.get(2) == Some(&"-") { Some(vec![]) } else { w[2..].iter().map(|x| Take::parse(x)).collect() };
                Op::Scope(takes?, e)
            }
            "insert-fused" => Op::InsertFused(t(1)?, k(2)?, n(3)?),
            "entry-held" => Op::EntryFault(t(1)?, n(2)?, EntryFault::Held(n(3)? == 1)),
            "entry-fused" => Op::EntryFault(t(1)?, n(2)?, EntryFault::Fused),
            "entry-with-panic" => Op::EntryFault(t(1)?, 0, EntryFault::Closure),
            "exec-panic" => Op::ExecFault(w.get(1)?.to_string(), parse_nums(w.get(2)?)?),
            "drop-returned" => Op::DropReturned(idx(1)?, n(2)? == 1),
            "drop-world-panic" => Op::DropWorld(k(1)?),
            "conc" => {
                let f = |key: &str| -> Option<u64> { w.iter().find_map(|x| x.strip_prefix(key)).and_then(|v| v.parse().ok()) };
                Op::Conc { threads: f("threads=")?, ops: f("ops=")?, seed: f("seed=")? }
            }
            _ => return None,
        })
    }
    fn is_mut(&self) -> bool {
        matches!(
            self,
            Op::Insert(..)
                | Op::InsertById(..)
                | Op::Remove(..)
                | Op::RemoveById(..)
                | Op::Entry(..)
                | Op::GetMut(..)
                | Op::GetMutRaw(..)
                | Op::Setup(..)
                | Op::Exec(..)
                | Op::InsertFused(..)
                | Op::EntryFault(..)
                | Op::ExecFault(..)
        )
    }
}

fn classify(msg: &str) -> String {
    if msg.contains("wrong type ID") {
        "wrongType".into()
    } else if msg.contains("does not exist") {
        "absent".into()
    } else if msg.contains("already mutably borrowed") {
        "alreadyMutablyBorrowed".into()
    } else if msg.contains("already immutably borrowed") {
        "alreadyImmutablyBorrowed".into()
    } else if msg.contains("already borrowed") {
        "alreadyBorrowed".into()
    } else if msg.contains("harness: drop fuse") {
        "dropFuse".into()
    } else if msg.contains("harness: explicit") {
        "explicit".into()
    } else {
        format!("other:{}", msg.chars().take(60).map(|c| if c.is_whitespace() { '_' } else { c }).collect::<String>())
    }
}
fn is_borrow_panic(kind: &str) -> bool {
    kind.starts_with("already")
}
fn catch<R>(f: impl FnOnce() -> R) -> Result<R, String> {
    catch_unwind(AssertUnwindSafe(f)).map_err(|p| classify(&panic_message(&p)))
}

/// what the real crate answered
enum Real {
    Unit,
    Bool(bool),
    Guard(Box<dyn GuardLike>),
    None,
    Value(u8, u64),
    Seen(u8, u64),
    Data(Vec<Option<Box<dyn GuardLike>>>),
    DataSeen(Vec<Option<(u8, u64)>>),
    Panic(String),
    /// the call was unwound by a panic of user code: "closure" / "drop"
    Unwound(&'static str),
    /// a closure that took guards: what they showed, how it ended ("ok", "explicit", "panic:<kind>")
    Scoped(Vec<Option<(u8, u64)>>, String),
}
fn show_seen(s: (u8, u64)) -> String {
    if s.0 == 0 {
        "*".into()
    } else {
        s.1.to_string()
    }
}
impl Real {
    fn show(&self) -> String {
        match self {
            Real::Unit => "unit".into(),
            Real::Bool(b) => format!("bool {}", b),
            Real::Guard(g) => format!("guard {}", show_seen(g.see())),
            Real::None => "none".into(),
            Real::Value(t, k) => format!("value {}", show_seen((*t, *k))),
            Real::Seen(t, k) => format!("seen {}", show_seen((*t, *k))),
            Real::Data(f) => format!(
                "data {}",
                if f.is_empty() { "-".to_string() } else { f.iter().map(|x| x.as_ref().map(|g| show_seen(g.see())).unwrap_or("-".into())).collect::<Vec<_>>().join(",") }
            ),
            Real::DataSeen(f) => format!(
                "data {}",
                if f.is_empty() { "-".to_string() } else { f.iter().map(|x| x.map(show_seen).unwrap_or("-".into())).collect::<Vec<_>>().join(",") }
            ),
            Real::Panic(k) => format!("panic {}", k),
            Real::Unwound(k) => format!("unwound {}", k),
            Real::Scoped(f, e) => format!(
                "scoped {} {}",
                if f.is_empty() { "-".to_string() } else { f.iter().map(|x| x.map(show_seen).unwrap_or("-".into())).collect::<Vec<_>>().join(",") },
                e
            ),
        }
    }
}
/// a caught panic of a faulty call: the injected faults are "unwound", everything else is a panic of the world
fn unwound_or_panic(kind: String) -> Real {
    match kind.as_str() {
        "dropFuse" => Real::Unwound("drop"),
        "explicit" => Real::Unwound("closure"),
        _ => Real::Panic(kind),
    }
}
/// the model's answer with handles stripped and ZST tokens hidden; returns (canonical, handles)
fn canon_model(s: &str) -> (String, Vec<Option<u64>>) {
    let w: Vec<&str> = s.split(' ').collect();
    match w.as_slice() {
        ["guard", h, t] => (format!("guard {}", show_tok(t.parse().unwrap_or(1))), vec![h.parse().ok()]),
        ["value", t] => (format!("value {}", show_tok(t.parse().unwrap_or(1))), vec![]),
        ["seen", t] => (format!("seen {}", show_tok(t.parse().unwrap_or(1))), vec![]),
        ["scoped", f, e] => {
            let out: Vec<String> = if *f == "-" { vec![] } else { f.split(',').map(|x| if x == "-" { "-".to_string() } else { show_tok(x.parse().unwrap_or(1)) }).collect() };
            (format!("scoped {} {}", if out.is_empty() { "-".to_string() } else { out.join(",") }, e), vec![])
        }
        ["data", f] => {
            if *f == "-" {
                return ("data -".into(), vec![]);
            }
            let mut hs = vec![];
            let mut out = vec![];
            for x in f.split(',') {
                match x.split_once(':') {
                    Some((h, t)) => {
                        hs.push(h.parse().ok());
                        out.push(show_tok(t.parse().unwrap_or(1)));
                    }
                    None => {
                        hs.push(None);
                        out.push("-".into());
                    }
                }
            }
            (format!("data {}", out.join(",")), hs)
        }
        _ => (s.to_string(), vec![]),
    }
}

/// what the harness's own bookkeeping (reference map + shadow counts) says must happen
#[derive(Debug, Clone, PartialEq)]
enum Exp {
    Unit,
    Bool(bool),
    Guard(u64),
    None,
    PanicBorrow,
    Panic(&'static str),
    Value(u64),
    Seen(u64),
    Data(Vec<Option<u64>>),
    Unwound(&'static str),
    /// tokens shown, end ("ok", "explicit", "panic:absent", "panic:wrongType", "panic:already" = any borrow panic)
    Scoped(Vec<Option<u64>>, &'static str),
    Skip,
}
impl Exp {
    fn show(&self) -> String {
        match self {
            Exp::Unit => "unit".into(),
            Exp::Bool(b) => format!("bool {}", b),
            Exp::Guard(t) => format!("guard {}", show_tok(*t)),
            Exp::None => "none".into(),
            Exp::PanicBorrow => "panic already*".into(),
            Exp::Panic(k) => format!("panic {}", k),
            Exp::Value(t) => format!("value {}", show_tok(*t)),
            Exp::Seen(t) => format!("seen {}", show_tok(*t)),
            Exp::Data(f) => format!("data {}", if f.is_empty() { "-".to_string() } else { f.iter().map(|x| x.map(show_tok).unwrap_or("-".into())).collect::<Vec<_>>().join(",") }),
            Exp::Unwound(k) => format!("unwound {}", k),
            Exp::Scoped(f, e) => format!(
                "scoped {} {}{}",
                if f.is_empty() { "-".to_string() } else { f.iter().map(|x| x.map(show_tok).unwrap_or("-".into())).collect::<Vec<_>>().join(",") },
                e,
                if *e == "panic:already" { "*" } else { "" }
            ),
            Exp::Skip => "skip".into(),
        }
    }
    fn matches(&self, real: &str) -> bool {
        match self {
            Exp::PanicBorrow => real.starts_with("panic already"),
            Exp::Scoped(_, "panic:already") => {
                let want = self.show();
                real.starts_with(want.trim_end_matches('*'))
            }
            e => e.show() == real,
        }
    }
}

// ---------------------------------------------------------------------------------------------
// one history against the real crate (+ optionally the model)
// ---------------------------------------------------------------------------------------------

enum It {
    R(MetaIter<'static, dyn Tok>),
    W(MetaIterMut<'static, dyn Tok>),
}

#[derive(Default, Clone)]
pub struct Stats {
    pub ops: u64,
    pub skipped: u64,
    pub borrow_panics: u64,
    pub absent_panics: u64,
    pub wrong_type_panics: u64,
    pub guards: u64,
    pub max_live: u64,
    pub max_shared_on_one: u64,
    pub clones: u64,
    pub replaced: u64,
    pub removed: u64,
    pub defaults_created: u64,
    pub sd_panics: u64,
    pub sd_ok: u64,
    pub iter_steps: u64,
    pub scopes: u64,
    pub scopes_refused_holding_guards: u64,
    pub scopes_explicit_panic_holding_guards: u64,
    pub guards_unwound: u64,
    pub max_guards_unwound_at_once: u64,
    pub scopes_while_outer_guards_alive: u64,
    pub fused_drops_fired: u64,
    pub closure_panics: u64,
    pub world_drops_with_panicking_drop: u64,
    pub world_drops_while_unwinding: u64,
    pub values_leaked_by_world_drop: u64,
    pub by_op: BTreeMap<String, u64>,
}

pub struct Outcome {
    /// (property, what)
    pub impl_v: Vec<(String, String)>,
    /// (aspect, what)
    pub model_v: Vec<(String, String)>,
    pub transcript: Vec<String>,
    pub stats: Stats,
}

struct Case {
    wp: *mut World,
    tp: *mut MetaTable<dyn Tok>,
    tys: Vec<u8>,
    live: Vec<Live>,
    iters: BTreeMap<u64, (It, usize, bool)>,
    refmap: BTreeMap<Key, u64>,
    /// values `remove` handed back: (type, token — for the ZST the token the reference map had), the value
    held: Vec<(u8, u64, Box<dyn Any>)>,
    /// set by `drop-world-panic`: the id whose value's `Drop` panics when the world is dropped
    end_fuse: Option<Key>,
    /// the drop accounting failed: a value may have been dropped while it is still reachable —
    /// nothing may look at or drop the world's values any more
    poisoned: bool,
    menu: Vec<SdEntry>,
    impl_v: Vec<(String, String)>,
    model_v: Vec<(String, String)>,
    stats: Stats,
}

impl Case {
    fn new() -> Case {
        {
            let mut l = LOG.lock().unwrap_or_else(|e| e.into_inner());
            l.made.clear();
            l.dropped.clear();
            ZTOKS.lock().unwrap_or_else(|e| e.into_inner()).clear();
        }
        DEFAULTS.with(|d| d.borrow_mut().clear());
        disarm();
        *FUSE_IN_UNWIND.lock().unwrap_or_else(|e| e.into_inner()) = false;
        Case {
            wp: Box::into_raw(Box::new(World::empty())),
            tp: Box::into_raw(Box::new(MetaTable::<dyn Tok>::new())),
            tys: vec![],
            live: vec![],
            iters: BTreeMap::new(),
            refmap: BTreeMap::new(),
            held: vec![],
            end_fuse: None,
            poisoned: false,
            menu: sd_menu(),
            impl_v: vec![],
            model_v: vec![],
            stats: Stats::default(),
        }
    }
    fn w(&self) -> &'static World {
        // SAFETY (harness): the box lives until `finish`; `&mut` access only happens with no guard and no iterator alive
        unsafe { &*self.wp }
    }
    fn wm(&mut self) -> &'static mut World {
        assert!(self.live.is_empty() && self.iters.is_empty());
        unsafe { &mut *self.wp }
    }
    fn shadow(&self, k: Key) -> (u64, u64) {
        let s = self.live.iter().filter(|l| l.key == k && !l.excl).count() as u64;
        let x = self.live.iter().filter(|l| l.key == k && l.excl).count() as u64;
        (s, x)
    }
    fn violate(&mut self, prop: &str, what: String) {
        self.impl_v.push((prop.to_string(), what));
    }

    /// borrow state (`F`ree / `S`hared + number of shared borrows / e`X`clusive / `#` corrupt), presence,
    /// type and token of every cell, from the real world only
    fn probe(&self) -> Vec<(Key, Option<(char, usize, Option<(Option<u8>, u64)>)>)> {
        let w = self.w();
        let high = !(usize::MAX >> 1);
        all_keys()
            .into_iter()
            .map(|k| {
                let has = w.has_value_raw(rid(k));
                // SAFETY: the box is never replaced through this reference
                let cell = unsafe { w.try_fetch_internal(rid(k)) };
                let st = match cell {
                    None => None,
                    Some(c) => {
                        // look first: a counter that was decremented too often makes the cell's own
                        // `try_borrow` panic or abort the process
                        let raw = peek_counter(c);
                        let api_ok = match raw {
                            None => true,
                            Some(v) => v < (1 << 20) || (v & high != 0 && v < high + (1 << 20)),
                        };
                        if !api_ok {
                            Some(('#', NCOUNT, None))
                        } else {
                            let via_api = catch(|| {
                                if let Ok(g) = c.try_borrow_mut() {
                                    ('F', Some(inspect(&**g)))
                                } else if let Ok(g) = c.try_borrow() {
                                    ('S', Some(inspect(&**g)))
                                } else {
                                    ('X', None)
                                }
                            });
                            match (via_api, raw) {
                                (Err(_), _) => Some(('#', NCOUNT, None)),
                                (Ok((c, i)), None) => Some((c, NCOUNT, i)),
                                (Ok(('F', i)), Some(0)) => Some(('F', 0, i)),
                                (Ok(('S', i)), Some(n)) if n > 0 && n & high == 0 => Some(('S', n, i)),
                                (Ok(('X', i)), Some(n)) if n & high != 0 => Some(('X', 0, i)),
                                // the counter and the cell's answers disagree
                                (Ok(_), Some(_)) => Some(('#', NCOUNT, None)),
                            }
                        }
                    }
                };
                if has != st.is_some() {
                    // has_value_raw and the table disagree: reported by `check_state`
                    return (k, Some((if has { '?' } else { '!' }, NCOUNT, None)));
                }
                (k, st)
            })
            .collect()
    }
    fn snapshot(&self) -> String {
        self.probe()
            .iter()
            .map(|(k, s)| match s {
                None => format!("{}:-", show_key(*k)),
                Some((c, n, i)) => format!(
                    "{}:{}{}:{}",
                    show_key(*k),
                    c,
                    if *c == 'S' && *n != NCOUNT { n.to_string() } else { String::new() },
                    i.map(|(t, tok)| format!("{:?}/{}", t, tok)).unwrap_or_default()
                ),
            })
            .collect::<Vec<_>>()
            .join(" ")
    }

    /// conservation of values, from the drop log and the harness's own bookkeeping only (nothing
    /// stored in the world is looked at)
    fn check_conservation(&self, after: &str) -> Vec<(&'static str, String)> {
        let mut v: Vec<(&'static str, String)> = vec![];
        let l = LOG.lock().unwrap_or_else(|e| e.into_inner());
        let mut seen: BTreeSet<u64> = BTreeSet::new();
        for (ty, tok) in &l.dropped {
            if *ty != 0 && !seen.insert(*tok) {
                v.push(("C09", format!("after `{}`: the value with token {} was dropped twice", after, tok)));
            }
        }
        let stored: BTreeSet<u64> = self.refmap.iter().filter(|(k, _)| k.0 != 0).map(|(_, t)| *t).collect();
        let held: BTreeSet<u64> = self.held.iter().filter(|h| h.0 != 0).map(|h| h.1).collect();
        for (ty, tok) in &l.made {
            if *ty == 0 {
                continue;
            }
            let n = seen.contains(tok) as u8 + stored.contains(tok) as u8 + held.contains(tok) as u8;
            if n != 1 {
                let what = match (seen.contains(tok), stored.contains(tok), held.contains(tok)) {
                    (true, true, _) => "its Drop has run although it must still be stored in the world".to_string(),
                    (true, _, true) => "its Drop has run although `remove` handed it to the caller, who still holds it".to_string(),
                    (false, false, false) => "it is neither stored, nor in the caller's hands, nor was it dropped (leaked)".to_string(),
                    _ => "it is both stored and in the caller's hands".to_string(),
                };
                v.push(("C09", format!("after `{}`: the value with token {} is in {} of {{world, returned, dropped}} (dropped: {}, stored according to the reference map: {}, returned: {}): {}", after, tok, n, seen.contains(tok), stored.contains(tok), held.contains(tok), what)));
            }
        }
        let zm = l.made.iter().filter(|x| x.0 == 0).count();
        let zd = l.dropped.iter().filter(|x| x.0 == 0).count();
        let zs = self.refmap.keys().filter(|k| k.0 == 0).count() + self.held.iter().filter(|h| h.0 == 0).count();
        if zm != zd + zs {
            let what = if zd + zs > zm { "one was dropped although it must still be stored (or was dropped twice)" } else { "one is neither stored, nor in the caller's hands, nor was it dropped" };
            v.push(("C09", format!("after `{}`: {} zero-sized values were made, {} dropped, {} are stored or returned: {}", after, zm, zd, zs, what)));
        }
        if *FUSE_IN_UNWIND.lock().unwrap_or_else(|e| e.into_inner()) {
            v.push(("C09", format!("after `{}`: the value whose Drop was to panic was dropped while the call was already being unwound by another panic", after)));
        }
        v
    }

    /// every implementation-side check that only looks at the current state
    fn check_state(&mut self, after: &str) {
        // the drop accounting first: if it fails, a value may have been dropped while it is still
        // reachable, and the world's values must not be looked at (or dropped) any more
        let cv = self.check_conservation(after);
        if !cv.is_empty() {
            self.poisoned = true;
            for (p, w) in cv {
                self.violate(p, w);
            }
            return;
        }
        let pr = self.probe();
        let mut v: Vec<(&str, String)> = vec![];
        for (k, st) in &pr {
            let (s, x) = self.shadow(*k);
            let refd = self.refmap.get(k).copied();
            match st {
                None => {
                    if refd.is_some() {
                        v.push(("C09", format!("after `{}`: {} is absent but the reference map holds token {}", after, show_key(*k), refd.unwrap())));
                    }
                    if s + x > 0 {
                        v.push(("C08", format!("after `{}`: {} is absent although {} guard(s) on it are alive", after, show_key(*k), s + x)));
                    }
                }
                Some((c @ ('?' | '!'), _, _)) => {
                    v.push(("C09", format!("after `{}`: has_value_raw({}) answers {} but the cell lookup (try_fetch_internal) says {}", after, show_key(*k), *c == '?', *c != '?')));
                }
                Some((c, n, info)) => {
                    if refd.is_none() {
                        v.push(("C09", format!("after `{}`: {} is present but the reference map has no entry", after, show_key(*k))));
                    }
                    let want = if x > 0 { 'X' } else if s > 0 { 'S' } else { 'F' };
                    if *c != want || x > 1 || (x > 0 && s > 0) {
                        let state = match c { 'X' => "exclusively borrowed", 'S' => "shared-borrowed", '#' => "in a corrupt borrow state (its counter is neither 0, a small number, nor the exclusive mark)", _ => "unborrowed" };
                        v.push(("C08", format!("after `{}`: cell {} is {} ({}) but exactly {} shared / {} exclusive guard(s) on it are alive", after, show_key(*k), state, c, s, x)));
                    } else if *c == 'S' && *n != NCOUNT && *n as u64 != s {
                        v.push(("C08", format!("after `{}`: cell {} counts {} shared borrow(s) but exactly {} shared guard(s) on it are alive", after, show_key(*k), n, s)));
                    }
                    if let Some((ty, tok)) = info {
                        if *ty != Some(k.0) {
                            v.push(("C09", format!("after `{}`: the value stored under {} has type index {:?}, not {}", after, show_key(*k), ty, k.0)));
                        } else if let Some(r) = refd {
                            if k.0 != 0 && *tok != r {
                                v.push(("C09", format!("after `{}`: {} holds token {} but the reference map says {}", after, show_key(*k), tok, r)));
                            }
                        }
                    }
                }
            }
        }
        // existing guards stay usable and keep showing the same value
        for l in &self.live {
            let now = l.g.see();
            if now != l.seen {
                v.push(("C08", format!("after `{}`: a live guard on {} showed {:?} when taken and shows {:?} now", after, show_key(l.key), l.seen, now)));
            }
        }
        // type ids through get_mut_raw when nothing is borrowed (`AtomicRefCell::get_mut` asserts that,
        // so only if every cell probed as free: a stuck borrow is reported above)
        let all_free = pr.iter().all(|(_, st)| matches!(st, None | Some(('F', _, _))));
        if self.live.is_empty() && self.iters.is_empty() && all_free {
            let w = self.wm();
            for k in all_keys() {
                let t = w.get_mut_raw(rid(k)).map(|r| Any::type_id(&*r));
                if let Some(t) = t {
                    if t != type_id_of(k.0) {
                        v.push(("C09", format!("after `{}`: get_mut_raw({}).type_id() is not the type named by the id", after, show_key(k))));
                    }
                }
            }
        }
        for (p, w) in v {
            self.violate(p, w);
        }
    }

    /// compatibility of a request with the guards the harness holds
    fn compatible(&self, k: Key, excl: bool, extra: &[(Key, bool)]) -> bool {
        let (mut s, mut x) = self.shadow(k);
        for (ek, ex) in extra {
            if *ek == k {
                if *ex {
                    x += 1
                } else {
                    s += 1
                }
            }
        }
        if excl {
            s == 0 && x == 0
        } else {
            x == 0
        }
    }
    fn expect_fetch(&self, k: Key, excl: bool, or_panic: bool) -> Exp {
        match self.refmap.get(&k) {
            None => {
                if or_panic {
                    Exp::Panic("absent")
                } else {
                    Exp::None
                }
            }
            Some(t) => {
                if self.compatible(k, excl, &[]) {
                    Exp::Guard(*t)
                } else {
                    Exp::PanicBorrow
                }
            }
        }
    }
    fn expect_setup(&self, items: &[Item], toks: &[u64]) -> BTreeMap<Key, u64> {
        let mut m = self.refmap.clone();
        let mut q: VecDeque<u64> = toks.iter().copied().collect();
        for it in items {
            if it.dflt && !it.opt && !m.contains_key(&(it.ty, 0)) {
                if let Some(t) = q.pop_front() {
                    m.insert((it.ty, 0), t);
                }
            }
        }
        m
    }
    fn expect_data(&self, map: &BTreeMap<Key, u64>, items: &[Item]) -> Exp {
        let mut taken: Vec<(Key, bool)> = vec![];
        let mut out = vec![];
        for it in items {
            let k = (it.ty, 0);
            match map.get(&k) {
                None => {
                    if it.opt {
                        out.push(None)
                    } else {
                        return Exp::Panic("absent");
                    }
                }
                Some(t) => {
                    if !self.compatible(k, it.write, &taken) {
                        return Exp::PanicBorrow;
                    }
                    taken.push((k, it.write));
                    out.push(Some(*t));
                }
            }
        }
        Exp::Data(out)
    }
    /// position after the step and what it must answer
    fn expect_iter(&self, idx: usize, excl: bool) -> (usize, Option<Key>, Exp) {
        let mut i = idx;
        while i < self.tys.len() {
            let k = (self.tys[i], 0);
            i += 1;
            if let Some(t) = self.refmap.get(&k) {
                return (i, Some(k), if self.compatible(k, excl, &[]) { Exp::Guard(*t) } else { Exp::PanicBorrow });
            }
        }
        (i, None, Exp::None)
    }

    fn add_guard(&mut self, g: Box<dyn GuardLike>, key: Key, excl: bool, mh: Option<u64>) {
        let seen = g.see();
        self.live.push(Live { g, key, excl, mh, seen });
        self.stats.guards += 1;
        self.stats.max_live = self.stats.max_live.max(self.live.len() as u64);
        let (s, _) = self.shadow(key);
        self.stats.max_shared_on_one = self.stats.max_shared_on_one.max(s);
    }
}

/// the fetches without `catch_unwind` (for use inside a closure that is itself caught)
fn raw_fetch(w: &'static World, ty: u8, excl: bool, or_panic: bool) -> Option<Box<dyn GuardLike>> {
    by_ty!(ty, T => match (excl, or_panic) {
        (false, true) => Some(Box::new(w.fetch::<T>()) as Box<dyn GuardLike>),
        (true, true) => Some(Box::new(w.fetch_mut::<T>()) as Box<dyn GuardLike>),
        (false, false) => w.try_fetch::<T>().map(|g| Box::new(g) as Box<dyn GuardLike>),
        (true, false) => w.try_fetch_mut::<T>().map(|g| Box::new(g) as Box<dyn GuardLike>),
    })
}
fn raw_fetch_by_id(w: &'static World, a: u8, k: Key, excl: bool) -> Option<Box<dyn GuardLike>> {
    let id = rid(k);
    by_ty!(a, T => if excl {
        w.try_fetch_mut_by_id::<T>(id).map(|g| Box::new(g) as Box<dyn GuardLike>)
    } else {
        w.try_fetch_by_id::<T>(id).map(|g| Box::new(g) as Box<dyn GuardLike>)
    })
}

/// a guard a closure owns, as the harness's bookkeeping sees it
#[derive(Clone, Copy)]
struct Own {
    key: Key,
    excl: bool,
    cloneable: bool,
}
struct ScopePlan {
    /// the takes that are expressible in the current state, cut after the first one that must be refused
    takes: Vec<Take>,
    seen: Vec<Option<u64>>,
    /// "ok" / "explicit" / "panic:absent" / "panic:wrongType" / "panic:already"
    fin: &'static str,
    /// guards the closure owns when it ends
    holding: usize,
}

impl Case {
    /// what a closure must see and how it must end, from the reference map and the guard table
    /// (the closure's own guards count like any others); normalises the clone takes
    fn plan_scope(&self, takes: &[Take], end_panic: bool) -> ScopePlan {
        let mut own: Vec<Own> = vec![];
        let mut out: Vec<Take> = vec![];
        let mut seen: Vec<Option<u64>> = vec![];
        let mut fin: Option<&'static str> = None;
        let (mut ri, mut wi) = (0usize, 0usize);
        for t in takes {
            let extra: Vec<(Key, bool)> = own.iter().map(|h| (h.key, h.excl)).collect();
            match t {
                Take::Fetch(ty, excl, or_panic) => {
                    out.push(t.clone());
                    let k = (*ty, 0);
                    match self.refmap.get(&k) {
                        None => {
                            if *or_panic {
                                fin = Some("panic:absent")
                            } else {
                                seen.push(None)
                            }
                        }
                        Some(tok) => {
                            if self.compatible(k, *excl, &extra) {
                                own.push(Own { key: k, excl: *excl, cloneable: !*excl });
                                seen.push(Some(*tok));
                            } else {
                                fin = Some("panic:already")
                            }
                        }
                    }
                }
                Take::ById(a, k, excl) => {
                    out.push(t.clone());
                    if *a != k.0 {
                        fin = Some("panic:wrongType")
                    } else {
                        match self.refmap.get(k) {
                            None => seen.push(None),
                            Some(tok) => {
                                if self.compatible(*k, *excl, &extra) {
                                    own.push(Own { key: *k, excl: *excl, cloneable: !*excl });
                                    seen.push(Some(*tok));
                                } else {
                                    fin = Some("panic:already")
                                }
                            }
                        }
                    }
                }
                Take::Data(spec) => {
                    if !self.menu.iter().any(|e| e.spec == spec.as_str()) {
                        continue;
                    }
                    out.push(t.clone());
                    let mut ex = extra.clone();
                    let mut got: Vec<Own> = vec![];
                    let mut fields: Vec<Option<u64>> = vec![];
                    for it in parse_items(spec).unwrap_or_default() {
                        let k = (it.ty, 0);
                        match self.refmap.get(&k) {
                            None => {
                                if it.opt {
                                    fields.push(None)
                                } else {
                                    fin = Some("panic:absent");
                                    break;
                                }
                            }
                            Some(tok) => {
                                if self.compatible(k, it.write, &ex) {
                                    ex.push((k, it.write));
                                    got.push(Own { key: k, excl: it.write, cloneable: false });
                                    fields.push(Some(*tok));
                                } else {
                                    fin = Some("panic:already");
                                    break;
                                }
                            }
                        }
                    }
                    // a refused tuple is unwound inside `system_data`: the closure never sees its fields
                    if fin.is_none() {
                        own.extend(got);
                        seen.extend(fields);
                    }
                }
                Take::Iter(excl) => {
                    out.push(t.clone());
                    let idx = if *excl { &mut wi } else { &mut ri };
                    let mut answered = false;
                    while *idx < self.tys.len() {
                        let k = (self.tys[*idx], 0);
                        *idx += 1;
                        if let Some(tok) = self.refmap.get(&k) {
                            if self.compatible(k, *excl, &extra) {
                                own.push(Own { key: k, excl: *excl, cloneable: !*excl });
                                seen.push(Some(*tok));
                            } else {
                                fin = Some("panic:already")
                            }
                            answered = true;
                            break;
                        }
                    }
                    if !answered {
                        seen.push(None)
                    }
                }
                Take::CloneLocal(i) => {
                    if own.is_empty() {
                        continue;
                    }
                    let i = *i % own.len();
                    if own[i].excl || !own[i].cloneable {
                        continue;
                    }
                    out.push(Take::CloneLocal(i));
                    let k = own[i].key;
                    own.push(Own { key: k, excl: false, cloneable: true });
                    seen.push(self.refmap.get(&k).copied());
                }
                Take::CloneOuter(i) => {
                    if self.live.is_empty() {
                        continue;
                    }
                    let i = *i % self.live.len();
                    if self.live[i].excl || !self.live[i].g.can_clone() {
                        continue;
                    }
                    out.push(Take::CloneOuter(i));
                    let k = self.live[i].key;
                    own.push(Own { key: k, excl: false, cloneable: true });
                    seen.push(self.refmap.get(&k).copied());
                }
            }
            if fin.is_some() {
                break;
            }
        }
        ScopePlan { takes: out, seen, fin: fin.unwrap_or(if end_panic { "explicit" } else { "ok" }), holding: own.len() }
    }

    /// the closure itself, against the real world; second component: guards it owned when it ended
    fn real_scope(&self, takes: &[Take], end_panic: bool) -> (Real, usize) {
        // SAFETY (harness): table and world outlive the closure
        let (t, w): (&'static MetaTable<dyn Tok>, &'static World) = (unsafe { &*self.tp }, self.w());
        let (live, menu) = (&self.live, &self.menu);
        let seen: RefCell<Vec<Option<(u8, u64)>>> = RefCell::new(vec![]);
        let holding = std::cell::Cell::new(0usize);
        let r = catch(|| {
            let mut stack = RevDrop(vec![]);
            let mut it_r: Option<MetaIter<'static, dyn Tok>> = None;
            let mut it_w: Option<MetaIterMut<'static, dyn Tok>> = None;
            for tk in takes {
                let got: Vec<Option<Box<dyn GuardLike>>> = match tk {
                    Take::Fetch(ty, excl, or_panic) => vec![raw_fetch(w, *ty, *excl, *or_panic)],
                    Take::ById(a, k, excl) => vec![raw_fetch_by_id(w, *a, *k, *excl)],
                    Take::Data(spec) => match menu.iter().find(|e| e.spec == spec.as_str()) {
                        Some(e) => (e.fetch)(w),
                        None => vec![],
                    },
                    Take::Iter(false) => vec![it_r.get_or_insert_with(|| t.iter(w)).next().map(|g| Box::new(g) as Box<dyn GuardLike>)],
                    Take::Iter(true) => vec![it_w.get_or_insert_with(|| t.iter_mut(w)).next().map(|g| Box::new(g) as Box<dyn GuardLike>)],
                    Take::CloneLocal(i) => match stack.0.get(*i).and_then(|g| g.try_clone()) {
                        Some(g) => vec![Some(g)],
                        None => vec![],
                    },
                    Take::CloneOuter(i) => match live.get(*i).and_then(|l| l.g.try_clone()) {
                        Some(g) => vec![Some(g)],
                        None => vec![],
                    },
                };
                for g in got {
                    seen.borrow_mut().push(g.as_ref().map(|g| g.see()));
                    if let Some(g) = g {
                        stack.0.push(g);
                        holding.set(stack.0.len());
                    }
                }
            }
            if end_panic {
                panic!("harness: explicit");
            }
        });
        let mut fin = match r {
            Ok(()) => "ok".to_string(),
            Err(k) if k == "explicit" => k,
            Err(k) => format!("panic:{}", k),
        };
        let gp: Vec<String> = std::mem::take(&mut *GUARD_DROP_PANICS.lock().unwrap_or_else(|e| e.into_inner()));
        if !gp.is_empty() {
            fin = format!("{}+guard-drop-panicked:{}", fin, gp.join("+"));
        }
        (Real::Scoped(seen.into_inner(), fin), holding.get())
    }
}

impl Case {
    fn real_fetch(&self, ty: u8, excl: bool, or_panic: bool) -> Real {
        let w = self.w();
        let r: Result<Option<Box<dyn GuardLike>>, String> = by_ty!(ty, T => match (excl, or_panic) {
            (false, true) => catch(|| Some(Box::new(w.fetch::<T>()) as Box<dyn GuardLike>)),
            (true, true) => catch(|| Some(Box::new(w.fetch_mut::<T>()) as Box<dyn GuardLike>)),
            (false, false) => catch(|| w.try_fetch::<T>().map(|g| Box::new(g) as Box<dyn GuardLike>)),
            (true, false) => catch(|| w.try_fetch_mut::<T>().map(|g| Box::new(g) as Box<dyn GuardLike>)),
        });
        match r {
            Ok(Some(g)) => Real::Guard(g),
            Ok(None) => Real::None,
            Err(k) => Real::Panic(k),
        }
    }
    fn real_fetch_by_id(&self, a: u8, k: Key, excl: bool) -> Real {
        let w = self.w();
        let id = rid(k);
        let r: Result<Option<Box<dyn GuardLike>>, String> = by_ty!(a, T => if excl {
            catch(|| w.try_fetch_mut_by_id::<T>(id).map(|g| Box::new(g) as Box<dyn GuardLike>))
        } else {
            catch(|| w.try_fetch_by_id::<T>(id).map(|g| Box::new(g) as Box<dyn GuardLike>))
        });
        match r {
            Ok(Some(g)) => Real::Guard(g),
            Ok(None) => Real::None,
            Err(k) => Real::Panic(k),
        }
    }

    /// Runs one operation; returns false if it was skipped (not expressible in safe Rust in the
    /// current state, e.g. a `&mut` call while a guard is alive).
    fn run_op(&mut self, op: &Op, mut drv: Option<&mut Drv>, transcript: &mut Vec<String>) -> bool {
        // ---- legality / addressing
        let mut op = op.clone();
        match &mut op {
            Op::Clone(i) | Op::Drop(i) => {
                if self.live.is_empty() {
                    return false;
                }
                *i %= self.live.len();
            }
            Op::IterNext(id) => {
                if !self.iters.contains_key(id) {
                    return false;
                }
            }
            Op::SystemData(s) | Op::Setup(s, _) | Op::Exec(s, _) => {
                if !self.menu.iter().any(|e| e.spec == s.as_str()) {
                    return false;
                }
            }
            Op::ExecFault(s, _) => {
                if !self.menu.iter().any(|e| e.spec == s.as_str()) {
                    return false;
                }
            }
            Op::DropReturned(i, _) => {
                if self.held.is_empty() {
                    return false;
                }
                *i %= self.held.len();
            }
            Op::DropWorld(k) => {
                // takes effect in `finish` (nothing can follow it); an absent id has nothing to arm
                if !self.refmap.contains_key(k) {
                    return false;
                }
                self.end_fuse = Some(*k);
                transcript.push(op.line());
                self.stats.ops += 1;
                *self.stats.by_op.entry("drop-world-panic".to_string()).or_insert(0) += 1;
                return true;
            }
            Op::IdMap(_) => {
                transcript.push(op.line());
                return true;
            }
            Op::Meta(_) | Op::Conc { .. } => return false,
            _ => {}
        }
        let mut scope_plan: Option<ScopePlan> = None;
        if let Op::Scope(takes, e) = &mut op {
            let plan = self.plan_scope(takes, *e);
            *takes = plan.takes.clone();
            scope_plan = Some(plan);
        }
        if let Op::Clone(i) = &op {
            if self.live[*i].excl || self.live[*i].g.try_clone().map(drop).is_none() {
                return false;
            }
        }
        if op.is_mut() {
            if !self.live.is_empty() {
                return false;
            }
            self.iters.clear();
        }
        let line = op.line();
        transcript.push(line.clone());
        self.stats.ops += 1;
        *self.stats.by_op.entry(line.split(' ').next().unwrap_or("").to_string()).or_insert(0) += 1;
        let before = self.snapshot();

        // ---- expectation, model request, real call
        let mut model_line = format!("world {}", line);
        // guards the real call produced: (guard, key, excl)
        let mut new_guards: Vec<(Box<dyn GuardLike>, Key, bool)> = vec![];
        let mut frame_exempt = false;
        // what a closure that panics must have seen through its guards (entry-held, exec-panic)
        let mut entry_seen_expected: Option<Vec<Option<u64>>> = None;
        let mut skip_model_outcome = false;
        // the armed value's Drop ran (and panicked) during the call
        let mut fuse_fired = false;
        let (exp, real): (Exp, Real) = match &op {
            Op::Insert(ty, tok) => {
                let w = self.wm();
                let r = by_ty!(*ty, T => { let v = T::make(*tok); catch(move || w.insert::<T>(v)) });
                (Exp::Unit, match r { Ok(()) => Real::Unit, Err(k) => Real::Panic(k) })
            }
            Op::InsertById(a, k, tok) => {
                let w = self.wm();
                let id = rid(*k);
                let r = by_ty!(*a, T => { let v = T::make(*tok); catch(move || w.insert_by_id::<T>(id, v)) });
                (if *a != k.0 { Exp::Panic("wrongType") } else { Exp::Unit }, match r { Ok(()) => Real::Unit, Err(k) => Real::Panic(k) })
            }
            Op::Remove(ty) => {
                let exp = match self.refmap.get(&(*ty, 0)) { Some(t) => Exp::Value(*t), None => Exp::None };
                let ztok = self.refmap.get(&(*ty, 0)).copied();
                let w = self.wm();
                let r: Result<Option<(u8, u64, Box<dyn Any>)>, String> =
                    by_ty!(*ty, T => catch(|| w.remove::<T>()).map(|o| o.map(|v| (v.ty(), v.tok(), Box::new(v) as Box<dyn Any>))));
                (exp, self.take_removed(r, ztok))
            }
            Op::RemoveById(a, k) => {
                let exp = if *a != k.0 { Exp::Panic("wrongType") } else { match self.refmap.get(k) { Some(t) => Exp::Value(*t), None => Exp::None } };
                let ztok = self.refmap.get(k).copied();
                let w = self.wm();
                let id = rid(*k);
                let r: Result<Option<(u8, u64, Box<dyn Any>)>, String> =
                    by_ty!(*a, T => catch(|| w.remove_by_id::<T>(id)).map(|o| o.map(|v| (v.ty(), v.tok(), Box::new(v) as Box<dyn Any>))));
                (exp, self.take_removed(r, ztok))
            }
            Op::Entry(ty, tok, by_value) => {
                let exp = Exp::Seen(self.refmap.get(&(*ty, 0)).copied().unwrap_or(*tok));
                let w = self.wm();
                let r: Result<(u8, u64), String> = by_ty!(*ty, T => if *by_value {
                    let v = T::make(*tok);
                    catch(move || { let g = w.entry::<T>().or_insert(v); (g.ty(), g.tok()) })
                } else {
                    let t = *tok;
                    catch(move || { let g = w.entry::<T>().or_insert_with(move || T::make(t)); (g.ty(), g.tok()) })
                });
                (exp, match r { Ok((t, k)) => Real::Seen(t, k), Err(k) => Real::Panic(k) })
            }
            Op::Has(ty) => {
                let w = self.w();
                let r = by_ty!(*ty, T => catch(|| w.has_value::<T>()));
                (Exp::Bool(self.refmap.contains_key(&(*ty, 0))), match r { Ok(b) => Real::Bool(b), Err(k) => Real::Panic(k) })
            }
            Op::HasRaw(k) => {
                let w = self.w();
                let r = catch(|| w.has_value_raw(rid(*k)));
                (Exp::Bool(self.refmap.contains_key(k)), match r { Ok(b) => Real::Bool(b), Err(k) => Real::Panic(k) })
            }
            Op::GetMut(ty) => {
                let exp = match self.refmap.get(&(*ty, 0)) { Some(t) => Exp::Seen(*t), None => Exp::None };
                let w = self.wm();
                let r: Result<Option<(u8, u64)>, String> = by_ty!(*ty, T => catch(|| w.get_mut::<T>().map(|v| (v.ty(), v.tok()))));
                (exp, match r { Ok(Some((t, k))) => Real::Seen(t, k), Ok(None) => Real::None, Err(k) => Real::Panic(k) })
            }
            Op::GetMutRaw(k) => {
                let exp = match self.refmap.get(k) { Some(t) => Exp::Seen(*t), None => Exp::None };
                let w = self.wm();
                let id = rid(*k);
                let r = catch(|| w.get_mut_raw(id).map(|r| inspect(&*r)));
                (exp, match r { Ok(Some((t, tok))) => Real::Seen(t.unwrap_or(255), tok), Ok(None) => Real::None, Err(k) => Real::Panic(k) })
            }
            Op::Fetch(ty) => (self.expect_fetch((*ty, 0), false, true), self.real_fetch(*ty, false, true)),
            Op::FetchMut(ty) => (self.expect_fetch((*ty, 0), true, true), self.real_fetch(*ty, true, true)),
            Op::TryFetch(ty) => (self.expect_fetch((*ty, 0), false, false), self.real_fetch(*ty, false, false)),
            Op::TryFetchMut(ty) => (self.expect_fetch((*ty, 0), true, false), self.real_fetch(*ty, true, false)),
            Op::TryFetchById(a, k) => (
                if *a != k.0 { Exp::Panic("wrongType") } else { self.expect_fetch(*k, false, false) },
                self.real_fetch_by_id(*a, *k, false),
            ),
            Op::TryFetchMutById(a, k) => (
                if *a != k.0 { Exp::Panic("wrongType") } else { self.expect_fetch(*k, true, false) },
                self.real_fetch_by_id(*a, *k, true),
            ),
            Op::Clone(i) => {
                let l = &self.live[*i];
                model_line = format!("world clone {}", l.mh.unwrap_or(0));
                let exp = Exp::Guard(self.refmap.get(&l.key).copied().unwrap_or(u64::MAX));
                // every other time through `Clone::clone_from` into a clone of another shared guard of the
                // same type (of another cell, if there is one): the borrow of that other cell is given
                // back, this guard's cell is borrowed once more
                let scratch = if self.stats.clones % 2 == 1 {
                    let mut c: Vec<&Live> = self.live.iter().enumerate().filter(|(j, o)| *j != *i && !o.excl && o.key.0 == l.key.0 && o.g.as_any().is_some()).map(|x| x.1).collect();
                    c.sort_by_key(|o| o.key == l.key);
                    c.first().copied()
                } else {
                    None
                };
                let r = catch(|| match scratch.and_then(|s| l.g.clone_via_clone_from(&*s.g)) {
                    Some(g) => {
                        CLONE_FROMS.fetch_add(1, std::sync::atomic::Ordering::SeqCst);
                        Some(g)
                    }
                    None => l.g.try_clone(),
                });
                self.stats.clones += 1;
                (exp, match r { Ok(Some(g)) => Real::Guard(g), Ok(None) => Real::None, Err(k) => Real::Panic(k) })
            }
            Op::Drop(i) => {
                let l = self.live.remove(*i);
                model_line = format!("world drop {}", l.mh.unwrap_or(0));
                let r = catch(move || drop(l));
                (Exp::Unit, match r { Ok(()) => Real::Unit, Err(k) => Real::Panic(k) })
            }
            Op::SystemData(spec) => {
                let items = parse_items(spec).unwrap_or_default();
                let exp = self.expect_data(&self.refmap, &items);
                let f = self.menu.iter().find(|e| e.spec == spec.as_str()).unwrap().fetch;
                let w = self.w();
                let r = catch(|| f(w));
                (exp, match r { Ok(fs) => Real::Data(fs), Err(k) => Real::Panic(k) })
            }
            Op::Setup(spec, toks) => {
                let f = self.menu.iter().find(|e| e.spec == spec.as_str()).unwrap().setup;
                DEFAULTS.with(|d| *d.borrow_mut() = toks.iter().copied().collect());
                let w = self.wm();
                let r = catch(|| f(w));
                DEFAULTS.with(|d| d.borrow_mut().clear());
                (Exp::Unit, match r { Ok(()) => Real::Unit, Err(k) => Real::Panic(k) })
            }
            Op::Exec(spec, toks) => {
                frame_exempt = true;
                let items = parse_items(spec).unwrap_or_default();
                let m = self.expect_setup(&items, toks);
                let exp = self.expect_data(&m, &items);
                let f = self.menu.iter().find(|e| e.spec == spec.as_str()).unwrap().exec;
                DEFAULTS.with(|d| *d.borrow_mut() = toks.iter().copied().collect());
                let w = self.wm();
                let r = catch(|| f(w));
                DEFAULTS.with(|d| d.borrow_mut().clear());
                (exp, match r { Ok(fs) => Real::DataSeen(fs), Err(k) => Real::Panic(k) })
            }
            Op::Iter(id, x) => {
                // SAFETY (harness): table and world outlive every iterator (both freed in `finish`)
                let (t, w): (&'static MetaTable<dyn Tok>, &'static World) = (unsafe { &*self.tp }, self.w());
                let it = if *x { It::W(t.iter_mut(w)) } else { It::R(t.iter(w)) };
                self.iters.insert(*id, (it, 0, *x));
                (Exp::Skip, Real::Unit)
            }
            Op::IterNext(id) => {
                let (idx, x) = { let e = &self.iters[id]; (e.1, e.2) };
                let (nidx, key, exp) = self.expect_iter(idx, x);
                let e = self.iters.get_mut(id).unwrap();
                e.1 = nidx;
                self.stats.iter_steps += 1;
                let r: Result<Option<Box<dyn GuardLike>>, String> = match &mut e.0 {
                    It::R(it) => catch(|| it.next().map(|g| Box::new(g) as Box<dyn GuardLike>)),
                    It::W(it) => catch(|| it.next().map(|g| Box::new(g) as Box<dyn GuardLike>)),
                };
                match r {
                    Ok(Some(g)) => {
                        let k = key.unwrap_or((g.see().0, 0));
                        new_guards.push((g, k, x));
                        (exp, Real::Unit)
                    }
                    Ok(None) => (exp, Real::None),
                    Err(k) => (exp, Real::Panic(k)),
                }
            }
            Op::Scope(takes, e) => {
                let plan = scope_plan.take().unwrap();
                let words: Vec<String> = takes
                    .iter()
                    .map(|t| match t {
                        Take::CloneOuter(i) => format!("clone:{}", self.live[*i].mh.unwrap_or(0)),
                        t => t.word(),
                    })
                    .collect();
                model_line = format!("world scope {} {}", if *e { "panic" } else { "ok" }, if words.is_empty() { "-".to_string() } else { words.join(" ") });
                let (real, holding) = self.real_scope(takes, *e);
                self.stats.scopes += 1;
                if !self.live.is_empty() {
                    self.stats.scopes_while_outer_guards_alive += 1;
                }
                if let Real::Scoped(_, fin) = &real {
                    if fin != "ok" {
                        self.stats.guards_unwound += holding as u64;
                        self.stats.max_guards_unwound_at_once = self.stats.max_guards_unwound_at_once.max(holding as u64);
                        if holding > 0 {
                            if fin == "explicit" {
                                self.stats.scopes_explicit_panic_holding_guards += 1;
                            } else {
                                self.stats.scopes_refused_holding_guards += 1;
                            }
                        }
                    }
                }
                let _ = plan.holding;
                (Exp::Scoped(plan.seen, plan.fin), real)
            }
            Op::InsertFused(a, k, tok) => {
                let old = self.refmap.get(k).copied();
                let exp = if *a != k.0 {
                    Exp::Panic("wrongType")
                } else if old.is_some() {
                    Exp::Unwound("drop")
                } else {
                    Exp::Unit
                };
                let w = self.wm();
                let id = rid(*k);
                if let Some(o) = old {
                    arm(k.0, o);
                }
                let r = by_ty!(*a, T => { let v = T::make(*tok); catch(move || w.insert_by_id::<T>(id, v)) });
                if old.is_some() && !disarm() {
                    self.stats.fused_drops_fired += 1;
                    fuse_fired = true;
                }
                (exp, match r { Ok(()) => Real::Unit, Err(k) => unwound_or_panic(k) })
            }
            Op::EntryFault(ty, tok, f) => {
                let old = self.refmap.get(&(*ty, 0)).copied();
                let w = self.wm();
                match f {
                    EntryFault::Held(bv) => {
                        SEEN.with(|s| s.borrow_mut().clear());
                        let r: Result<(), String> = by_ty!(*ty, T => if *bv {
                            let v = T::make(*tok);
                            catch(move || {
                                let g = w.entry::<T>().or_insert(v);
                                SEEN.with(|s| s.borrow_mut().push(Some((g.ty(), g.tok()))));
                                panic!("harness: explicit");
                            })
                        } else {
                            let t = *tok;
                            catch(move || {
                                let g = w.entry::<T>().or_insert_with(move || T::make(t));
                                SEEN.with(|s| s.borrow_mut().push(Some((g.ty(), g.tok()))));
                                panic!("harness: explicit");
                            })
                        });
                        self.stats.closure_panics += 1;
                        entry_seen_expected = Some(vec![Some(old.unwrap_or(*tok))]);
                        (Exp::Unwound("closure"), match r { Ok(()) => Real::Unit, Err(k) => unwound_or_panic(k) })
                    }
                    EntryFault::Fused => {
                        arm(*ty, *tok);
                        let r: Result<(u8, u64), String> = by_ty!(*ty, T => {
                            let v = T::make(*tok);
                            catch(move || { let g = w.entry::<T>().or_insert(v); (g.ty(), g.tok()) })
                        });
                        if !disarm() {
                            self.stats.fused_drops_fired += 1;
                            fuse_fired = true;
                        }
                        (
                            if old.is_some() { Exp::Unwound("drop") } else { Exp::Seen(*tok) },
                            match r { Ok((t, k)) => Real::Seen(t, k), Err(k) => unwound_or_panic(k) },
                        )
                    }
                    EntryFault::Closure => {
                        let r: Result<(u8, u64), String> = by_ty!(*ty, T => catch(move || {
                            let g = w.entry::<T>().or_insert_with(|| -> T { panic!("harness: explicit") });
                            (g.ty(), g.tok())
                        }));
                        if old.is_none() {
                            self.stats.closure_panics += 1;
                        }
                        (
                            match old { Some(t) => Exp::Seen(t), None => Exp::Unwound("closure") },
                            match r { Ok((t, k)) => Real::Seen(t, k), Err(k) => unwound_or_panic(k) },
                        )
                    }
                }
            }
            Op::ExecFault(spec, toks) => {
                frame_exempt = true;
                let items = parse_items(spec).unwrap_or_default();
                let m = self.expect_setup(&items, toks);
                let exp = match self.expect_data(&m, &items) {
                    Exp::Data(out) => {
                        entry_seen_expected = Some(out);
                        Exp::Unwound("closure")
                    }
                    e => e,
                };
                let f = self.menu.iter().find(|e| e.spec == spec.as_str()).unwrap().exec_boom;
                DEFAULTS.with(|d| *d.borrow_mut() = toks.iter().copied().collect());
                SEEN.with(|s| s.borrow_mut().clear());
                let w = self.wm();
                let r = catch(|| f(w));
                DEFAULTS.with(|d| d.borrow_mut().clear());
                self.stats.closure_panics += 1;
                (exp, match r { Ok(fs) => Real::DataSeen(fs), Err(k) => unwound_or_panic(k) })
            }
            Op::DropReturned(i, fused) => {
                let (ty, tok, b) = self.held.remove(*i);
                model_line = format!("world drop-returned {}", tok);
                skip_model_outcome = true;
                if *fused {
                    arm(ty, tok);
                }
                let r = catch(move || drop(b));
                if *fused && !disarm() {
                    self.stats.fused_drops_fired += 1;
                    fuse_fired = true;
                }
                (if *fused { Exp::Unwound("drop") } else { Exp::Unit }, match r { Ok(()) => Real::Unit, Err(k) => unwound_or_panic(k) })
            }
            Op::Meta(_) | Op::Conc { .. } | Op::DropWorld(_) | Op::IdMap(_) => return false,
        };

        // ---- move produced guards into the table, canonical text of the real answer
        let real_text;
        match real {
            Real::Guard(g) => {
                real_text = format!("guard {}", show_seen(g.see()));
                let (k, x) = match &op {
                    Op::Fetch(t) | Op::TryFetch(t) => ((*t, 0), false),
                    Op::FetchMut(t) | Op::TryFetchMut(t) => ((*t, 0), true),
                    Op::TryFetchById(_, k) => (*k, false),
                    Op::TryFetchMutById(_, k) => (*k, true),
                    Op::Clone(i) => (self.live[*i].key, false),
                    _ => ((g.see().0, 0), false),
                };
                new_guards.push((g, k, x));
            }
            Real::Data(fs) => {
                real_text = Real::DataSeen(fs.iter().map(|f| f.as_ref().map(|g| g.see())).collect()).show();
                let items = if let Op::SystemData(s) = &op { parse_items(s).unwrap_or_default() } else { vec![] };
                for (i, f) in fs.into_iter().enumerate() {
                    if let Some(g) = f {
                        let it = items.get(i).copied().unwrap_or(Item { ty: g.see().0, write: false, opt: false, dflt: false });
                        new_guards.push((g, (it.ty, 0), it.write));
                    }
                }
            }
            Real::Unit if matches!(op, Op::IterNext(_)) => {
                real_text = format!("guard {}", show_seen(new_guards[0].0.see()));
            }
            r => real_text = r.show(),
        }
        let is_panic = real_text.starts_with("panic ");
        if is_panic {
            if real_text.starts_with("panic already") {
                self.stats.borrow_panics += 1;
            } else if real_text == "panic absent" {
                self.stats.absent_panics += 1;
            } else if real_text == "panic wrongType" {
                self.stats.wrong_type_panics += 1;
            }
        }
        if matches!(op, Op::SystemData(_) | Op::Exec(..) | Op::ExecFault(..)) {
            if is_panic { self.stats.sd_panics += 1 } else { self.stats.sd_ok += 1 }
        }

        // ---- implementation-side oracle on the answer
        // (a call that lets the value's Drop run and then keeps the panic to itself breaks neither property:
        // that difference is left to the comparison with the model)
        let swallowed = exp == Exp::Unwound("drop") && fuse_fired && real_text == "unit" && matches!(op, Op::InsertFused(..));
        if exp != Exp::Skip && !exp.matches(&real_text) && !swallowed {
            let borrow_related = exp == Exp::PanicBorrow
                || (matches!(exp, Exp::Guard(_) | Exp::Data(_) | Exp::Unwound(_)) && (real_text.starts_with("panic already") || real_text == "none"))
                || (matches!(exp, Exp::Guard(_)) && matches!(op, Op::Clone(_)))
                || (matches!(&exp, Exp::Scoped(_, fin) if *fin != "panic:wrongType") && !real_text.ends_with("panic:wrongType"));
            let prop = if borrow_related { "C08" } else { "C09" };
            let why = match (&exp, real_text.as_str()) {
                (Exp::PanicBorrow, r) if r.starts_with("guard") || r.starts_with("data") => "an aliasing guard was returned",
                (Exp::PanicBorrow, "none") => "None was returned although the resource is present (and incompatibly borrowed)",
                (Exp::Guard(_), "none") => "None was returned although the resource is present",
                (Exp::Guard(_), r) if r.starts_with("panic already") => "the fetch panicked although no incompatible guard is alive",
                (Exp::Panic("wrongType"), _) => "a call with a mismatching type argument did not panic with the type-id assertion",
                (Exp::Scoped(..), _) => "what the closure saw through its guards, or how it ended, disagrees with the reference map / guard table",
                (Exp::Unwound("drop"), "unit") => "the value whose Drop was to panic was not dropped by the call",
                (Exp::Unwound("drop"), _) => "the call must drop the value (whose Drop panics) after it has done everything else, and let that panic through",
                (Exp::Unwound("closure"), _) => "the panic of the caller's closure must come through, nothing else",
                (_, "unwound drop") => "the call dropped a value it must not drop",
                _ => "the answer disagrees with the reference map / guard table",
            };
            self.violate(prop, format!("`{}` answered `{}`, expected `{}`: {}", line, real_text, exp.show(), why));
        }

        if let (Some(want), true) = (&entry_seen_expected, real_text == "unwound closure") {
            let got: Vec<Option<(u8, u64)>> = SEEN.with(|s| s.borrow().clone());
            let got_text = Real::DataSeen(got).show();
            let want_text = Exp::Data(want.clone()).show();
            if got_text != want_text {
                self.violate("C09", format!("`{}`: the closure saw `{}` through its guard(s) before it panicked, expected `{}`", line, got_text, want_text));
            }
        }

        // ---- bookkeeping from what really happened
        match (&op, real_text.as_str()) {
            (Op::Insert(ty, tok), "unit") => {
                if self.refmap.insert((*ty, 0), *tok).is_some() { self.stats.replaced += 1 }
            }
            (Op::InsertById(_, k, tok), "unit") => {
                if self.refmap.insert(*k, *tok).is_some() { self.stats.replaced += 1 }
            }
            (Op::Remove(ty), r) if r.starts_with("value") => {
                self.refmap.remove(&(*ty, 0));
                self.stats.removed += 1;
            }
            (Op::RemoveById(_, k), r) if r.starts_with("value") => {
                self.refmap.remove(k);
                self.stats.removed += 1;
            }
            (Op::Entry(ty, tok, _), r) if r.starts_with("seen") => {
                self.refmap.entry((*ty, 0)).or_insert(*tok);
            }
            // the replaced value's Drop panics after the new value is in place
            (Op::InsertFused(_, k, tok), "unit") | (Op::InsertFused(_, k, tok), "unwound drop") => {
                if self.refmap.insert(*k, *tok).is_some() { self.stats.replaced += 1 }
            }
            // the value is stored before the caller gets (and panics with) the guard
            (Op::EntryFault(ty, tok, EntryFault::Held(_)), "unwound closure") => {
                self.refmap.entry((*ty, 0)).or_insert(*tok);
            }
            // vacant slot: the value is stored and not dropped
            (Op::EntryFault(ty, tok, EntryFault::Fused), r) if r.starts_with("seen") => {
                self.refmap.entry((*ty, 0)).or_insert(*tok);
            }
            (Op::Setup(spec, toks), _) | (Op::Exec(spec, toks), _) | (Op::ExecFault(spec, toks), _) => {
                let items = parse_items(spec).unwrap_or_default();
                let m = self.expect_setup(&items, toks);
                self.stats.defaults_created += (m.len() - self.refmap.len()) as u64;
                self.refmap = m;
            }
            _ => {}
        }

        // ---- the model
        let mut mhandles: Vec<Option<u64>> = vec![];
        if let Some(d) = drv.as_deref_mut() {
            if let Op::Iter(..) = op {
                d.ask(&model_line);
            } else {
                let ans = d.ask(&model_line);
                let (c, hs) = canon_model(&ans);
                mhandles = hs;
                if c != real_text && !skip_model_outcome {
                    self.model_v.push(("outcome".into(), format!("`{}`: the crate answered `{}`, the model `{}`", line, real_text, ans)));
                }
            }
        }
        let mut hi = mhandles.into_iter().flatten();
        for (g, k, x) in new_guards {
            let mh = hi.next();
            self.add_guard(g, k, x, mh);
        }

        // ---- frame of a panicking operation
        if is_panic && !frame_exempt {
            let after = self.snapshot();
            if after != before {
                let prop = if real_text == "panic wrongType" || op.is_mut() { "C09" } else { "C08" };
                self.violate(prop, format!("`{}` panicked ({}) but changed the world: before [{}] after [{}]", line, real_text, before, after));
            }
        }
        // ---- a closure that takes guards gives all of them back, however it ends
        if let Op::Scope(_, _) = &op {
            let after = self.snapshot();
            if after != before {
                let how = if real_text.ends_with(" ok") {
                    "returned"
                } else if real_text.ends_with(" explicit") {
                    "panicked while holding its guards"
                } else {
                    "was refused a fetch and unwound through the guards it held"
                };
                self.violate("C08", format!("`{}` ({}): the closure {} and the borrow state is not what it was before: before [{}] after [{}]", line, real_text, how, before, after));
            }
        }
        self.check_state(&line);
        if let (Some(d), false) = (drv, self.poisoned) {
            self.compare_probe(d, &line);
        }
        true
    }

    /// `ztok`: the token the reference map had for the slot (a zero-sized value cannot show its own)
    fn take_removed(&mut self, r: Result<Option<(u8, u64, Box<dyn Any>)>, String>, ztok: Option<u64>) -> Real {
        match r {
            Ok(Some((t, k, b))) => {
                self.held.push((t, if t == 0 { ztok.unwrap_or(0) } else { k }, b));
                Real::Value(t, k)
            }
            Ok(None) => Real::None,
            Err(k) => Real::Panic(k),
        }
    }

    /// the model's cells / guards / counters against the real world
    fn compare_probe(&mut self, d: &mut Drv, after: &str) {
        let ans = d.ask("world probe");
        let mut cells = String::new();
        let mut guards = String::new();
        let mut counts = String::new();
        for part in ans.split(' ') {
            if let Some(x) = part.strip_prefix("cells=") {
                let mut v: Vec<(Key, String)> = vec![];
                if x != "-" {
                    for c in x.split(',') {
                        let f: Vec<&str> = c.split(':').collect();
                        if f.len() == 4 {
                            let k = parse_key(f[0]).unwrap_or((255, 0));
                            v.push((k, format!("{}:{}:{}:{}", f[0], f[1], show_tok(f[2].parse().unwrap_or(1)), f[3])));
                        }
                    }
                }
                v.sort();
                cells = v.into_iter().map(|x| x.1).collect::<Vec<_>>().join(",");
            } else if let Some(x) = part.strip_prefix("guards=") {
                guards = x.to_string();
            } else if let Some(x) = part.strip_prefix("counts=") {
                counts = x.to_string();
            }
        }
        // the same from the real side
        let pr = self.probe();
        let mut rc = vec![];
        for (k, st) in &pr {
            if let Some((c, n, info)) = st {
                let (s, _) = self.shadow(*k);
                let s = if *n != NCOUNT { *n as u64 } else { s };
                let (ty, tok) = match info {
                    Some((t, tok)) => (t.unwrap_or(255), *tok),
                    None => self.live.iter().find(|l| l.key == *k && l.excl).map(|l| l.g.see()).unwrap_or((255, 0)),
                };
                let b = match c { 'S' => format!("S{}", s), c => c.to_string() };
                rc.push(format!("{}:{}:{}:{}", show_key(*k), ty, show_seen((ty, tok)), b));
            }
        }
        let rcells = rc.join(",");
        let rguards = if self.live.is_empty() {
            "-".to_string()
        } else {
            self.live.iter().map(|l| format!("{}:{}:{}", l.mh.map(|h| h.to_string()).unwrap_or("?".into()), show_key(l.key), if l.excl { "X" } else { "S" })).collect::<Vec<_>>().join(",")
        };
        let rcounts = {
            let l = LOG.lock().unwrap_or_else(|e| e.into_inner());
            format!("{},{},{}", l.made.len(), self.held.len(), l.dropped.len())
        };
        if cells != rcells {
            self.model_v.push(("state".into(), format!("after `{}`: real cells [{}], model [{}]", after, rcells, cells)));
        }
        if guards != rguards {
            self.model_v.push(("state".into(), format!("after `{}`: real guard table [{}], model [{}]", after, rguards, guards)));
        }
        if counts != rcounts {
            self.model_v.push(("ghost".into(), format!("after `{}`: real created,returned,dropped = {}, model {}", after, rcounts, counts)));
        }
    }

    /// drop every guard, the world and the returned values; final drop accounting
    fn finish(mut self, mut drv: Option<&mut Drv>) -> (Vec<(String, String)>, Vec<(String, String)>, Stats) {
        self.iters.clear();
        while let Some(l) = self.live.pop() {
            if let (Some(d), Some(h)) = (drv.as_deref_mut(), l.mh) {
                d.ask(&format!("world drop {}", h));
            }
            let k = l.key;
            // (the drop of a guard on a cell whose counter is corrupt panics)
            if let Err(e) = catch(move || drop(l)) {
                if self.impl_v.is_empty() {
                    self.violate("C08", format!("dropping a guard on {} at the end of the history panicked: {}", show_key(k), e));
                }
            }
        }
        if !self.poisoned && self.impl_v.is_empty() {
            self.check_state("dropping all guards");
        }
        if self.poisoned {
            // a value may have been dropped while it is still stored: dropping the world (or what
            // `remove` returned) could free it a second time — leak both, the verdict is in already
            std::mem::forget(std::mem::take(&mut self.held));
            // SAFETY: the table holds no resource values
            unsafe { drop(Box::from_raw(self.tp)) };
            return (self.impl_v, self.model_v, self.stats);
        }
        // the world's own drop, with the Drop of one stored value panicking if the history ends in `drop-world-panic`
        let fuse: Option<(Key, u64)> = if self.impl_v.is_empty() && self.model_v.is_empty() { self.end_fuse.and_then(|k| self.refmap.get(&k).map(|t| (k, *t))) } else { None };
        let n_before = LOG.lock().unwrap_or_else(|e| e.into_inner()).dropped.len();
        // values the table did not reach because a Drop panicked: (type, token)
        let mut leaked: Vec<(u8, u64)> = vec![];
        let mut model_drop_done = false;
        match fuse {
            None => {
                let wp = self.wp as usize;
                // one history in three: the world is dropped by a destructor while the thread unwinds
                // (a local of a frame that a panic takes down); every stored value is dropped all the same
                // SAFETY: created by Box::into_raw in `new`, nothing refers to it any more
                if self.stats.ops % 3 == 1 {
                    self.stats.world_drops_while_unwinding += 1;
                    if let Err(e) = in_unwinding(move || catch(move || unsafe { drop(Box::from_raw(wp as *mut World)) })) {
                        self.impl_v.push(("C09".into(), format!("dropping the world while the thread unwinds panicked: {}", e)));
                    }
                } else {
                    unsafe { drop(Box::from_raw(wp as *mut World)) };
                }
                if self.impl_v.is_empty() {
                    let during: Vec<(u8, u64)> = LOG.lock().unwrap_or_else(|e| e.into_inner()).dropped[n_before..].to_vec();
                    let mut stored: Vec<(u8, u64)> = self.refmap.iter().map(|(k, t)| (k.0, if k.0 == 0 { 0 } else { *t })).collect();
                    for d in &during {
                        if let Some(i) = stored.iter().position(|x| x == d) {
                            stored.remove(i);
                        }
                    }
                    if !stored.is_empty() {
                        self.impl_v.push(("C09".into(), format!("the world was dropped{} but {} of the values it held were not (type, token): {:?}", if self.stats.ops % 3 == 1 { " (by a destructor while the thread unwinds)" } else { "" }, stored.len(), stored)));
                    }
                }
            }
            Some((k, tok)) => {
                arm(k.0, tok);
                let wp = self.wp as usize;
                // SAFETY: as above
                let r = catch(move || unsafe { drop(Box::from_raw(wp as *mut World)) });
                let unfired = disarm();
                self.stats.world_drops_with_panicking_drop += 1;
                let during: Vec<(u8, u64)> = LOG.lock().unwrap_or_else(|e| e.into_inner()).dropped[n_before..].to_vec();
                let line = format!("drop-world-panic {}", show_key(k));
                match &r {
                    Err(e) if e == "dropFuse" => {}
                    Ok(()) if unfired => self.impl_v.push(("C09".into(), format!("`{}`: the world was dropped but the value stored under {} was not", line, show_key(k)))),
                    Ok(()) => self.impl_v.push(("C09".into(), format!("`{}`: the panic of the value's Drop did not come out of the world's drop", line))),
                    Err(e) => self.impl_v.push(("C09".into(), format!("`{}`: dropping the world panicked with `{}`", line, e))),
                }
                // what was dropped was stored, and nothing twice (whether the table goes on after the
                // panic or, like hashbrown, leaks what it had not reached yet, is its own business)
                let mut stored: Vec<(u8, u64)> = self.refmap.iter().map(|(k, t)| (k.0, if k.0 == 0 { 0 } else { *t })).collect();
                for d in &during {
                    match stored.iter().position(|x| x == d) {
                        Some(i) => {
                            stored.remove(i);
                        }
                        None => self.impl_v.push(("C09".into(), format!("`{}`: the world's drop dropped a value (type {}, token {}) that it did not hold, or one value twice", line, d.0, d.1))),
                    }
                }
                leaked = stored;
                self.stats.values_leaked_by_world_drop += leaked.len() as u64;
                if let (Some(d), true) = (drv.as_deref_mut(), self.impl_v.is_empty()) {
                    // tokens for the model: a zero-sized value cannot show its own, any stored one will do
                    let mut ztoks: Vec<u64> = self.refmap.iter().filter(|(kk, t)| kk.0 == 0 && !(k.0 == 0 && **t == tok)).map(|(_, t)| *t).collect();
                    let mut others: Vec<(u8, u64)> = during.clone();
                    if let Some(i) = others.iter().position(|x| *x == (k.0, if k.0 == 0 { 0 } else { tok })) {
                        others.remove(i);
                    }
                    let before: Vec<u64> = others.iter().map(|(ty, t)| if *ty == 0 { ztoks.pop().unwrap_or(0) } else { *t }).collect();
                    let ans = d.ask(&format!("world drop-world-panic {} {}", tok, show_nums(&before)));
                    model_drop_done = true;
                    let canon = |mut v: Vec<String>| {
                        v.sort();
                        if v.is_empty() { "-".to_string() } else { v.join(",") }
                    };
                    let real = format!("leaked {}", canon(leaked.iter().map(|x| show_seen(*x)).collect()));
                    let model = match ans.strip_prefix("leaked ") {
                        Some(l) => format!("leaked {}", canon(parse_nums(l).unwrap_or_default().into_iter().map(show_tok).collect())),
                        None => ans.clone(),
                    };
                    if real != model {
                        self.model_v.push(("ghost".into(), format!("`{}`: the world's drop dropped {:?} and so {}; the model answers `{}`", line, during, real, ans)));
                    }
                }
            }
        }
        // SAFETY: created by Box::into_raw in `new`, nothing refers to it any more
        unsafe { drop(Box::from_raw(self.tp)) };
        if let Some(d) = drv.as_deref_mut() {
            if !model_drop_done {
                d.ask("world drop-world");
            }
            let g = d.ask("world ghost");
            let l = LOG.lock().unwrap_or_else(|e| e.into_inner());
            let canon = |v: Vec<u64>| {
                let mut v: Vec<String> = v.into_iter().map(show_tok).collect();
                v.sort();
                v.join(",")
            };
            let canon_real = |v: Vec<(u8, u64)>| {
                let mut v: Vec<String> = v.into_iter().map(show_seen).collect();
                v.sort();
                v.join(",")
            };
            let real = format!(
                "created={} returned={} dropped={}",
                canon_real(l.made.clone()),
                canon_real(self.held.iter().map(|h| (h.0, h.1)).collect()),
                canon_real(l.dropped.clone())
            );
            let model = g
                .split(' ')
                .map(|p| {
                    let (n, v) = p.split_once('=').unwrap_or((p, "-"));
                    format!("{}={}", n, canon(parse_nums(v).unwrap_or_default()))
                })
                .collect::<Vec<_>>()
                .join(" ");
            if real != model && fuse.is_none() || (fuse.is_some() && model_drop_done && real != model) {
                self.model_v.push(("ghost".into(), format!("at the end: real [{}], model [{}]", real, model)));
            }
        }
        self.held.clear();
        // every value was dropped exactly once (or, after a panicking Drop inside the world's drop, leaked)
        {
            let l = LOG.lock().unwrap_or_else(|e| e.into_inner());
            let mut made: Vec<(u8, u64)> = l.made.iter().map(|x| if x.0 == 0 { (0, 0) } else { *x }).collect();
            let mut dropped: Vec<(u8, u64)> = l.dropped.clone();
            dropped.extend(leaked.iter().copied());
            made.sort();
            dropped.sort();
            if made != dropped {
                let md: BTreeSet<_> = made.iter().collect();
                let dd: BTreeSet<_> = dropped.iter().collect();
                let never: Vec<_> = md.difference(&dd).take(5).collect();
                let ghost: Vec<_> = dd.difference(&md).take(5).collect();
                self.impl_v.push(("C09".into(), format!("at the end {} values were made and {} dropped{} (never dropped: {:?}; dropped but never made: {:?}; otherwise a double drop)", made.len(), dropped.len(), if leaked.is_empty() { String::new() } else { format!(" or leaked by the interrupted drop of the world ({})", leaked.len()) }, never, ghost)));
            }
        }
        (self.impl_v, self.model_v, self.stats)
    }
}

/// evaluate one history; a panic that escapes (it can only come out of the crate at a place where
/// the unchanged code cannot panic: an observation, a drop) becomes a finding of that history
pub fn eval_case(ops: &[Op], drv: Option<&mut Drv>) -> Outcome {
    match std::panic::catch_unwind(std::panic::AssertUnwindSafe(|| eval_case_raw(ops, drv))) {
        Ok(o) => o,
        Err(p) => {
            let what = format!("while this history was executed and observed a panic came out of the crate at a place where the unchanged code cannot panic: {}", panic_message(&p));
            Outcome { impl_v: vec![("C09".into(), what.clone()), ("C08".into(), what)], model_v: vec![], transcript: ops.iter().map(|o| o.line()).collect(), stats: Stats::default() }
        }
    }
}
fn eval_case_raw(ops: &[Op], mut drv: Option<&mut Drv>) -> Outcome {
    let map = ops.iter().find_map(|o| if let Op::IdMap(k) = o { Some(*k) } else { None }).unwrap_or(0);
    ID_MAP.store(map, std::sync::atomic::Ordering::SeqCst);
    let mut c = Case::new();
    let mut transcript = vec![];
    if let Some(d) = drv.as_deref_mut() {
        d.ask("world new");
    }
    // the meta table (first line, if any)
    let tys: Vec<u8> = match ops.first() {
        Some(Op::Meta(t)) => t.clone(),
        _ => vec![],
    };
    {
        let t = unsafe { &mut *c.tp };
        for ty in &tys {
            by_ty!(*ty, T => t.register::<T>());
        }
        // registering twice keeps the first position
        let mut seen = vec![];
        for ty in &tys {
            if !seen.contains(ty) {
                seen.push(*ty);
            }
        }
        c.tys = seen;
    }
    if !tys.is_empty() {
        transcript.push(Op::Meta(tys.clone()).line());
    }
    if let Some(d) = drv.as_deref_mut() {
        d.ask(&format!("world meta-table {}", show_nums(&c.tys.iter().map(|x| *x as u64).collect::<Vec<_>>())));
    }
    for op in ops {
        if !c.run_op(op, drv.as_deref_mut(), &mut transcript) {
            c.stats.skipped += 1;
        }
        // stop at the first problem: later answers would only echo it (and an ill-typed world is not safe to use)
        if !c.impl_v.is_empty() || !c.model_v.is_empty() || c.end_fuse.is_some() {
            break;
        }
    }
    let (impl_v, model_v, stats) = c.finish(drv);
    Outcome { impl_v, model_v, transcript, stats }
}

// ---------------------------------------------------------------------------------------------
// generator: structured, mostly legal histories; every choice from the seed
// ---------------------------------------------------------------------------------------------

struct Gen {
    rng: Rng,
    ctr: u64,
    present: BTreeSet<Key>,
    live: Vec<(Key, bool)>,
    iters: Vec<(u64, bool, usize)>,
    tys: Vec<u8>,
    specs: Vec<&'static str>,
    pending: VecDeque<Op>,
    /// values `remove` has (probably) handed back and the caller still holds
    held: u64,
}
impl Gen {
    fn tok(&mut self, ty: u8) -> u64 {
        self.ctr += 1;
        self.ctr * 4 + ty as u64
    }
    fn ty(&mut self) -> u8 {
        self.rng.below(NTY as u64) as u8
    }
    fn key(&mut self) -> Key {
        // prefer ids that exist half of the time
        if self.rng.chance(50) && !self.present.is_empty() {
            let v: Vec<Key> = self.present.iter().copied().collect();
            *self.rng.pick(&v)
        } else {
            (self.ty(), self.rng.below(NDY))
        }
    }
    fn other_ty(&mut self, ty: u8) -> u8 {
        (ty + 1 + self.rng.below(NTY as u64 - 1) as u8) % NTY
    }
    fn compatible(&self, k: Key, excl: bool) -> bool {
        let s = self.live.iter().filter(|l| l.0 == k && !l.1).count();
        let x = self.live.iter().filter(|l| l.0 == k && l.1).count();
        if excl { s == 0 && x == 0 } else { x == 0 }
    }
    fn sim_fetch(&mut self, k: Key, excl: bool) {
        if self.present.contains(&k) && self.compatible(k, excl) {
            self.live.push((k, excl));
        }
    }
    fn sim_setup(&mut self, spec: &str) {
        for it in parse_items(spec).unwrap_or_default() {
            if it.dflt && !it.opt {
                self.present.insert((it.ty, 0));
            }
        }
    }
    /// a closure that takes 1-6 guards of any kind; often one of them collides with an earlier one
    fn scope_op(&mut self) -> Op {
        let n = 1 + self.rng.below(5);
        let mut takes: Vec<Take> = vec![];
        for _ in 0..n {
            let r = self.rng.below(100);
            let t = match r {
                0..=27 => {
                    let k = self.key();
                    Take::Fetch(k.0, self.rng.chance(45), self.rng.chance(50))
                }
                28..=47 => {
                    let k = self.key();
                    let x = self.rng.chance(45);
                    if self.rng.chance(10) { Take::ById(self.other_ty(k.0), k, x) } else { Take::ById(k.0, k, x) }
                }
                48..=62 => Take::Data(self.rng.pick(&self.specs.clone()).to_string()),
                63..=77 => Take::Iter(self.rng.chance(40)),
                78..=89 => Take::CloneLocal(self.rng.below(4) as usize),
                _ => Take::CloneOuter(self.rng.below(8) as usize),
            };
            takes.push(t);
        }
        if self.rng.chance(35) {
            // a fetch that an earlier take of the same closure makes impossible
            let j = self.rng.below(takes.len() as u64) as usize;
            let t = match &takes[j] {
                Take::Fetch(ty, _, _) => Some(Take::Fetch(*ty, true, self.rng.chance(50))),
                Take::ById(_, k, _) => Some(Take::ById(k.0, *k, true)),
                Take::Data(spec) => parse_items(spec).and_then(|i| i.first().map(|it| Take::Fetch(it.ty, true, true))),
                _ => None,
            };
            if let Some(t) = t {
                takes.push(t);
            }
        }
        Op::Scope(takes, self.rng.chance(60))
    }
    /// a `&mut World` call that meets a panic of user code
    fn fault_op(&mut self) -> Op {
        let r = self.rng.below(100);
        let ty = self.ty();
        match r {
            0..=44 => {
                // mostly onto an occupied slot
                let k = if self.rng.chance(80) { self.key() } else { (ty, self.rng.below(NDY)) };
                if self.rng.chance(10) {
                    let a = self.other_ty(k.0);
                    Op::InsertFused(a, k, self.tok(a))
                } else {
                    self.present.insert(k);
                    Op::InsertFused(k.0, k, self.tok(k.0))
                }
            }
            45..=84 => {
                let ty = if self.rng.chance(60) { self.key().0 } else { ty };
                let f = match self.rng.below(100) {
                    0..=39 => EntryFault::Held(self.rng.chance(50)),
                    40..=74 => EntryFault::Fused,
                    _ => EntryFault::Closure,
                };
                if f != EntryFault::Closure {
                    self.present.insert((ty, 0));
                }
                Op::EntryFault(ty, self.tok(ty), f)
            }
            _ => {
                let spec = *self.rng.pick(&self.specs.clone());
                let toks = parse_items(spec).unwrap_or_default().iter().map(|it| self.tok(it.ty)).collect::<Vec<_>>();
                self.sim_setup(spec);
                Op::ExecFault(spec.to_string(), toks)
            }
        }
    }
    fn shared_op(&mut self) -> Op {
        if self.rng.chance(14) {
            return self.scope_op();
        }
        if self.held > 0 && self.rng.chance(5) {
            self.held -= 1;
            return Op::DropReturned(self.rng.below(4) as usize, self.rng.chance(50));
        }
        let r = self.rng.below(100);
        let ty = self.ty();
        match r {
            0..=11 => { self.sim_fetch((ty, 0), false); Op::Fetch(ty) }
            12..=21 => { self.sim_fetch((ty, 0), true); Op::FetchMut(ty) }
            22..=33 => { self.sim_fetch((ty, 0), false); Op::TryFetch(ty) }
            34..=43 => { self.sim_fetch((ty, 0), true); Op::TryFetchMut(ty) }
            44..=57 => {
                let k = self.key();
                if self.rng.chance(15) { Op::TryFetchById(self.other_ty(k.0), k) } else { self.sim_fetch(k, false); Op::TryFetchById(k.0, k) }
            }
            58..=69 => {
                let k = self.key();
                if self.rng.chance(15) { Op::TryFetchMutById(self.other_ty(k.0), k) } else { self.sim_fetch(k, true); Op::TryFetchMutById(k.0, k) }
            }
            70..=77 => {
                let spec = *self.rng.pick(&self.specs.clone());
                // simulate: all or nothing
                let items = parse_items(spec).unwrap_or_default();
                let save = self.live.len();
                let mut ok = true;
                for it in &items {
                    let k = (it.ty, 0);
                    if !self.present.contains(&k) {
                        if !it.opt { ok = false; break; }
                    } else if self.compatible(k, it.write) {
                        self.live.push((k, it.write));
                    } else {
                        ok = false;
                        break;
                    }
                }
                if !ok { self.live.truncate(save); }
                Op::SystemData(spec.to_string())
            }
            78..=79 => {
                let id = self.rng.below(3);
                let x = self.rng.chance(40);
                self.iters.retain(|i| i.0 != id);
                self.iters.push((id, x, 0));
                Op::Iter(id, x)
            }
            80..=91 => {
                if self.iters.is_empty() {
                    let x = self.rng.chance(40);
                    self.iters.push((0, x, 0));
                    self.pending.push_back(Op::IterNext(0));
                    return Op::Iter(0, x);
                }
                let j = self.rng.below(self.iters.len() as u64) as usize;
                let (id, x, mut idx) = self.iters[j];
                while idx < self.tys.len() {
                    let k = (self.tys[idx], 0);
                    idx += 1;
                    if self.present.contains(&k) {
                        if self.compatible(k, x) {
                            self.live.push((k, x));
                        }
                        break;
                    }
                }
                self.iters[j].2 = idx;
                Op::IterNext(id)
            }
            92..=95 => Op::Has(ty),
            _ => Op::HasRaw(self.key()),
        }
    }
    fn mut_op(&mut self) -> Op {
        self.iters.clear();
        if self.rng.chance(22) {
            return self.fault_op();
        }
        let r = self.rng.below(100);
        let ty = self.ty();
        match r {
            0..=19 => { self.present.insert((ty, 0)); Op::Insert(ty, self.tok(ty)) }
            20..=41 => {
                let k = (self.ty(), self.rng.below(NDY));
                if self.rng.chance(25) {
                    let a = self.other_ty(k.0);
                    Op::InsertById(a, k, self.tok(a))
                } else {
                    self.present.insert(k);
                    Op::InsertById(k.0, k, self.tok(k.0))
                }
            }
            42..=49 => {
                if self.present.remove(&(ty, 0)) { self.held += 1 }
                Op::Remove(ty)
            }
            50..=63 => {
                let k = self.key();
                if self.rng.chance(25) {
                    Op::RemoveById(self.other_ty(k.0), k)
                } else {
                    if self.present.remove(&k) { self.held += 1 }
                    Op::RemoveById(k.0, k)
                }
            }
            64..=73 => { self.present.insert((ty, 0)); let bv = self.rng.chance(50); Op::Entry(ty, self.tok(ty), bv) }
            74..=78 => Op::GetMut(ty),
            79..=83 => Op::GetMutRaw(self.key()),
            84..=90 => {
                let spec = *self.rng.pick(&self.specs.clone());
                let toks = parse_items(spec).unwrap_or_default().iter().map(|it| self.tok(it.ty)).collect::<Vec<_>>();
                // the token of a default is given to whichever type is created next; keep it typed by position
                self.sim_setup(spec);
                Op::Setup(spec.to_string(), toks)
            }
            _ => {
                let spec = *self.rng.pick(&self.specs.clone());
                let toks = parse_items(spec).unwrap_or_default().iter().map(|it| self.tok(it.ty)).collect::<Vec<_>>();
                self.sim_setup(spec);
                Op::Exec(spec.to_string(), toks)
            }
        }
    }
    fn case(&mut self, max_ops: u64) -> Vec<Op> {
        let n = 1 + self.rng.below(max_ops);
        let mut ops = vec![];
        // meta table: a random arrangement of some of the types, now and then one twice
        let mut tys: Vec<u8> = (0..NTY).collect();
        self.rng.shuffle(&mut tys);
        tys.truncate(1 + self.rng.below(NTY as u64) as usize);
        if self.rng.chance(20) {
            let d = *self.rng.pick(&tys);
            tys.push(d);
        }
        self.tys = vec![];
        for t in &tys {
            if !self.tys.contains(t) {
                self.tys.push(*t);
            }
        }
        ops.push(Op::Meta(tys));
        if self.rng.chance(45) {
            ops.push(Op::IdMap(1 + self.rng.below(3) as u8));
        }
        // start from a populated world most of the time
        if self.rng.chance(80) {
            for ty in 0..NTY {
                if self.rng.chance(75) {
                    self.present.insert((ty, 0));
                    ops.push(Op::Insert(ty, self.tok(ty)));
                }
            }
        }
        while (ops.len() as u64) < n + 1 {
            if let Some(Op::IterNext(id)) = self.pending.pop_front() {
                // same bookkeeping as a generated step
                if let Some(j) = self.iters.iter().position(|i| i.0 == id) {
                    let (_, x, mut idx) = self.iters[j];
                    while idx < self.tys.len() {
                        let k = (self.tys[idx], 0);
                        idx += 1;
                        if self.present.contains(&k) {
                            if self.compatible(k, x) {
                                self.live.push((k, x));
                            }
                            break;
                        }
                    }
                    self.iters[j].2 = idx;
                    ops.push(Op::IterNext(id));
                }
                continue;
            }
            if self.live.is_empty() && self.rng.chance(7) {
                // two cells of one type (half the time the zero-sized one) both shared-borrowed, clones
                // between them, one guard dropped, then an exclusive attempt on each cell
                let ty = if self.rng.chance(50) { 0 } else { self.ty() };
                let (a, b) = ((ty, 0u64), (ty, 1 + self.rng.below(NDY - 1)));
                for k in [a, b] {
                    if !self.present.contains(&k) {
                        self.present.insert(k);
                        ops.push(Op::InsertById(ty, k, self.tok(ty)));
                    }
                }
                for k in [a, b] {
                    self.sim_fetch(k, false);
                    ops.push(Op::TryFetchById(ty, k));
                }
                for _ in 0..2 {
                    if self.live.len() >= 2 {
                        let i = self.live.len() - 1 - self.rng.below(2) as usize;
                        let g = self.live[i];
                        self.live.push(g);
                        ops.push(Op::Clone(i));
                    }
                }
                if !self.live.is_empty() {
                    let i = self.rng.below(self.live.len() as u64) as usize;
                    self.live.remove(i);
                    ops.push(Op::Drop(i));
                }
                for k in [a, b] {
                    self.sim_fetch(k, true);
                    ops.push(Op::TryFetchMutById(ty, k));
                }
            } else if self.live.is_empty() && self.rng.chance(6) {
                // three dynamic ids of one type present, one of them removed, then every slot looked at
                // and used again: the other slots are where and what they were
                let ty = self.ty();
                for dy in 0..NDY {
                    if !self.present.contains(&(ty, dy)) {
                        self.present.insert((ty, dy));
                        ops.push(Op::InsertById(ty, (ty, dy), self.tok(ty)));
                    }
                }
                let gone = (ty, self.rng.below(NDY));
                if self.present.remove(&gone) {
                    self.held += 1;
                }
                ops.push(Op::RemoveById(ty, gone));
                for dy in 0..NDY {
                    ops.push(Op::HasRaw((ty, dy)));
                    self.sim_fetch((ty, dy), false);
                    ops.push(Op::TryFetchById(ty, (ty, dy)));
                }
            } else if self.live.is_empty() {
                if self.rng.chance(40) {
                    ops.push(self.mut_op());
                } else {
                    ops.push(self.shared_op());
                }
            } else {
                let l = self.live.len() as u64;
                let pdrop = (20 + 8 * l).min(75);
                if self.rng.chance(3) {
                    // release everything
                    while !self.live.is_empty() {
                        let i = self.rng.below(self.live.len() as u64) as usize;
                        self.live.remove(i);
                        ops.push(Op::Drop(i));
                    }
                } else if self.rng.chance(pdrop) {
                    let i = self.rng.below(l) as usize;
                    self.live.remove(i);
                    ops.push(Op::Drop(i));
                } else if self.rng.chance(12) {
                    let i = self.rng.below(l) as usize;
                    if !self.live[i].1 {
                        let g = self.live[i];
                        self.live.push(g);
                    }
                    ops.push(Op::Clone(i));
                } else {
                    ops.push(self.shared_op());
                }
            }
        }
        // now and then the history ends with the world being dropped while one Drop panics
        if self.rng.chance(30) && !self.present.is_empty() {
            let v: Vec<Key> = self.present.iter().copied().collect();
            ops.push(Op::DropWorld(*self.rng.pick(&v)));
        }
        ops
    }
}

// ---------------------------------------------------------------------------------------------
// many threads: C08 safety with a shadow counter strictly inside every real guard's lifetime
// ---------------------------------------------------------------------------------------------

pub struct ConcResult {
    pub violations: Vec<String>,
    pub acquired: u64,
    pub conflicts: u64,
    /// guards' holders that panicked while holding them
    pub unwound: u64,
}

#[cfg(feature = "parallel")]
pub fn run_conc(threads: u64, ops: u64, seed: u64) -> ConcResult {
    use std::sync::atomic::{AtomicI64, AtomicU64, Ordering::SeqCst};
    const W: i64 = 1 << 32;
    let keys: Vec<Key> = vec![(0, 0), (1, 0), (2, 0), (3, 0), (3, 1), (1, 2)];
    let mut world = World::empty();
    for (i, k) in keys.iter().enumerate() {
        by_ty!(k.0, T => world.insert_by_id::<T>(rid(*k), T::make(1000 + i as u64)));
    }
    let shadow: Vec<AtomicI64> = keys.iter().map(|_| AtomicI64::new(0)).collect();
    let viol: Mutex<Vec<String>> = Mutex::new(vec![]);
    let acquired = AtomicU64::new(0);
    let conflicts = AtomicU64::new(0);
    let unwound = AtomicU64::new(0);
    let w = &world;
    std::thread::scope(|sc| {
        for tid in 0..threads {
            let (keys, shadow, viol, acquired, conflicts, unwound) = (&keys, &shadow, &viol, &acquired, &conflicts, &unwound);
            sc.spawn(move || {
                let mut rng = Rng::new(seed, 7000 + tid);
                let report = |s: String| {
                    let mut v = viol.lock().unwrap_or_else(|e| e.into_inner());
                    if v.len() < 5 {
                        v.push(s);
                    }
                };
                for _ in 0..ops {
                    let ki = rng.below(keys.len() as u64) as usize;
                    let k = keys[ki];
                    let excl = rng.chance(35);
                    let form = rng.below(3);
                    let hold = rng.below(4);
                    let newval = rng.next() | 1;
                    let want_clone = rng.chance(25);
                    // now and then the thread panics while it holds the guard(s); the unwinding must release them
                    let boom = rng.chance(6);
                    // one acquisition; everything between `enter` and `leave` is inside the guard's lifetime
                    let enter = |excl: bool| -> bool {
                        let v = if excl { shadow[ki].fetch_add(W, SeqCst) + W } else { shadow[ki].fetch_add(1, SeqCst) + 1 };
                        let (writers, readers) = (v >> 32, v & (W - 1));
                        if excl { writers == 1 && readers == 0 } else { writers == 0 }
                    };
                    let leave = |excl: bool| {
                        shadow[ki].fetch_sub(if excl { W } else { 1 }, SeqCst);
                    };
                    let r: Result<Option<()>, String> = by_ty!(k.0, T => {
                        if excl {
                            let g = if k.1 == 0 && form == 0 { catch(|| Some(w.fetch_mut::<T>())) }
                                else if k.1 == 0 && form == 1 { catch(|| w.try_fetch_mut::<T>()) }
                                else { catch(|| w.try_fetch_mut_by_id::<T>(rid(k))) };
                            match g {
                                Ok(Some(mut g)) => {
                                    let rr = catch(move || {
                                        if !enter(true) { report(format!("an exclusive guard on {} coexists with another guard", show_key(k))); }
                                        if !g.sane() { report(format!("torn value seen under an exclusive guard on {}", show_key(k))); }
                                        // non-atomic multi-word update under the exclusive guard
                                        let any: &mut dyn Any = &mut *g;
                                        if let Some(v) = any.downcast_mut::<V>() {
                                            let keep = v.0[0];
                                            for x in v.0.iter_mut() { *x = newval; std::hint::spin_loop(); }
                                            for _ in 0..hold { std::thread::yield_now(); }
                                            for x in v.0.iter_mut() { *x = keep; }
                                        } else {
                                            for _ in 0..hold { std::thread::yield_now(); }
                                        }
                                        leave(true);
                                        if boom { panic!("harness: explicit"); }
                                        drop(g);
                                    });
                                    match rr {
                                        Ok(()) => Ok(Some(())),
                                        Err(e) if boom && e == "explicit" => { unwound.fetch_add(1, SeqCst); Ok(Some(())) }
                                        Err(e) => Err(e),
                                    }
                                }
                                Ok(None) => Ok(None),
                                Err(e) => Err(e),
                            }
                        } else {
                            let g = if k.1 == 0 && form == 0 { catch(|| Some(w.fetch::<T>())) }
                                else if k.1 == 0 && form == 1 { catch(|| w.try_fetch::<T>()) }
                                else { catch(|| w.try_fetch_by_id::<T>(rid(k))) };
                            match g {
                                Ok(Some(g)) => {
                                    let rr = catch(move || {
                                        if !enter(false) { report(format!("a shared guard on {} coexists with an exclusive guard", show_key(k))); }
                                        if !g.sane() { report(format!("torn value seen under a shared guard on {}", show_key(k))); }
                                        let g2 = if want_clone { let c = Clone::clone(&g); if !enter(false) { report(format!("a cloned shared guard on {} coexists with an exclusive guard", show_key(k))); } Some(c) } else { None };
                                        for _ in 0..hold { std::thread::yield_now(); }
                                        if !g.sane() { report(format!("value changed under a shared guard on {}", show_key(k))); }
                                        leave(false);
                                        if g2.is_some() { leave(false); }
                                        if boom { panic!("harness: explicit"); }
                                        drop(g);
                                        if let Some(c) = g2 { if !c.sane() { report(format!("value changed under a cloned guard on {}", show_key(k))); } drop(c); }
                                    });
                                    match rr {
                                        Ok(()) => Ok(Some(())),
                                        Err(e) if boom && e == "explicit" => { unwound.fetch_add(1, SeqCst); Ok(Some(())) }
                                        Err(e) => Err(e),
                                    }
                                }
                                Ok(None) => Ok(None),
                                Err(e) => Err(e),
                            }
                        }
                    });
                    match r {
                        Ok(Some(())) => { acquired.fetch_add(1, SeqCst); }
                        Ok(None) => report(format!("a fetch of {} answered None although the resource is present", show_key(k))),
                        Err(e) if is_borrow_panic(&e) => { conflicts.fetch_add(1, SeqCst); }
                        Err(e) => report(format!("a fetch of {} panicked with `{}` (only borrow conflicts are possible here)", show_key(k), e)),
                    }
                }
            });
        }
    });
    let mut violations = viol.into_inner().unwrap_or_else(|e| e.into_inner());
    // quiescent: every borrow was released
    for (i, k) in keys.iter().enumerate() {
        let c = unsafe { world.try_fetch_internal(rid(*k)) };
        let free = c.map(|c| c.try_borrow_mut().is_ok()).unwrap_or(false);
        if !free || shadow[i].load(SeqCst) != 0 {
            violations.push(format!("after all threads finished (some of them having panicked while holding a guard) cell {} is not free (or absent)", show_key(*k)));
        }
    }
    ConcResult { violations, acquired: acquired.into_inner(), conflicts: conflicts.into_inner(), unwound: unwound.into_inner() }
}
#[cfg(not(feature = "parallel"))]
pub fn run_conc(_threads: u64, _ops: u64, _seed: u64) -> ConcResult {
    ConcResult { violations: vec![], acquired: 0, conflicts: 0, unwound: 0 }
}

// ---------------------------------------------------------------------------------------------
// shrinking, replay, corpus, report
// ---------------------------------------------------------------------------------------------

fn shrink(ops: &[Op], pred: &mut dyn FnMut(&[Op]) -> bool) -> Vec<Op> {
    let mut cur = ops.to_vec();
    let mut budget = 600;
    // cut the tail first (the failure is at the last executed op)
    let mut chunk = cur.len() / 2;
    while chunk >= 1 && budget > 0 {
        let mut i = 0;
        let mut any = false;
        while i < cur.len() && budget > 0 {
            let end = (i + chunk).min(cur.len());
            let mut cand = cur.clone();
            cand.drain(i..end);
            budget -= 1;
            if !cand.is_empty() && pred(&cand) {
                cur = cand;
                any = true;
            } else {
                i += chunk;
            }
        }
        if !any || chunk == 1 {
            if chunk == 1 {
                break;
            }
            chunk /= 2;
        }
    }
    cur
}

pub fn case_lines(ops: &[Op]) -> Vec<String> {
    ops.iter().map(|o| o.line()).collect()
}
fn parse_case(lines: &[String]) -> Vec<Op> {
    lines.iter().filter(|l| !l.trim().is_empty() && !l.starts_with('#')).filter_map(|l| Op::parse(l)).collect()
}

/// The map laws for resource *types* a program rarely uses (the histories above use four ordinary ones):
/// a `Box<dyn Resource>`, a `Box` / `Option` / tuple / `Arc` / `Vec` of a payload, a `World`. Safe API only:
/// insert / insert_by_id / entry, `has_value`, the type of what `get_mut_raw` hands out, `remove` /
/// `remove_by_id` giving back the very value (its tag, dropped exactly once, by the caller).
fn unusual_types_check() -> (u64, Vec<String>) {
    use std::sync::atomic::{AtomicUsize, Ordering::SeqCst};
    use std::sync::Arc;
    struct Payload {
        tag: u64,
        drops: Arc<AtomicUsize>,
    }
    impl Drop for Payload {
        fn drop(&mut self) {
            self.drops.fetch_add(1, SeqCst);
        }
    }
    let mut bad = vec![];
    let mut n = 0u64;
    fn one<R: Resource>(name: &str, make: &dyn Fn(u64, &std::sync::Arc<std::sync::atomic::AtomicUsize>) -> R, tag_of: &dyn Fn(&R) -> Option<u64>, bad: &mut Vec<String>) {
        use std::sync::atomic::{AtomicUsize, Ordering::SeqCst};
        use std::sync::Arc;
        for way in 0..3 {
            let drops = Arc::new(AtomicUsize::new(0));
            let r = catch(|| {
                let mut w = World::empty();
                let id = if way == 1 { ResourceId::new_with_dynamic_id::<R>(3) } else { ResourceId::new::<R>() };
                match way {
                    0 => {
                        w.insert::<R>(make(7, &drops));
                    }
                    1 => w.insert_by_id::<R>(id.clone(), make(7, &drops)),
                    _ => drop(w.entry::<R>().or_insert_with(|| make(7, &drops))),
                }
                let mut v = vec![];
                if !w.has_value_raw(id.clone()) {
                    v.push("has_value_raw says the slot is vacant".to_string());
                }
                match w.get_mut_raw(id.clone()) {
                    None => v.push("get_mut_raw finds nothing".into()),
                    Some(x) => {
                        if !x.is::<R>() {
                            v.push("what get_mut_raw hands out is not of the type the id names".into());
                        }
                    }
                }
                let back = catch(AssertUnwindSafe(|| w.remove_by_id::<R>(id.clone())));
                match back {
                    Err(e) => v.push(format!("remove_by_id with the matching type argument panicked: {}", e)),
                    Ok(None) => v.push("remove_by_id returned None for an occupied slot".into()),
                    Ok(Some(x)) => {
                        if tag_of(&x) != Some(7) {
                            v.push(format!("remove_by_id returned a value that reads {:?}, 7 was stored", tag_of(&x)));
                        }
                        if drops.load(SeqCst) != 0 {
                            v.push("the stored value was dropped although remove handed it to the caller".into());
                        }
                        drop(x);
                    }
                }
                if w.has_value_raw(id) {
                    v.push("the slot is still occupied after remove_by_id".into());
                }
                drop(w);
                v
            });
            match r {
                Err(e) => bad.push(format!("resource type {} ({}): a panic came out: {}", name, ["insert", "insert_by_id under dynamic id 3", "entry().or_insert_with"][way], e)),
                Ok(v) => {
                    for x in v {
                        bad.push(format!("resource type {} ({}): {}", name, ["insert", "insert_by_id under dynamic id 3", "entry().or_insert_with"][way], x));
                    }
                    if drops.load(SeqCst) != 1 && bad.is_empty() {
                        bad.push(format!("resource type {}: the payload was dropped {} times, once expected", name, drops.load(SeqCst)));
                    }
                }
            }
        }
    }
    let mk = |t: u64, d: &Arc<AtomicUsize>| Payload { tag: t, drops: d.clone() };
    n += 1;
    one::<Payload>("Payload", &|t, d| mk(t, d), &|p| Some(p.tag), &mut bad);
    n += 1;
    one::<Box<dyn Resource>>("Box<dyn Resource>", &|t, d| Box::new(mk(t, d)), &|b| b.downcast_ref::<Payload>().map(|p| p.tag), &mut bad);
    n += 1;
    one::<Box<Payload>>("Box<Payload>", &|t, d| Box::new(mk(t, d)), &|b| Some(b.tag), &mut bad);
    n += 1;
    one::<Option<Payload>>("Option<Payload>", &|t, d| Some(mk(t, d)), &|b| b.as_ref().map(|p| p.tag), &mut bad);
    n += 1;
    one::<(Payload, u8)>("(Payload, u8)", &|t, d| (mk(t, d), 1), &|b| Some(b.0.tag), &mut bad);
    n += 1;
    one::<Arc<Payload>>("Arc<Payload>", &|t, d| Arc::new(mk(t, d)), &|b| Some(b.tag), &mut bad);
    n += 1;
    one::<Vec<Box<dyn Resource>>>("Vec<Box<dyn Resource>>", &|t, d| vec![Box::new(mk(t, d)) as Box<dyn Resource>], &|b| b.first().and_then(|x| x.downcast_ref::<Payload>()).map(|p| p.tag), &mut bad);
    (n, bad)
}

pub fn run(args: &Args, rep: &mut Report) {
    if args.get("replay").is_none() {
        let (n, bad) = unusual_types_check();
        rep.add("unusual_resource_types_round_tripped", n);
        if let Some(b) = bad.first() {
            rep.violate("C09", "impl", "", format!("{} [unusual-types]", b), vec!["# unusual-types: self-contained sequences, see harness/src/engines/world.rs unusual_types_check".into()]);
        }
    }
    let seed = args.num("seed", 1);
    let cases = args.num("cases", 300);
    let max_ops = args.num("max-ops", 40);
    let conc_rounds = args.num("conc-rounds", 4);
    let conc_threads = args.num("conc-threads", 6);
    let conc_ops = args.num("conc-ops", 2000);
    let mut drv = Drv::spawn(&args.str("driver", "/verif/lean/.lake/build/bin/driver"));
    rep.rule = format!(
        "random histories (<= {} ops) over {} resource types (ZST, u64, String, Vec; all with a logging Drop that panics on demand) x {} dynamic ids of all World entry points incl. mismatching type arguments, system data tuples, meta-table iterators, guard clone/drop; closures under catch_unwind that take 1-6 guards of any kind (typed, by-id, tuple fields, iterator items, clones) and return, panic, or are refused a fetch half-way; entry / exec callers that panic holding the guard; or_insert_with closures that panic; a panicking Drop at insert-replace, or_insert on an occupied slot, the drop of a removed value and the world's own drop; &mut calls only with no live guard; plus {} many-thread rounds ({} threads x {} fetches). distinct = distinct executed op sequences; non-trivial = at least one borrow-conflict panic while two or more guards were alive",
        max_ops, NTY, NDY, conc_rounds, conc_threads, conc_ops
    );
    let mut todo: Vec<(String, Vec<Op>)> = vec![];
    if let Some(f) = args.get("replay") {
        let text = std::fs::read_to_string(&f).expect("replay file");
        let lines: Vec<String> = text.lines().map(|s| s.to_string()).collect();
        todo.push((format!("replay:{}", f), parse_case(&lines)));
    }
    if let Some(dir) = args.get("corpus") {
        if let Ok(rd) = std::fs::read_dir(&dir) {
            let mut files: Vec<_> = rd.filter_map(|e| e.ok()).map(|e| e.path()).filter(|p| p.extension().map(|x| x == "case").unwrap_or(false)).collect();
            files.sort();
            for f in files {
                let text = std::fs::read_to_string(&f).unwrap_or_default();
                let lines: Vec<String> = text.lines().map(|s| s.to_string()).collect();
                todo.push((format!("corpus:{}", f.display()), parse_case(&lines)));
                rep.count("corpus_cases");
            }
        }
    }
    if args.get("replay").is_none() {
        let specs: Vec<&'static str> = sd_menu().iter().map(|e| e.spec).collect();
        for c in 0..cases {
            let mut g = Gen { rng: Rng::new(seed, c), ctr: 0, present: BTreeSet::new(), live: vec![], iters: vec![], tys: vec![], specs: specs.clone(), pending: VecDeque::new(), held: 0 };
            // sizes: mostly up to max_ops, every eighth history short
            let m = if c % 8 == 7 { (max_ops / 4).max(4) } else { max_ops };
            todo.push((format!("gen:{}:{}", seed, c), g.case(m)));
        }
        for r in 0..conc_rounds {
            todo.push((format!("conc:{}:{}", seed, r), vec![Op::Conc { threads: conc_threads, ops: conc_ops, seed: seed.wrapping_add(r) }]));
        }
    }
    let mut reported: BTreeSet<String> = BTreeSet::new();
    // the property this run is to decide: once the real crate has broken it on some input (and that input
    // is shrunk and reported) nothing more is explored — a crate that corrupts its borrow counters or drops
    // values twice may take the process down at any later point
    let prop = args.str("prop", "");
    for (label, ops) in todo {
        mark_current(&case_lines(&ops));
        if !prop.is_empty() && (reported.contains(&format!("impl:{}", prop)) || reported.contains(&format!("impl:{}:conc", prop))) {
            rep.count("cases_not_run_after_the_property_was_found_broken");
            continue;
        }
        if let Some(Op::Conc { threads, ops: n, seed: s }) = ops.first().cloned() {
            // a replayed stress case is schedule dependent: give it several attempts
            let attempts = if label.starts_with("replay") { 20 } else { 1 };
            let mut r = run_conc(threads, n, s);
            for i in 1..attempts {
                if !r.violations.is_empty() {
                    break;
                }
                r = run_conc(threads, n, s + i);
            }
            rep.case(&ops[0].line(), r.conflicts > 0);
            rep.count("conc_rounds");
            rep.add("conc_guards_acquired (schedule dependent)", r.acquired);
            rep.add("conc_borrow_conflicts (schedule dependent)", r.conflicts);
            rep.add("conc_threads_unwound_while_holding_a_guard", r.unwound);
            if let Some(v) = r.violations.first() {
                if reported.insert("impl:C08:conc".into()) {
                    // shrink: fewer threads / fewer ops while it still fails (three tries each, schedules vary)
                    let (mut t, mut n2) = (threads, n);
                    let mut what = v.clone();
                    // accepted only if three runs in a row fail, so that the replay reproduces
                    let fails = |t: u64, n: u64| -> Option<String> {
                        let v: Vec<Option<String>> = (0..3).map(|i| run_conc(t, n, s + i).violations.first().cloned()).collect();
                        if v.iter().all(|x| x.is_some()) { v[0].clone() } else { None }
                    };
                    while t > 2 {
                        match fails(t - 1, n2) { Some(w) => { t -= 1; what = w; } None => break }
                    }
                    while n2 > 400 {
                        match fails(t, n2 / 2) { Some(w) => { n2 /= 2; what = w; } None => break }
                    }
                    rep.violate("C08", "impl", "", format!("{} [{}; many threads on one &World]", what, label), vec![Op::Conc { threads: t, ops: n2, seed: s }.line()]);
                }
            }
            continue;
        }
        drv.begin_case();
        let out = eval_case(&ops, Some(&mut drv));
        let st = &out.stats;
        rep.case(&out.transcript.join("\n"), st.borrow_panics > 0 && st.max_live >= 2);
        rep.add("ops_executed", st.ops);
        rep.add("ops_skipped_not_expressible_in_rust", st.skipped);
        rep.add("guards_taken", st.guards);
        rep.add("borrow_conflict_panics", st.borrow_panics);
        rep.add("absent_panics", st.absent_panics);
        rep.add("wrong_type_panics", st.wrong_type_panics);
        rep.add("guard_clones", st.clones);
        rep.add("values_replaced", st.replaced);
        rep.add("values_removed", st.removed);
        rep.add("defaults_created_by_setup_or_exec", st.defaults_created);
        rep.add("system_data_ok", st.sd_ok);
        rep.add("system_data_panics", st.sd_panics);
        rep.add("meta_iterator_steps", st.iter_steps);
        rep.add("closures_taking_guards (scope)", st.scopes);
        rep.add("closures_refused_a_fetch_while_holding_guards", st.scopes_refused_holding_guards);
        rep.add("closures_panicking_while_holding_guards", st.scopes_explicit_panic_holding_guards);
        rep.add("closures_run_while_outer_guards_alive", st.scopes_while_outer_guards_alive);
        rep.add("guards_unwound", st.guards_unwound);
        rep.maxi("max_guards_unwound_at_once", st.max_guards_unwound_at_once);
        rep.add("panicking_drops_fired", st.fused_drops_fired);
        rep.add("caller_closure_panics_inside_world_calls", st.closure_panics);
        rep.add("world_drops_with_a_panicking_drop", st.world_drops_with_panicking_drop);
        rep.add("world_drops_while_the_thread_unwinds", st.world_drops_while_unwinding);
        rep.maxi("guard_clones_made_through_clone_from", CLONE_FROMS.load(std::sync::atomic::Ordering::SeqCst));
        rep.add("values_leaked_by_interrupted_world_drops", st.values_leaked_by_world_drop);
        rep.maxi("max_live_guards", st.max_live);
        rep.maxi("max_shared_guards_on_one_cell", st.max_shared_on_one);
        rep.maxi("max_history_len", st.ops);
        for (k, v) in &st.by_op {
            rep.add(&format!("op:{}", k), *v);
        }
        if out.impl_v.is_empty() && out.model_v.is_empty() {
            rep.traces_validated += 1;
        }
        if rep.samples.len() < 2 && st.borrow_panics > 0 && st.ops <= 25 {
            rep.sample(Json::obj(vec![
                ("history", Json::Arr(out.transcript.iter().map(|l| Json::s(l.clone())).collect())),
                ("driver_dialogue_tail", Json::Arr(drv.transcript.iter().rev().take(6).rev().map(|(q, a)| Json::s(format!("{} -> {}", q, a))).collect())),
            ]));
        }
        for (p, what) in &out.impl_v {
            if reported.insert(format!("impl:{}", p)) {
                let pp = p.clone();
                let small = shrink(&ops, &mut |c: &[Op]| eval_case(c, None).impl_v.iter().any(|(q, _)| *q == pp));
                let r2 = eval_case(&small, None);
                let what2 = r2.impl_v.iter().find(|(q, _)| q == p).map(|x| x.1.clone()).unwrap_or_else(|| what.clone());
                rep.violate(p, "impl", "", format!("{} [{}]", what2, label), case_lines(&small));
            }
        }
        for (aspect, what) in &out.model_v {
            if reported.insert(format!("model:{}", aspect)) {
                let asp = aspect.clone();
                let small = shrink(&ops, &mut |c: &[Op]| {
                    drv.begin_case();
                    eval_case(c, Some(&mut drv)).model_v.iter().any(|(a, _)| *a == asp)
                });
                drv.begin_case();
                let r2 = eval_case(&small, Some(&mut drv));
                let what2 = r2.model_v.iter().find(|(a, _)| a == aspect).map(|x| x.1.clone()).unwrap_or_else(|| what.clone());
                rep.violate(&format!("MODEL:{}", aspect), "model", "", format!("{} [{}]", what2, label), case_lines(&small));
            }
        }
    }
    rep.add("driver_requests", drv.requests);
}
