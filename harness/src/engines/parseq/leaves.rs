//! Leaves of the parseq engine, one family per accessor flavour the crate allows
//! (`System::accessor`, system.rs l.190-194; `Accessor::try_new`, l.12-15):
//!
//! * `n` — dynamic system data whose accessor type has NO default (`try_new() -> None`);
//!   `System::accessor` is overridden and hands out the instance's ids (`PSys<false>`);
//! * `d` — dynamic system data whose accessor type HAS a default (`try_new() -> Some(empty)`,
//!   "returns `Some` in case there is a default"), `System::accessor` overridden all the same
//!   (`PSys<true>`): the default accessor knows nothing about the instance, so anything the
//!   crate does with it instead of `self.accessor()` (report, check, set up, fetch) is visible;
//! * `s<k>` — static system data number `k` of `STAT` (real `Read` / `Write` / `Option<Read>`
//!   types, `StaticAccessor`, `System::accessor` NOT overridden), `System::setup` overridden to
//!   count the call and then doing what the default does;
//! * `p<k>` — the same data with nothing overridden at all (what most user systems look like);
//!   its setup is observable only through the default resources it creates.
//!
//! The dynamic leaves create every resource they declare in their `DynamicSystemData::setup`
//! (if absent), the static ones what `Read` / `Write` create through `DefaultProvider`; so a
//! fresh `World::empty()` can be dispatched on after a `setup` that reached every leaf, and on
//! no other.
use super::Dyn;
use crate::gen::Res;
use crate::sys::*;
use shred::*;
use std::sync::atomic::Ordering::SeqCst;
use std::sync::Arc;
use std::time::{Duration, Instant};

// ------------------------------------------------------------------ dynamic leaves (n / d)

/// `None` inside = the accessor `try_new()` made up: it declares nothing
pub struct PAcc<const DEF: bool>(pub Option<Acc>);
impl<const DEF: bool> Accessor for PAcc<DEF> {
    fn try_new() -> Option<Self> {
        if DEF {
            Some(PAcc(None))
        } else {
            None
        }
    }
    fn reads(&self) -> Vec<ResourceId> {
        self.0.as_ref().map(|a| a.reads()).unwrap_or_default()
    }
    fn writes(&self) -> Vec<ResourceId> {
        self.0.as_ref().map(|a| a.writes()).unwrap_or_default()
    }
}

/// what a dynamic leaf creates in setup: everything it declares, reads first, once each
pub fn dyn_creates(r: &[Res], w: &[Res]) -> Vec<Res> {
    let mut v: Vec<Res> = vec![];
    for x in r.iter().chain(w.iter()) {
        if !v.contains(x) {
            v.push(*x);
        }
    }
    v
}

pub struct PData<'a, const DEF: bool>(pub Option<Data<'a>>);
impl<'a, const DEF: bool> DynamicSystemData<'a> for PData<'a, DEF> {
    type Accessor = PAcc<DEF>;
    fn setup(a: &PAcc<DEF>, world: &mut World) {
        // handed the default accessor, the hook cannot know whose setup this is: nothing is
        // counted and nothing is created, which is what the oracles then see
        if let Some(a) = &a.0 {
            <Data as DynamicSystemData>::setup(a, world);
            for r in dyn_creates(&a.decl_r, &a.decl_w) {
                if !world.has_value_raw(rid(r)) {
                    by_ty!(r.0, K => world.insert_by_id(rid(r), R::<K>(init_val(r))));
                }
            }
        }
    }
    fn fetch(a: &PAcc<DEF>, w: &'a World) -> Self {
        PData(a.0.as_ref().map(|a| <Data as DynamicSystemData>::fetch(a, w)))
    }
}

pub struct PSys<const DEF: bool> {
    pub acc: PAcc<DEF>,
    /// the harness system whose `run` (effects, holds, rendezvous) is reused
    pub inner: HSys,
}
impl<const DEF: bool> PSys<DEF> {
    pub fn new(tag: usize, r: Vec<Res>, w: Vec<Res>, shared: &Arc<Shared>) -> Self {
        let mk = || Acc { tag, decl_r: r.clone(), decl_w: w.clone(), shared: shared.clone(), path: vec![], borrow: true };
        PSys { acc: PAcc(Some(mk())), inner: HSys { acc: mk(), time: rt(3) } }
    }
}
impl<'a, const DEF: bool> System<'a> for PSys<DEF> {
    type SystemData = PData<'a, DEF>;
    fn run(&mut self, d: PData<'a, DEF>) {
        if let Some(d) = d.0 {
            System::run(&mut self.inner, d)
        }
    }
    fn accessor<'b>(&'b self) -> AccessorCow<'a, 'b, Self> {
        AccessorCow::Ref(&self.acc)
    }
    /// every hint occurs (by tag); `ParSeq` has no use for it
    fn running_time(&self) -> shred::RunningTime {
        rt((1 + self.inner.acc.tag % 5) as u8)
    }
    fn setup(&mut self, world: &mut World) {
        let a = &self.inner.acc;
        a.shared.behav[a.tag].sys_setups.fetch_add(1, SeqCst);
        a.shared.lifecycle.lock().unwrap().push(('U', a.tag));
        <PData<DEF> as DynamicSystemData>::setup(&self.accessor(), world)
    }
}

// ------------------------------------------------------------------ static leaves (s / p)

pub struct SCore {
    pub tag: usize,
    pub shared: Arc<Shared>,
}

/// `run` of a static leaf: `F` is logged with the data already fetched, `D` after it has been
/// dropped, so the logged window lies inside the real borrow window up to the release
fn srun<D>(c: &SCore, data: D) {
    let sh = &c.shared;
    let b = &sh.behav[c.tag];
    sh.push('F', vec![c.tag]);
    b.runs.fetch_add(1, SeqCst);
    {
        let n = sh.inside.fetch_add(1, SeqCst) + 1;
        sh.max_inside.fetch_max(n, SeqCst);
        struct Leave<'s>(&'s Shared, usize);
        impl Drop for Leave<'_> {
            fn drop(&mut self) {
                self.0.inside.fetch_sub(1, SeqCst);
            }
        }
        b.entered.store(true, SeqCst);
        let _leave = Leave(sh, c.tag);
        let want = b.rendezvous.load(SeqCst);
        if want > 1 {
            let t = Instant::now();
            let lim = Duration::from_micros(sh.rendezvous_timeout_us.load(SeqCst));
            let partner = b.partner.load(SeqCst);
            if partner > 0 {
                while !sh.behav[partner - 1].entered.load(SeqCst) && t.elapsed() < lim {
                    std::thread::yield_now();
                }
            } else {
                while sh.max_inside.load(SeqCst) < want && sh.inside.load(SeqCst) < want && t.elapsed() < lim {
                    std::thread::yield_now();
                }
            }
        }
        let hold = b.hold_us.load(SeqCst);
        if hold > 0 {
            let t = Instant::now();
            while t.elapsed() < Duration::from_micros(hold) {
                std::thread::yield_now();
            }
        }
    }
    drop(data);
    sh.push('D', vec![c.tag]);
}

macro_rules! stat {
    ($ov:ident, $pl:ident, $d:ty) => {
        pub struct $ov(pub SCore);
        impl<'a> System<'a> for $ov {
            type SystemData = $d;
            fn run(&mut self, d: $d) {
                srun(&self.0, d)
            }
            fn running_time(&self) -> shred::RunningTime {
                rt((1 + self.0.tag % 5) as u8)
            }
            fn setup(&mut self, world: &mut World) {
                let c = &self.0;
                c.shared.behav[c.tag].sys_setups.fetch_add(1, SeqCst);
                c.shared.lifecycle.lock().unwrap().push(('U', c.tag));
                // the body of the default `System::setup`
                <Self::SystemData as DynamicSystemData>::setup(&self.accessor(), world)
            }
        }
        pub struct $pl(pub SCore);
        impl<'a> System<'a> for $pl {
            type SystemData = $d;
            fn run(&mut self, d: $d) {
                srun(&self.0, d)
            }
            fn running_time(&self) -> shred::RunningTime {
                rt((1 + self.0.tag % 5) as u8)
            }
        }
    };
}
stat!(S0, P0, ());
stat!(S1, P1, Read<'a, R<0>>);
stat!(S2, P2, Write<'a, R<1>>);
stat!(S3, P3, (Read<'a, R<2>>, Write<'a, R<0>>));
stat!(S4, P4, (Read<'a, R<0>>, Read<'a, R<1>>));
stat!(S5, P5, (Write<'a, R<2>>, Write<'a, R<3>>));
stat!(S6, P6, (Read<'a, R<3>>, Read<'a, R<2>>, Write<'a, R<1>>));
stat!(S7, P7, Option<Read<'a, R<3>>>);
stat!(S8, P8, (Write<'a, R<4>>, Read<'a, R<5>>));
stat!(S9, P9, Write<'a, R<5>>);

pub const NSTAT: usize = 10;
/// (reads, writes, created by setup when absent) of the static data above, in the order the
/// tuple members report / create them
pub const STAT: [(&[Res], &[Res], &[Res]); NSTAT] = [
    (&[], &[], &[]),
    (&[(0, 0)], &[], &[(0, 0)]),
    (&[], &[(1, 0)], &[(1, 0)]),
    (&[(2, 0)], &[(0, 0)], &[(2, 0), (0, 0)]),
    (&[(0, 0), (1, 0)], &[], &[(0, 0), (1, 0)]),
    (&[], &[(2, 0), (3, 0)], &[(2, 0), (3, 0)]),
    (&[(3, 0), (2, 0)], &[(1, 0)], &[(3, 0), (2, 0), (1, 0)]),
    (&[(3, 0)], &[], &[]),
    (&[(5, 0)], &[(4, 0)], &[(4, 0), (5, 0)]),
    (&[], &[(5, 0)], &[(5, 0)]),
];
pub const STAT_NAME: [&str; NSTAT] = [
    "()",
    "Read<R0>",
    "Write<R1>",
    "(Read<R2>, Write<R0>)",
    "(Read<R0>, Read<R1>)",
    "(Write<R2>, Write<R3>)",
    "(Read<R3>, Read<R2>, Write<R1>)",
    "Option<Read<R3>>",
    "(Write<R4>, Read<R5>)",
    "Write<R5>",
];

pub fn mk_static(kind: usize, plain: bool, tag: usize, shared: &Arc<Shared>) -> Dyn {
    let c = SCore { tag, shared: shared.clone() };
    macro_rules! pick {
        ($($k:expr => $ov:ident, $pl:ident;)*) => {
            match kind {
                $($k => if plain { Dyn::new($pl(c)) } else { Dyn::new($ov(c)) },)*
                _ => panic!("no static system data number {}", kind),
            }
        };
    }
    pick! {
        0 => S0, P0;
        1 => S1, P1;
        2 => S2, P2;
        3 => S3, P3;
        4 => S4, P4;
        5 => S5, P5;
        6 => S6, P6;
        7 => S7, P7;
        8 => S8, P8;
        9 => S9, P9;
    }
}
