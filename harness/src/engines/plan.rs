//! Plan engine: generated registration sequences → the real builder (outcome of every `add`,
//! Debug text, executed layout via the shape hook and one identification run, `max_threads`)
//! against the Lean model of the builder, plus the layout oracles of C01–C04, C07, C10, C12,
//! C18, C20.
use crate::build::*;
use crate::common::*;
use crate::gen::*;
use crate::oracle::*;
use crate::sys::*;
use std::panic::{catch_unwind, AssertUnwindSafe};

pub struct CaseResult {
    pub impl_v: Vec<(String, String)>,
    pub model_v: Vec<(String, String)>,
    pub layout: Option<Layout>,
    pub built: Built,
    pub max_threads: Option<usize>,
}

fn compare_layouts(key: Option<usize>, lay: &Layout, built: &Built, out: &mut Vec<(String, String)>) {
    if let Some(ml) = built.model_layouts.get(&key) {
        let m = parse_model_layout(ml);
        if m.sys != lay.stages {
            out.push(("layout".into(), format!("builder {:?}: executed layout {} but the model lays out {}", key, show_nested(&lay.stages), show_nested(&m.sys))));
        }
        if m.tl != lay.tl {
            out.push(("tl".into(), format!("builder {:?}: thread-local order {:?}, model {:?}", key, lay.tl, m.tl)));
        }
    }
    if let (Some(md), Some(rd)) = (built.model_debug.get(&key), built.real_debug.get(&key)) {
        // the number inside a placeholder (`unnamed_system_<n>`) is the crate's internal id; the
        // property only asks for *a* placeholder, so the texts are compared up to that number
        // (that distinct unnamed systems get distinct placeholders is an implementation-side oracle)
        match rd {
            Ok(t) if blank_placeholders(t) == blank_placeholders(md) => {}
            Ok(t) => out.push(("debug".into(), format!("builder {:?}: Debug text differs: real {:?} model {:?}", key, t, md))),
            Err(e) => out.push(("debug".into(), format!("builder {:?}: Debug panicked ({}) but the model prints {:?}", key, e, md))),
        }
    }
    for (k, l) in &lay.inner {
        compare_layouts(Some(*k), l, built, out);
    }
}
/// every `unnamed_system_<digits>` token with its digits removed
pub fn blank_placeholders(t: &str) -> String {
    let mut out = String::new();
    let mut rest = t;
    while let Some(i) = rest.find("unnamed_system_") {
        let end = i + "unnamed_system_".len();
        out.push_str(&rest[..end]);
        rest = rest[end..].trim_start_matches(|c: char| c.is_ascii_digit());
        out.push('#');
    }
    out.push_str(rest);
    out
}
fn oracles_rec(key: Option<usize>, lay: &Layout, built: &Built, mt: Option<usize>, out: &mut Vec<(String, String)>) {
    out.extend(layout_oracles(key, lay, built, built.real_debug.get(&key), if key.is_none() { mt } else { None }));
    for (k, l) in &lay.inner {
        oracles_rec(Some(*k), l, built, None, out);
    }
}

pub fn eval_case(ops: &[Op], drv: Option<&mut Drv>, pool: &Pool) -> CaseResult {
    let shared = Shared::new(Op::max_tag(ops) + 1);
    let mut built = build_case(ops, drv, shared.clone(), pool, false);
    let mut model_v: Vec<(String, String)> = std::mem::take(&mut built.diffs).into_iter().map(|d| ("outcome".to_string(), d)).collect();
    model_v.extend(std::mem::take(&mut built.qdiffs).into_iter().map(|d| ("query".to_string(), d)));
    let mut impl_v = vec![];
    let b = built.builder.take().unwrap();
    let disp = catch_unwind(AssertUnwindSafe(move || b.build()));
    let mut disp = match disp {
        Ok(d) => d,
        Err(p) => {
            impl_v.push(("C18".to_string(), format!("build() panicked: {}", panic_message(&p))));
            return CaseResult { impl_v, model_v, layout: None, built, max_threads: None };
        }
    };
    #[cfg(feature = "parallel")]
    let mt = Some(disp.max_threads());
    #[cfg(not(feature = "parallel"))]
    let mt: Option<usize> = None;
    let lay = match identify(&mut disp, &shared, &built) {
        Ok(l) => l,
        Err(e) => {
            // what the built dispatcher runs is not what was registered, level by level
            if Op::depth(ops) > 0 {
                impl_v.push(("C07".to_string(), format!("{} (a dispatcher with batches)", e)));
            }
            if Op::has_tl_in_batch(ops, false) || ops.iter().any(|o| matches!(o, Op::Tl { .. })) {
                impl_v.push(("C12".to_string(), format!("{} (a dispatcher with thread-local systems)", e)));
            }
            impl_v.push(("C04".to_string(), e));
            return CaseResult { impl_v, model_v, layout: None, built, max_threads: mt };
        }
    };
    compare_layouts(None, &lay, &built, &mut model_v);
    if let (Some(mt), Some(ml)) = (mt, built.model_layouts.get(&None)) {
        let m = parse_model_layout(ml);
        if m.maxthreads != mt {
            model_v.push(("maxthreads".into(), format!("max_threads() = {} but the model says {}", mt, m.maxthreads)));
        }
    }
    oracles_rec(None, &lay, &built, mt, &mut impl_v);
    // a panicking registration is what C18 demands for ill-formed input; a panic anywhere else is a violation
    for (k, d) in &built.real_debug {
        if let Err(e) = d {
            if !impl_v.iter().any(|(p, _)| p == "C20") {
                impl_v.push(("C20".to_string(), format!("builder {:?}: formatting panicked: {}", k, e)));
            }
        }
    }
    // C12: a dispatcher converts to its sendable form exactly when it has no thread-local
    // systems, and the conversion preserves the plan
    let shape_before = disp.verif_shape().0;
    match disp.try_into_sendable() {
        Ok(mut sd) => {
            if !lay.tl.is_empty() {
                impl_v.push(("C12".into(), format!("try_into_sendable succeeded although {} thread-local systems are registered", lay.tl.len())));
            }
            if sd.verif_shape() != shape_before {
                impl_v.push(("C12".into(), format!("try_into_sendable changed the plan: {:?} -> {:?}", shape_before, sd.verif_shape())));
            }
            shared.take_log();
            shared.ident.store(true, std::sync::atomic::Ordering::SeqCst);
            let w = full_world();
            let r = catch_unwind(AssertUnwindSafe(|| sd.dispatch_seq(&w)));
            shared.ident.store(false, std::sync::atomic::Ordering::SeqCst);
            let order: Vec<usize> = shared.take_log().iter().filter(|e| e.kind == 'F' && e.inst.len() == 1).map(|e| e.inst[0]).collect();
            let want: Vec<usize> = lay.stages.iter().flatten().flatten().cloned().collect();
            if r.is_err() || order != want {
                impl_v.push(("C12".into(), format!("the sendable dispatcher runs {:?}, the plan was {:?}", order, want)));
            }
        }
        Err(mut d) => {
            if lay.tl.is_empty() {
                impl_v.push(("C12".into(), "try_into_sendable failed although no thread-local system is registered".into()));
            }
            // a refused conversion hands the dispatcher back: it must still be the same dispatcher
            // (plan, thread-local systems in registration order), also after a second refusal
            for attempt in 0..2 {
                if d.verif_shape().0 != shape_before {
                    impl_v.push(("C12".into(), format!("a refused try_into_sendable changed the plan: {:?} -> {:?}", shape_before, d.verif_shape().0)));
                }
                shared.take_log();
                shared.ident.store(true, std::sync::atomic::Ordering::SeqCst);
                shared.set_caller();
                let w = full_world();
                let r = catch_unwind(AssertUnwindSafe(|| {
                    d.dispatch_seq(&w);
                    d.dispatch_thread_local(&w);
                }));
                shared.ident.store(false, std::sync::atomic::Ordering::SeqCst);
                let order: Vec<usize> = shared.take_log().iter().filter(|e| e.kind == 'F' && e.inst.len() == 1).map(|e| e.inst[0]).collect();
                let mut want: Vec<usize> = lay.stages.iter().flatten().flatten().cloned().collect();
                want.extend(lay.tl.iter().cloned());
                if r.is_err() || order != want {
                    impl_v.push(("C12".into(), format!("after {} refused try_into_sendable the dispatcher runs {:?}, the plan (staged systems, then thread-local systems in registration order) was {:?}", attempt + 1, order, want)));
                    break;
                }
                if attempt == 0 {
                    d = match d.try_into_sendable() {
                        Err(d2) => d2,
                        Ok(_) => {
                            impl_v.push(("C12".into(), "the second try_into_sendable succeeded although thread-local systems are registered".into()));
                            break;
                        }
                    };
                }
            }
        }
    }
    CaseResult { impl_v, model_v, layout: Some(lay), built, max_threads: mt }
}

/// delta debugging on the op tree: drop ops while `pred` keeps holding
pub fn shrink(ops: &[Op], pred: &mut dyn FnMut(&[Op]) -> bool) -> Vec<Op> {
    let mut cur = ops.to_vec();
    let mut budget = 300;
    loop {
        let mut changed = false;
        let mut i = 0;
        while i < cur.len() && budget > 0 {
            // try removing op i
            let mut cand = cur.clone();
            cand.remove(i);
            budget -= 1;
            if pred(&cand) {
                cur = cand;
                changed = true;
                continue;
            }
            // try simplifying op i
            let mut cands: Vec<Op> = vec![];
            match &cur[i] {
                Op::Batch { tag, name, deps, ctl, t, n, inner } => {
                    for j in 0..inner.len() {
                        let mut inn = inner.clone();
                        inn.remove(j);
                        cands.push(Op::Batch { tag: *tag, name: name.clone(), deps: deps.clone(), ctl: *ctl, t: *t, n: *n, inner: inn });
                    }
                    if !deps.is_empty() {
                        cands.push(Op::Batch { tag: *tag, name: name.clone(), deps: vec![], ctl: *ctl, t: *t, n: *n, inner: inner.clone() });
                    }
                }
                Op::Sys { tag, name, deps, r, w, t } => {
                    for j in 0..deps.len() {
                        let mut d = deps.clone();
                        d.remove(j);
                        cands.push(Op::Sys { tag: *tag, name: name.clone(), deps: d, r: r.clone(), w: w.clone(), t: *t });
                    }
                    for j in 0..r.len() {
                        let mut rr = r.clone();
                        rr.remove(j);
                        cands.push(Op::Sys { tag: *tag, name: name.clone(), deps: deps.clone(), r: rr, w: w.clone(), t: *t });
                    }
                    for j in 0..w.len() {
                        let mut ww = w.clone();
                        ww.remove(j);
                        cands.push(Op::Sys { tag: *tag, name: name.clone(), deps: deps.clone(), r: r.clone(), w: ww, t: *t });
                    }
                }
                _ => {}
            }
            let mut simplified = false;
            for c in cands {
                if budget == 0 {
                    break;
                }
                budget -= 1;
                let mut cand = cur.clone();
                cand[i] = c;
                if pred(&cand) {
                    cur = cand;
                    changed = true;
                    simplified = true;
                    break;
                }
            }
            if !simplified {
                i += 1;
            }
        }
        if !changed || budget == 0 {
            return cur;
        }
    }
}

pub fn case_lines(ops: &[Op]) -> Vec<String> {
    let mut v = vec![];
    Op::lines(ops, &mut v);
    v
}

pub fn abyss_case(n: usize) -> Vec<Op> {
    let mut v = vec![];
    for i in 0..n {
        v.push(Op::Sys { tag: i, name: format!("d{}", i), deps: vec![], r: vec![], w: vec![], t: 1 });
        v.push(Op::Barrier);
    }
    v.push(Op::Sys { tag: n, name: "A".into(), deps: vec![], r: vec![], w: vec![], t: 3 });
    v.push(Op::Sys { tag: n + 1, name: "B".into(), deps: vec!["A".into()], r: vec![], w: vec![], t: 1 });
    v.push(Op::Sys { tag: n + 2, name: "C".into(), deps: vec![format!("d{}", n - 1), "B".into()], r: vec![], w: vec![], t: 1 });
    v.push(Op::Sys { tag: n + 3, name: "D".into(), deps: vec![], r: vec![], w: vec![], t: 1 });
    v
}

pub fn run(args: &Args, rep: &mut Report) {
    let seed = args.num("seed", 1);
    let cases = args.num("cases", 400);
    let profiles: Vec<String> = args.str("profiles", "plan").split(',').map(|s| s.to_string()).collect();
    let max_n = args.num("max-n", 0);
    let mut drv = Drv::spawn(&args.str("driver", "/verif/lean/.lake/build/bin/driver"));
    let pool = make_pool(2);
    rep.rule = "registration sequences from the profile-driven generator (plus corpus / small scope); distinct = distinct executed layouts (tree incl. batches); non-trivial = at least two stages, a joined group or a batch".into();
    let mut todo: Vec<(String, Vec<Op>)> = vec![];
    let mut replay_abyss = 0usize;
    if let Some(f) = args.get("replay") {
        let text = std::fs::read_to_string(&f).expect("replay file");
        let lines: Vec<String> = text.lines().map(|s| s.to_string()).collect();
        if let Some(n) = lines.first().and_then(|l| l.strip_prefix("abyss ")).and_then(|x| x.trim().parse::<usize>().ok()) {
            replay_abyss = n;
        } else {
            todo.push((format!("replay:{}", f), Op::parse(&lines)));
        }
    }
    if replay_abyss > 0 {
        let res = eval_case(&abyss_case(replay_abyss), None, &pool);
        rep.case(&format!("abyss {}", replay_abyss), true);
        for (p, what) in &res.impl_v {
            rep.violate(p, "impl", "", format!("{} [abyss {}]", what, replay_abyss), vec![format!("abyss {}", replay_abyss)]);
        }
    }
    if let Some(dir) = args.get("corpus") {
        if let Ok(rd) = std::fs::read_dir(&dir) {
            let mut files: Vec<_> = rd.filter_map(|e| e.ok()).map(|e| e.path()).filter(|p| p.extension().map(|x| x == "case").unwrap_or(false)).collect();
            files.sort();
            for f in files {
                let text = std::fs::read_to_string(&f).unwrap_or_default();
                let lines: Vec<String> = text.lines().filter(|l| !l.starts_with('#')).map(|s| s.to_string()).collect();
                todo.push((format!("corpus:{}", f.display()), Op::parse(&lines)));
                rep.count("corpus_cases");
            }
        }
    }
    if args.get("replay").is_none() {
        if args.flag("small-scope") {
            small_scope(&mut todo);
        }
        for c in 0..cases {
            let prof = &profiles[(c as usize) % profiles.len()];
            let mut cfg = GenCfg::profile(prof);
            if max_n > 0 {
                cfg.max_n = max_n;
            }
            let mut g = Gen::new(Rng::new(seed, c), cfg);
            todo.push((format!("gen:{}:{}:{}", prof, seed, c), g.case()));
        }
    }
    // beyond the scale at which the model can be run alongside (tens of thousands of stages): the
    // implementation-side oracles alone, on one generated plan: `n` x (system; barrier), then a few
    // systems with dependencies on systems before and after the last barrier
    let abyss = args.num("abyss", 0);
    if abyss > 0 && args.get("replay").is_none() {
        let ops = abyss_case(abyss as usize);
        let t0 = std::time::Instant::now();
        let res = eval_case(&ops, None, &pool);
        rep.case(&format!("abyss {}", abyss), true);
        rep.add("abyss_registrations", Op::count(&ops) as u64);
        rep.add("abyss_ms", t0.elapsed().as_millis() as u64);
        if let Some(l) = &res.layout {
            rep.maxi("max_stages", l.stages.len() as u64);
        }
        let mut seen: std::collections::BTreeSet<String> = Default::default();
        for (p, what) in &res.impl_v {
            if seen.insert(p.clone()) {
                rep.violate(p, "impl", "", format!("{} [abyss {}: {} x (system; barrier), then A, B after A, C after the last system before the barrier and after B]", what, abyss, abyss), vec![format!("abyss {}", abyss)]);
            }
        }
    }
    let mut reported: std::collections::BTreeSet<String> = Default::default();
    let mut case_no = 0u64;
    for (label, ops) in todo {
        mark_current(&case_lines(&ops));
        // one case in eight is registered (and printed) while the calling thread unwinds; replayed and
        // corpus cases both ways (the second pass of the loop below)
        case_no += 1;
        let unwinding = if label.starts_with("gen:") { Rng::new(seed ^ 0xd70b, case_no).chance(12) } else { false };
        crate::build::BUILD_UNWINDING.store(unwinding, std::sync::atomic::Ordering::SeqCst);
        if label.starts_with("corpus:") || label.starts_with("replay:") {
            // the other way first, implementation-side oracles only
            crate::build::BUILD_UNWINDING.store(true, std::sync::atomic::Ordering::SeqCst);
            let r2 = eval_case(&ops, None, &pool);
            crate::build::BUILD_UNWINDING.store(false, std::sync::atomic::Ordering::SeqCst);
            for (p, what) in &r2.impl_v {
                if reported.insert(format!("impl:{}:unwinding", p)) {
                    rep.violate(p, "impl", "", format!("(registered while the calling thread unwinds) {} [{}]", what, label), case_lines(&ops));
                }
            }
        }
        if unwinding {
            rep.count("cases_registered_while_the_caller_unwinds");
        }
        // one case in twelve (every case with --default-pool) is built without a pool of its own
        let no_pool = args.flag("default-pool") || (label.starts_with("gen:") && Rng::new(seed ^ 0x9001, case_no).chance(8));
        crate::build::NO_POOL.store(no_pool, std::sync::atomic::Ordering::SeqCst);
        if no_pool {
            rep.count("cases_built_on_the_crates_default_pool");
        }
        drv.begin_case();
        let res = eval_case(&ops, Some(&mut drv), &pool);
        let kf1 = Op::has_tl_in_batch(&ops, false);
        let key = res.layout.as_ref().map(|l| l.show()).unwrap_or_else(|| label.clone());
        rep.case(&key, res.layout.as_ref().map(|l| l.nontrivial()).unwrap_or(false));
        // distribution
        rep.add("registrations", Op::count(&ops) as u64);
        for i in res.built.infos.values() {
            if i.outcome.starts_with("panic unknownDep") {
                rep.count("add_panics_unknown_dep");
            } else if i.outcome.starts_with("panic duplicateName") {
                rep.count("add_panics_duplicate_name");
            }
            if i.is_batch {
                rep.count("batches");
            }
            if i.is_tl {
                rep.count("thread_local_systems");
            }
            if !i.is_tl && i.name.is_empty() {
                rep.count("unnamed_systems");
            }
        }
        if let Some(l) = &res.layout {
            rep.maxi("max_stages", l.stages.len() as u64);
            rep.maxi("max_group_len", l.stages.iter().flatten().map(|g| g.len()).max().unwrap_or(0) as u64);
            rep.maxi("max_stage_width", l.stages.iter().map(|s| s.len()).max().unwrap_or(0) as u64);
            rep.add("joined_groups", l.stages.iter().flatten().filter(|g| g.len() > 1).count() as u64);
            rep.maxi("max_batch_depth", Op::depth(&ops) as u64);
        }
        if rep.samples.len() < 2 && res.layout.as_ref().map(|l| l.nontrivial()).unwrap_or(false) {
            rep.sample(Json::obj(vec![
                ("case", Json::Arr(case_lines(&ops).into_iter().map(Json::s).collect())),
                ("executed_layout", Json::s(res.layout.as_ref().unwrap().show())),
                ("debug_text", Json::s(res.built.real_debug.get(&None).and_then(|r| r.clone().ok()).unwrap_or_default())),
            ]));
        }
        // violations: first of each (property, kind) is shrunk and reported
        for (p, what) in &res.impl_v {
            let k = format!("impl:{}", p);
            if reported.insert(k) {
                let pp = p.clone();
                let small = shrink(&ops, &mut |c: &[Op]| {
                    let r = eval_case(c, None, &pool);
                    r.impl_v.iter().any(|(q, _)| *q == pp)
                });
                let r2 = eval_case(&small, None, &pool);
                let what2 = r2.impl_v.iter().find(|(q, _)| q == p).map(|x| x.1.clone()).unwrap_or_else(|| what.clone());
                let cls = if Op::has_tl_in_batch(&small, false) { "kf1" } else { "" };
                rep.violate(p, "impl", cls, format!("{} [{}; real layout {}]", what2, label, r2.layout.map(|l| l.show()).unwrap_or_default()), case_lines(&small));
            }
        }
        for (aspect, what) in &res.model_v {
            if reported.insert(format!("model:{}", aspect)) {
                let asp = aspect.clone();
                let small = shrink(&ops, &mut |c: &[Op]| {
                    drv.begin_case();
                    let r = eval_case(c, Some(&mut drv), &pool);
                    r.model_v.iter().any(|(a, _)| *a == asp)
                });
                drv.begin_case();
                let r2 = eval_case(&small, Some(&mut drv), &pool);
                let what = r2.model_v.iter().find(|(a, _)| a == aspect).map(|x| x.1.clone()).unwrap_or_else(|| what.clone());
                rep.violate(&format!("MODEL:{}", aspect), "model", if kf1 { "kf1" } else { "" }, format!("{} [{}]", what, label), case_lines(&small));
            }
        }
    }
    crate::build::BUILD_UNWINDING.store(false, std::sync::atomic::Ordering::SeqCst);
    crate::build::NO_POOL.store(false, std::sync::atomic::Ordering::SeqCst);
    rep.add("driver_requests", drv.requests);
}

/// all sequences of up to 3 systems over two resources × {-,R,W}² × time {1,5} × dependency on
/// the first system × one barrier position
fn small_scope(todo: &mut Vec<(String, Vec<Op>)>) {
    let acc: Vec<(Vec<Res>, Vec<Res>)> = {
        let mut v = vec![];
        for a in 0..3 {
            for b in 0..3 {
                let (mut r, mut w) = (vec![], vec![]);
                match a {
                    1 => r.push((0u8, 0u64)),
                    2 => w.push((0, 0)),
                    _ => {}
                }
                match b {
                    1 => r.push((1, 0)),
                    2 => w.push((1, 0)),
                    _ => {}
                }
                v.push((r, w));
            }
        }
        v
    };
    let mut n = 0;
    for a0 in 0..9 {
        for a1 in 0..9 {
            for a2 in 0..9 {
                for times in 0..8u8 {
                    for deps in 0..4u8 {
                        for bar in 0..3u8 {
                            let mut ops = vec![];
                            let accs = [a0, a1, a2];
                            for k in 0..3usize {
                                if bar as usize == k && k > 0 {
                                    ops.push(Op::Barrier);
                                }
                                let mut d = vec![];
                                if k == 1 && deps & 1 != 0 {
                                    d.push("s0".to_string());
                                }
                                if k == 2 && deps & 2 != 0 {
                                    d.push("s0".to_string());
                                }
                                let (r, w) = acc[accs[k]].clone();
                                ops.push(Op::Sys { tag: k, name: format!("s{}", k), deps: d, r, w, t: if times >> k & 1 == 1 { 5 } else { 1 } });
                            }
                            n += 1;
                            todo.push((format!("small:{}", n), ops));
                        }
                    }
                }
            }
        }
    }
}
